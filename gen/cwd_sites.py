#!/usr/bin/env python3
"""gen/cwd_sites.py [repo] -> coq/theories/Gen/CwdSites.v
Reads, from the source of the file commands, WHICH directory each cwd-dependent string is resolved
against (the parameters `sites` of Cwd/Model.v).  A site whose code is not recognised is reported in
the generated file (recognised := false) so that the obligation Props/C18.current_sites_fixed fails."""
import re, sys, os
REPO = sys.argv[1] if len(sys.argv) > 1 else os.environ.get("VERIF_REPO", "/repo")
OUT = os.path.join(os.path.dirname(os.path.dirname(os.path.abspath(__file__))), "coq", "theories", "Gen", "CwdSites.v")

def body(src, header):
    """text of the function whose signature starts with `header` (brace matching)"""
    i = src.index(header)
    j = src.index("{", src.index(")", i))
    # skip the return type: first '{' after the closing parenthesis of the argument list
    depth, k = 0, j
    while True:
        if src[k] == "{": depth += 1
        elif src[k] == "}":
            depth -= 1
            if depth == 0: return src[j:k + 1]
        k += 1

def strip_comments(s):
    return re.sub(r"//[^\n]*", "", s)

notes = []
def site(name, val):
    if val is None:
        notes.append(name)
    return val

common = strip_comments(open(os.path.join(REPO, "file/src/common/mod.rs")).read())
copy = strip_comments(open(os.path.join(REPO, "file/src/copy/mod.rs")).read())
mv = strip_comments(open(os.path.join(REPO, "file/src/mv/mod.rs")).read())
track = strip_comments(open(os.path.join(REPO, "file/src/track/mod.rs")).read())

def sep_site(fn):
    b = body(common, "pub fn " + fn)
    m = re.search(r'format!\("\{cwd\}\{t\}"\)', b)
    if not m:
        return None
    pre = b[:m.start()]
    slashed = re.search(r'format!\("\{cwd\}/"\)', pre) is not None and re.search(r"cwd\s*\.ends_with\('/'\)", pre) is not None
    return slashed

def empty_site(fn):
    """in the subdirectory branch: is an EMPTY target list (Some(vec![])) treated like no list (the current
    directory) -- `Some(targets) if !targets.is_empty() => …, _ => vec![cwd…]` -- or mapped to an empty list
    (`Some(targets) => …map…, None => vec![cwd…]`), which selects every path at the root?"""
    b = body(common, "pub fn " + fn)
    m = re.search(r'format!\("\{cwd\}\{t\}"\)', b)
    if not m:
        return None
    pre = re.sub(r"\s+", "", b[:m.start()])[-160:]
    post = re.sub(r"\s+", "", b[m.end():])[:120]
    if re.search(r"Some\(targets\)if!targets\.is_empty\(\)=>\{?targets\.iter\(\)\.map\(\|t\|$", pre) and re.search(r"_=>vec!\[cwd", post):
        return True
    if re.search(r"Some\(targets\)=>targets\.iter\(\)\.map\(\|t\|$", pre) and re.search(r"None=>vec!\[cwd", post):
        return False
    return None


def base_of(expr):
    e = re.sub(r"\s+", "", expr)
    if e in ("xvc_root", "xvc_root.absolute_path()", "&xvc_root"):
        return "BRoot"
    if "current_dir" in e:
        return "BCwd"
    return None

def dest_sites(src, fn):
    b = body(src, "pub fn " + fn)
    m = re.search(r"if\s+destination\.ends_with\('/'\)\s*\{", b)
    if not m:
        return None, None
    dirpart = b[m.end():]
    m1 = re.search(r"XvcPath::new\(\s*xvc_root\s*,\s*([^,]+?)\s*,\s*Path::new\(\s*destination\.strip_suffix", dirpart)
    m2 = re.search(r"XvcPath::new\(\s*xvc_root\s*,\s*([^,]+?)\s*,\s*Path::new\(\s*destination\s*\)", b)
    def resolve(m):
        if not m: return None
        e = m.group(1)
        if re.sub(r"\s+", "", e) == "current_dir":
            # a local: must be bound to the configured current directory
            return "BCwd" if re.search(r"let\s+current_dir\s*=\s*xvc_root\.config\(\)\.current_dir\(\)", b) else None
        return base_of(e)
    return resolve(m1), resolve(m2)

tfd = body(common, "pub fn targets_from_disk")
m = re.search(r"t\.contains\('/'\)\s*\|\|\s*([^\n]+?\.is_dir\(\))", re.sub(r"\s*\n\s*", " ", tfd))
disk_isdir = None
if m:
    e = re.sub(r"\s+", "", m.group(1))
    if e == "PathBuf::from(t).is_dir()": disk_isdir = "BProcess"
    elif e == "xvc_root.absolute_path().join(t).is_dir()": disk_isdir = "BRoot"
m = re.search(r"path_metadata_map_from_file_targets\((.*?)\)\?;", tfd, re.S)
disk_file = None
if m:
    a = re.sub(r"\s+", "", m.group(1))
    if "targets.clone().unwrap()," in a and "join" not in a: disk_file = "BProcess"
    elif "xvc_root.absolute_path().join(t)" in a: disk_file = "BRoot"

tb = body(track, "pub fn cmd_track")
m = re.search(r"let dir_targets.*?\.collect\(\);", tb, re.S)
track_isdir = track_resolve = None
if m:
    d = re.sub(r"\s+", "", m.group(0))
    if "letp=PathBuf::from(t);ifp.is_dir()" in d: track_isdir = "BProcess"
    elif "letabs=current_dir.as_path().join(PathBuf::from(t));" in d and "ifabs.is_dir()" in d: track_isdir = "BCwd"
    elif "ifcurrent_dir.as_path().join(&p).is_dir()" in d: track_isdir = "BCwd"
    if "XvcPath::new(xvc_root,current_dir,&p)" in d: track_resolve = "BCwd"
    elif "abs!=xvc_root.absolute_path().as_path()" in d and "XvcPath::new(xvc_root,xvc_root.absolute_path(),&abs)" in d: track_resolve = "BRoot"

cd, cf = dest_sites(copy, "get_copy_source_dest_store")
md, mf = dest_sites(mv, "get_move_source_dest_store")
vals = [("st_store_sep", site("store_sep", sep_site("filter_targets_from_store"))),
        ("st_store_empty_cwd", site("store_empty_cwd", empty_site("filter_targets_from_store"))),
        ("st_disk_sep", site("disk_sep", sep_site("targets_from_disk"))),
        ("st_copy_dirdest", site("copy_dirdest", cd)), ("st_move_dirdest", site("move_dirdest", md)),
        ("st_copy_filedest", site("copy_filedest", cf)), ("st_move_filedest", site("move_filedest", mf)),
        ("st_disk_isdir", site("disk_isdir", disk_isdir)), ("st_disk_file", site("disk_file", disk_file)),
        ("st_track_isdir", site("track_isdir", track_isdir)), ("st_track_resolve", site("track_resolve", track_resolve))]

def coq(v, name):
    if isinstance(v, bool): return "true" if v else "false"
    if v is None:
        return "false" if name.endswith(("_sep", "_cwd")) else "BProcess"
    return v
txt = "(* GENERATED by gen/cwd_sites.py from file/src/{common,copy,mv,track}/mod.rs -- do not edit. *)\n"
txt += "From XV Require Import Cwd.Model.\n\n"
txt += "Definition current_sites : sites :=\n  {| " + ";\n     ".join("%s := %s" % (n, coq(v, n)) for n, v in vals) + " |}.\n\n"
txt += "(* every site was recognised in the source *)\nDefinition recognised : bool := %s.\n" % ("true" if not notes else "false")
txt += "(* unrecognised: %s *)\n" % (", ".join(notes) if notes else "none")
old = open(OUT).read() if os.path.exists(OUT) else None
if old != txt:
    os.makedirs(os.path.dirname(OUT), exist_ok=True)
    open(OUT, "w").write(txt)
print("CwdSites:", ", ".join("%s=%s" % (n, v) for n, v in vals), "| unrecognised:", notes)
