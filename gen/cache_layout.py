#!/usr/bin/env python3
"""gen/cache_layout.py [repo] -> coq/theories/Gen/CacheLayout.v
Reads, from the CURRENT source, how a cache address is rendered as a path (the parameters `layout`
of Layout/Model.v):

  core/src/types/hashalgorithm.rs   the strum `to_string` name of every HashAlgorithm variant
                                    (= Display = XvcDigest::directory_prefix)
  core/src/types/xvcdigest/mod.rs   XvcDigest::cache_dir: which pieces are pushed in which order; the
                                    chain of `split_at` calls is evaluated symbolically to offsets into
                                    the hex string; directory_prefix and hex_str must be the known ones
  core/src/types/xvcpath.rs         XvcCachePath::new: the format string of the file name ("0.{}" with
                                    xvc_path.extension().unwrap_or("")) and of the whole path ("{}/{}")

Every construct has a `recognised` flag in the generated file; a construct that is not found (or has
a shape this translator does not understand) makes its flag false, and the obligation
Props/C02L.layout_recognised fails.  A construct that IS understood but differs from the documented
one (another prefix, another split point, another file name) changes `current_layout`, and the
obligation Props/C02L.layout_is_documented fails.  Nothing is kept from an older run.
Standard library only."""
import os, re, sys

REPO = sys.argv[1] if len(sys.argv) > 1 else os.environ.get("VERIF_REPO", "/repo")
OUT = os.path.join(os.path.dirname(os.path.dirname(os.path.abspath(__file__))), "coq", "theories", "Gen", "CacheLayout.v")
if len(sys.argv) > 2:
    OUT = sys.argv[2]

VARIANTS = {"AsIs": "AsIs", "Blake3": "Blake3", "Blake2s": "Blake2s", "SHA2_256": "SHA2_256", "SHA3_256": "SHA3_256"}


def strip_rust_comments(src):
    out, i, n = [], 0, len(src)
    while i < n:
        c = src[i]
        if c == '"':
            j = i + 1
            while j < n and src[j] != '"':
                j += 2 if src[j] == "\\" else 1
            out.append(src[i:j + 1]); i = j + 1
        elif src.startswith("//", i):
            j = src.find("\n", i)
            i = n if j < 0 else j
        elif src.startswith("/*", i):
            j = src.find("*/", i + 2)
            i = n if j < 0 else j + 2
        else:
            out.append(c); i += 1
    return "".join(out)


def block_after(src, pos):
    depth, i = 0, pos
    while i < len(src):
        c = src[i]
        if c == '"':
            i += 1
            while i < len(src) and src[i] != '"':
                i += 2 if src[i] == "\\" else 1
        elif c == "{":
            depth += 1
        elif c == "}":
            depth -= 1
            if depth == 0:
                return src[pos + 1:i]
        i += 1
    return None


def fn_body(src, header_re):
    m = re.search(header_re, src)
    if not m:
        return None
    b = src.find("{", m.end() - 1)
    return block_after(src, b) if b >= 0 else None


def read(rel):
    try:
        return strip_rust_comments(open(os.path.join(REPO, rel)).read())
    except OSError:
        return ""


def squash(s):
    return re.sub(r"\s+", "", s)


def rust_str(lit):
    """value of a plain Rust string literal (with the quotes); None for anything with escapes we do not handle"""
    if not (len(lit) >= 2 and lit[0] == '"' and lit[-1] == '"'):
        return None
    body = lit[1:-1]
    if "\\" in body:
        return None
    return body


def fmt_pieces(fmt):
    """a Rust format string -> list of ('lit', text) | ('hole', name-or-None); None if it uses anything else"""
    out, i, lit = [], 0, ""
    while i < len(fmt):
        if fmt.startswith("{{", i):
            lit += "{"; i += 2
        elif fmt.startswith("}}", i):
            lit += "}"; i += 2
        elif fmt[i] == "{":
            j = fmt.find("}", i)
            if j < 0:
                return None
            name = fmt[i + 1:j]
            if name and not re.fullmatch(r"[A-Za-z_][A-Za-z0-9_]*", name):
                return None            # width, precision, {:?}, positional indices: not understood
            if lit:
                out.append(("lit", lit)); lit = ""
            out.append(("hole", name or None)); i = j + 1
        elif fmt[i] == "}":
            return None
        else:
            lit += fmt[i]; i += 1
    if lit:
        out.append(("lit", lit))
    return out


def split_args(s):
    parts, depth, cur, i = [], 0, "", 0
    while i < len(s):
        c = s[i]
        if c == '"':
            j = i + 1
            while j < len(s) and s[j] != '"':
                j += 2 if s[j] == "\\" else 1
            cur += s[i:j + 1]; i = j + 1; continue
        if c in "([{":
            depth += 1
        elif c in ")]}":
            depth -= 1
        if c == "," and depth == 0:
            parts.append(cur.strip()); cur = ""
        else:
            cur += c
        i += 1
    if cur.strip():
        parts.append(cur.strip())
    return parts


def format_call(expr):
    """`format!("..", a, b)` -> (pieces with each hole resolved to its argument expression, squashed)"""
    m = re.fullmatch(r"format!\((.*)\)", expr.strip(), re.S)
    if not m:
        return None
    args = split_args(m.group(1))
    if not args:
        return None
    fmt = rust_str(args[0])
    if fmt is None:
        return None
    pcs = fmt_pieces(fmt)
    if pcs is None:
        return None
    rest, out, k = args[1:], [], 0
    for kind, v in pcs:
        if kind == "lit":
            out.append(("lit", v))
        elif v is None:
            if k >= len(rest):
                return None
            out.append(("arg", squash(rest[k]))); k += 1
        else:
            out.append(("arg", v))       # inline `{name}`
    if k != len(rest):
        return None
    return out


notes = []


def flag(name, ok, why=""):
    if not ok:
        notes.append(name + (": " + why if why else ""))
    return bool(ok)


# ---------------------------------------------------------------------------------------------
# 1. prefix table
# ---------------------------------------------------------------------------------------------
def prefix_table():
    src = read("core/src/types/hashalgorithm.rs")
    m = re.search(r"pub\s+enum\s+HashAlgorithm\s*\{", src)
    if not m:
        return [], False, "enum HashAlgorithm not found"
    body = block_after(src, m.end() - 1)
    if body is None:
        return [], False, "unbalanced enum"
    head = src[:m.start()]
    derive = head[head.rfind("#[derive"):] if "#[derive" in head else ""
    # Display must be strum's (EnumDisplay / strum_macros::Display): then to_string is what format!("{}") prints
    imp = re.search(r"use\s+strum_macros::\{([^}]*)\}", src)
    display_alias = None
    if imp:
        for it in imp.group(1).split(","):
            it = it.strip()
            mm = re.fullmatch(r"Display\s+as\s+(\w+)", it)
            if mm:
                display_alias = mm.group(1)
            elif it == "Display":
                display_alias = "Display"
    if not display_alias or not re.search(r"\b%s\b" % display_alias, derive):
        return [], False, "HashAlgorithm does not derive strum's Display"
    if re.search(r"impl\s+(std::fmt::|fmt::)?Display\s+for\s+HashAlgorithm", src):
        return [], False, "hand-written Display for HashAlgorithm"
    rows, ok, why = [], True, ""
    pos = 0
    # each variant: attributes then an identifier followed by ',' or end
    for vm in re.finditer(r"((?:#\[[^\]]*\]\s*)*)([A-Za-z_][A-Za-z0-9_]*)\s*(?:,|$)", body):
        attrs, name = vm.group(1), vm.group(2)
        sm = re.search(r"#\[strum\(([^\]]*)\)\]", attrs)
        ts = None
        if sm:
            t = re.search(r'\bto_string\s*=\s*("(?:[^"\\]|\\.)*")', sm.group(1))
            if t:
                ts = rust_str(t.group(1))
        if name not in VARIANTS:
            ok, why = False, "unknown variant %s" % name
            continue
        if ts is None:
            ok, why = False, "variant %s has no strum to_string" % name
            continue
        rows.append((VARIANTS[name], ts))
    if len(rows) != len(set(r[0] for r in rows)) or not rows:
        ok, why = False, why or "no variants / duplicate variants"
    missing = [v for v in VARIANTS.values() if v not in [r[0] for r in rows]]
    if missing:
        ok, why = False, why or "variant(s) %s missing" % ",".join(missing)
    return rows, ok, why


# ---------------------------------------------------------------------------------------------
# 2. XvcDigest::cache_dir
# ---------------------------------------------------------------------------------------------
def dir_parts():
    src = read("core/src/types/xvcdigest/mod.rs")
    ok_prefix = squash(fn_body(src, r"pub\s+fn\s+directory_prefix\s*\(\s*&self\s*\)\s*->\s*String\s*\{") or "") == 'format!("{}",self.algorithm)'
    ok_hex = squash(fn_body(src, r"pub\s+fn\s+hex_str\s*\(\s*&self\s*\)\s*->\s*String\s*\{") or "") == "hex::encode(self.digest)"
    ok_len = re.search(r"pub\s+const\s+DIGEST_LENGTH\s*:\s*usize\s*=\s*32\s*;", src) is not None and \
        re.search(r"pub\s+digest\s*:\s*Digest32\b", src) is not None and \
        re.search(r"pub\s+type\s+Digest32\s*=\s*\[\s*u8\s*;\s*DIGEST_LENGTH\s*\]\s*;", src) is not None
    body = fn_body(src, r"pub\s+fn\s+cache_dir\s*\(\s*&self\s*\)\s*->\s*RelativePathBuf\s*\{")
    if body is None:
        return [], False, "cache_dir not found", ok_prefix, ok_hex, ok_len
    stmts = [s.strip() for s in body.split(";")]
    env, acc, parts = {}, None, []
    tail = stmts[-1]
    for st in stmts[:-1]:
        s = squash(st)
        m = re.fullmatch(r"let(?:mut)?(\w+)=self\.directory_prefix\(\)", s)
        if m:
            env[m.group(1)] = ("prefix",); continue
        m = re.fullmatch(r"let(?:mut)?(\w+)=self\.hex_str\(\)", s)
        if m:
            env[m.group(1)] = ("hex", 0, None); continue
        m = re.fullmatch(r"letmut(\w+)=RelativePathBuf::new\(\)", s)
        if m and acc is None:
            acc = m.group(1); continue
        m = re.fullmatch(r"let\((\w+),(\w+)\)=(\w+)\.split_at\((\d+)\)", s)
        if m:
            a, b, x, n = m.group(1), m.group(2), m.group(3), int(m.group(4))
            v = env.get(x)
            if not v or v[0] != "hex":
                return [], False, "split_at on something that is not a piece of the hex string: " + st, ok_prefix, ok_hex, ok_len
            start, ln = v[1], v[2]
            if ln is not None and n > ln:
                return [], False, "split_at beyond the piece: " + st, ok_prefix, ok_hex, ok_len
            env[a] = ("hex", start, n)
            env[b] = ("hex", start + n, None if ln is None else ln - n)
            continue
        m = re.fullmatch(r"(\w+)\.push\(&?(\w+)\)", s)
        if m and m.group(1) == acc:
            v = env.get(m.group(2))
            if not v:
                return [], False, "push of an unknown value: " + st, ok_prefix, ok_hex, ok_len
            parts.append(v); continue
        return [], False, "statement not understood: " + " ".join(st.split()), ok_prefix, ok_hex, ok_len
    if acc is None or squash(tail) != acc:
        return [], False, "cache_dir does not return the path it builds", ok_prefix, ok_hex, ok_len
    return parts, True, "", ok_prefix, ok_hex, ok_len


# ---------------------------------------------------------------------------------------------
# 3. XvcCachePath::new
# ---------------------------------------------------------------------------------------------
def path_format():
    src = read("core/src/types/xvcpath.rs")
    m = re.search(r"impl\s+XvcCachePath\s*\{", src)
    if not m:
        return None, None, "impl XvcCachePath not found"
    impl = block_after(src, m.end() - 1) or ""
    body = fn_body(impl, r"pub\s+fn\s+new\s*\(\s*xvc_path\s*:\s*&XvcPath\s*,\s*content_digest\s*:\s*&ContentDigest\s*,?\s*\)\s*->\s*Result<Self>\s*\{")
    if body is None:
        return None, None, "XvcCachePath::new(xvc_path, content_digest) not found"
    env = {}
    stmts = [s.strip() for s in body.split(";")]
    for st in stmts[:-1]:
        m = re.fullmatch(r"let\s+(\w+)\s*=\s*(.*)", st, re.S)
        if not m:
            return None, None, "statement not understood: " + " ".join(st.split())
        env[m.group(1)] = m.group(2).strip()
    tail = stmts[-1].strip()
    m = re.fullmatch(r"Ok\(\s*Self\(\s*RelativePathBuf::from\(\s*(format!\(.*\))\s*,?\s*\)\s*,?\s*\)\s*,?\s*\)", tail, re.S)
    if not m:
        return None, None, "result expression not understood"
    jp = format_call(m.group(1))
    if jp is None:
        return None, None, "path format not understood"
    join, file_expr = [], None
    for kind, v in jp:
        if kind == "lit":
            join.append(("JLit", v)); continue
        e = squash(env.get(v, v))
        if e == "content_digest.digest().cache_dir()":
            join.append(("JDir", None))
        elif e.startswith("format!("):
            if file_expr is not None:
                return None, None, "two formatted pieces in the path"
            file_expr = env.get(v, v); join.append(("JFile", None))
        else:
            return None, None, "path piece not understood: " + e
    if file_expr is None:
        return join, None, "no file-name piece in the path"
    fp = format_call(file_expr)
    if fp is None:
        return join, None, "file-name format not understood"
    fpieces = []
    for kind, v in fp:
        if kind == "lit":
            fpieces.append(("FLit", v))
        elif squash(env.get(v, v)) == 'xvc_path.extension().unwrap_or("")':
            fpieces.append(("FExt", None))
        else:
            return join, None, "file-name piece not understood: " + v
    return join, fpieces, ""


def coq_bytes(s):
    return "[" + "; ".join(str(b) for b in s.encode()) + "]"


def main():
    rows, ok_t, why_t = prefix_table()
    parts, ok_d, why_d, ok_prefix, ok_hex, ok_len = dir_parts()
    join, fpieces, why_p = path_format()
    r_table = flag("prefix_table", ok_t, why_t)
    r_dir = flag("cache_dir", ok_d, why_d)
    r_prefix = flag("directory_prefix", ok_prefix, "is not format!(\"{}\", self.algorithm)")
    r_hex = flag("hex_str", ok_hex, "is not hex::encode(self.digest)")
    r_len = flag("digest_length", ok_len, "digest is not [u8; 32]")
    r_join = flag("path_format", join is not None, why_p)
    r_file = flag("file_name_format", fpieces is not None, why_p)

    def dp(v):
        if v[0] == "prefix":
            return "DPrefix"
        return "DHex %d %s" % (v[1], "None" if v[2] is None else "(Some %d%%nat)" % v[2])

    def piece(p):
        return p[0] if p[1] is None else "%s %s" % (p[0], coq_bytes(p[1]))

    txt = ("(* GENERATED by gen/cache_layout.py from core/src/types/hashalgorithm.rs, core/src/types/xvcdigest/mod.rs,\n"
           "   core/src/types/xvcpath.rs -- do not edit; regenerated by every ./check C02 run. *)\n"
           "From Coq Require Import List NArith.\nFrom XV Require Import Base.Bytes Layout.Model.\nImport ListNotations.\nLocal Open Scope N_scope.\n\n")
    txt += "Definition current_layout : layout :=\n"
    txt += "  {| l_prefix := [" + "; ".join("(%s, %s)" % (a, coq_bytes(s)) for a, s in rows) + "];"
    txt += "   (* " + ", ".join("%s=%s" % (a, s) for a, s in rows) + " *)\n"
    txt += "     l_dir := [" + "; ".join(dp(v) for v in parts) + "];\n"
    txt += "     l_file := [" + "; ".join(piece(p) for p in (fpieces or [])) + "];\n"
    txt += "     l_join := [" + "; ".join(piece(p) for p in (join or [])) + "] |}.\n\n"
    txt += "(* was each construct found in the source, in a shape the translator understands? *)\n"
    for n, v in (("recognised_prefix_table", r_table), ("recognised_directory_prefix", r_prefix), ("recognised_hex_str", r_hex),
                 ("recognised_digest_length", r_len), ("recognised_cache_dir", r_dir), ("recognised_path_format", r_join),
                 ("recognised_file_name_format", r_file)):
        txt += "Definition %s : bool := %s.\n" % (n, "true" if v else "false")
    txt += ("Definition recognised : bool :=\n  recognised_prefix_table && recognised_directory_prefix && recognised_hex_str && recognised_digest_length &&\n"
            "  recognised_cache_dir && recognised_path_format && recognised_file_name_format.\n")
    txt += "(* unrecognised: %s *)\n" % ("; ".join(n.replace("*)", "* )") for n in notes) if notes else "none")
    old = open(OUT).read() if os.path.exists(OUT) else None
    if old != txt:
        os.makedirs(os.path.dirname(OUT), exist_ok=True)
        open(OUT, "w").write(txt)
    print("CacheLayout: prefixes %s | dir %s | file %s | join %s | unrecognised: %s" % (
        ",".join("%s=%s" % r for r in rows), [dp(v) for v in parts], [piece(p) for p in (fpieces or [])],
        [piece(p) for p in (join or [])], notes or "none"))


if __name__ == "__main__":
    main()
