From Coq Require Import List NArith Bool Lia.
Import ListNotations.
Set Implicit Arguments.

Definition entity := (N * N)%type.
Definition eqe (a b : entity) : bool := N.eqb (fst a) (fst b) && N.eqb (snd a) (snd b).
Lemma eqe_spec a b : reflect (a = b) (eqe a b).
Proof.
  unfold eqe; destruct a as [a1 a2], b as [b1 b2]; cbn.
  destruct (N.eqb_spec a1 b1), (N.eqb_spec a2 b2); cbn; constructor; congruence.
Qed.

Section Store.
Variable V : Type.
Variable veq : V -> V -> bool.
Hypothesis veq_spec : forall a b, reflect (a = b) (veq a b).

Inductive event := Add (e : entity) (v : V) | Remove (e : entity).

(* assoc-list map, first binding wins, kept duplicate-free by construction *)
Definition amap := list (entity * V).
Fixpoint get (m : amap) (e : entity) : option V :=
  match m with [] => None | (k, v) :: r => if eqe k e then Some v else get r e end.
Fixpoint del (m : amap) (e : entity) : amap :=
  match m with [] => [] | (k, v) :: r => if eqe k e then del r e else (k, v) :: del r e end.
Definition put (m : amap) e v : amap := (e, v) :: del m e.

Lemma get_del_same m e : get (del m e) e = None.
Proof. induction m as [|[k v] r IH]; cbn; auto. destruct (eqe_spec k e); cbn; auto.
  destruct (eqe_spec k e); congruence. Qed.
Lemma get_del_other m e e' : e <> e' -> get (del m e) e' = get m e'.
Proof. intros Hne; induction m as [|[k v] r IH]; cbn; auto.
  destruct (eqe_spec k e); cbn.
  - destruct (eqe_spec k e'); [congruence|auto].
  - destruct (eqe_spec k e'); auto. Qed.
Lemma get_put_same m e v : get (put m e v) e = Some v.
Proof. unfold put; cbn. destruct (eqe_spec e e); congruence. Qed.
Lemma get_put_other m e v e' : e <> e' -> get (put m e v) e' = get m e'.
Proof. intros; unfold put; cbn. destruct (eqe_spec e e'); [congruence|]. now apply get_del_other. Qed.

Definition apply_ev (m : amap) (ev : event) : amap :=
  match ev with Add e v => put m e v | Remove e => del m e end.
Definition build_map (l : list event) : amap := fold_left apply_ev l [].

(* the store: map + logs (index omitted in this prototype) *)
Record store := { smap : amap; sprev : list event; scur : list event }.
Definition insert s e v := {| smap := put (smap s) e v; sprev := sprev s; scur := scur s ++ [Add e v] |}.
Definition remove s e :=
  match get (smap s) e with
  | Some _ => {| smap := del (smap s) e; sprev := sprev s; scur := scur s ++ [Remove e] |}
  | None => s end.
Definition update s e v := insert (match get (smap s) e with Some _ => remove s e | None => s end) e v.

Inductive op := OIns (e : entity) (v : V) | OUpd (e : entity) (v : V) | ORem (e : entity).
Definition step s o := match o with OIns e v => insert s e v | OUpd e v => update s e v | ORem e => remove s e end.

(* reference: a function entity -> option V *)
Definition rmap := entity -> option V.
Definition rput (m : rmap) e v : rmap := fun x => if eqe e x then Some v else m x.
Definition rdel (m : rmap) e : rmap := fun x => if eqe e x then None else m x.
Definition rstep (m : rmap) o := match o with OIns e v => rput m e v | OUpd e v => rput m e v | ORem e => rdel m e end.

Definition Inv (s : store) : Prop := forall e, get (smap s) e = get (fold_left apply_ev (sprev s ++ scur s) []) e.

Lemma fold_app (l1 l2 : list event) m : fold_left apply_ev (l1 ++ l2) m = fold_left apply_ev l2 (fold_left apply_ev l1 m).
Proof. apply fold_left_app. Qed.

Lemma get_apply_congr m m' ev : (forall e, get m e = get m' e) -> forall e, get (apply_ev m ev) e = get (apply_ev m' ev) e.
Proof. intros H e. destruct ev as [k v|k]; cbn [apply_ev].
  - destruct (eqe_spec k e) as [->|Hne]. now rewrite !get_put_same. now rewrite !get_put_other.
  - destruct (eqe_spec k e) as [->|Hne]. now rewrite !get_del_same. now rewrite !get_del_other. Qed.

Lemma step_inv s o : Inv s -> Inv (step s o).
Proof.
  unfold Inv; intros H e. destruct o as [k v|k v|k]; cbn [step].
  - cbn. rewrite app_assoc, fold_app; cbn. apply get_apply_congr with (ev := Add k v). exact H.
  - unfold update. destruct (get (smap s) k) eqn:G.
    + unfold remove; rewrite G; cbn. rewrite !app_assoc, fold_app; cbn.
      apply get_apply_congr with (ev := Add k v). intro x.
      rewrite fold_app; cbn. apply get_apply_congr with (ev := Remove k). exact H.
    + cbn. rewrite app_assoc, fold_app; cbn. apply get_apply_congr with (ev := Add k v). exact H.
  - unfold remove. destruct (get (smap s) k) eqn:G; cbn.
    + rewrite app_assoc, fold_app; cbn. apply get_apply_congr with (ev := Remove k). exact H.
    + apply H.
Qed.

Lemma step_ref s o (m : rmap) : (forall e, get (smap s) e = m e) -> forall e, get (smap (step s o)) e = rstep m o e.
Proof.
  intros H e. destruct o as [k v|k v|k]; cbn [step rstep].
  - unfold insert, rput; cbn [smap]. destruct (eqe_spec k e) as [->|Hne]. now rewrite get_put_same. now rewrite get_put_other.
  - unfold update, rput. destruct (get (smap s) k) eqn:G; [unfold remove; rewrite G|]; unfold insert; cbn [smap];
    (destruct (eqe_spec k e) as [->|Hne]; [now rewrite get_put_same|]); rewrite get_put_other by auto;
    [now rewrite get_del_other|auto].
  - unfold remove, rdel. destruct (get (smap s) k) eqn:G; cbn [smap].
    + destruct (eqe_spec k e) as [->|Hne]. now rewrite get_del_same. now rewrite get_del_other.
    + destruct (eqe_spec k e) as [->|Hne]; [exact G|apply H].
Qed.
End Store.
