From Coq Require Import List NArith Bool Lia.
Import ListNotations.
Open Scope N_scope.

(* bytes are N; strings are list N; indices are N *)
Definition byte := N.
Fixpoint nthN (l : list byte) (i : N) : option byte :=
  match l with [] => None | x :: r => if N.eqb i 0 then Some x else nthN r (i - 1) end.
Definition lenN (l : list byte) : N := N.of_nat (length l).
Definition at_ (l : list byte) (i : N) : byte := match nthN l i with Some b => b | None => 0 end. (* only used under i < len guards *)

Definition c_star := 42. Definition c_q := 63. Definition c_lb := 91. Definition c_rb := 93.
Definition c_bs := 92. Definition c_bang := 33. Definition c_caret := 94. Definition c_dash := 45.
Definition c_slash := 47.
Definition is_sep (b : byte) := N.eqb b c_slash.

Record wc := { w_g : N; w_p : N }.
Record st := { gi : N; pi_ : N; wild : wc; gstar : wc }.

Definition unescape_char (c : byte) : byte :=
  if N.eqb c 97 then 97 else if N.eqb c 98 then 8 else if N.eqb c 110 then 10
  else if N.eqb c 114 then 13 else if N.eqb c 116 then 9 else c.

(* returns None on "return false", else (char, new gi) *)
Definition unescape (glob : list byte) (c : byte) (g : N) : option (byte * N) :=
  if N.eqb c c_bs then
    let g' := g + 1 in
    if lenN glob <=? g' then None else Some (unescape_char (at_ glob g'), g')
  else Some (c, g).

Definition slice_eq (glob : list byte) (i : N) (pat : list byte) : bool :=
  (fix go (pat : list byte) (i : N) := match pat with [] => true | x :: r =>
     match nthN glob i with Some y => N.eqb x y && go r (i + 1) | None => false end end) pat i.

Fixpoint skip_mid (fuel : nat) (glob : list byte) (g : N) : N :=
  match fuel with O => g | S f =>
    if (g + 4 <=? lenN glob) && slice_eq glob g [c_slash; c_star; c_star; c_slash]
    then skip_mid f glob (g + 3) else g end.

Definition skip_globstars (glob : list byte) (g0 : N) : N :=
  let g := skip_mid (length glob) glob (g0 + 2) in
  let g := if N.eqb (g + 3) (lenN glob) && slice_eq glob g [c_slash; c_star; c_star] then g + 3 else g in
  g - 2.

Fixpoint scan_sep (fuel : nat) (path : list byte) (p : N) : N :=
  match fuel with O => p | S f =>
    if (p <? lenN path) && negb (is_sep (at_ path p)) then scan_sep f path (p + 1) else p end.

(* class matching: returns None on "return false"; else Some (is_match, gi after the loop) *)
Fixpoint class_loop (fuel : nat) (glob : list byte) (c : byte) (g : N) (first is_match : bool) : option (bool * N) :=
  match fuel with O => Some (is_match, g) | S f =>
    if (g <? lenN glob) && (first || negb (N.eqb (at_ glob g) c_rb)) then
      match unescape glob (at_ glob g) g with
      | None => None
      | Some (low, g1) =>
        let g2 := g1 + 1 in
        if (g2 + 1 <? lenN glob) && N.eqb (at_ glob g2) c_dash && negb (N.eqb (at_ glob (g2 + 1)) c_rb) then
          let g3 := g2 + 1 in
          match unescape glob (at_ glob g3) g3 with
          | None => None
          | Some (high, g4) =>
            let g5 := g4 + 1 in
            class_loop f glob c g5 false (is_match || ((low <=? c) && (c <=? high)))
          end
        else class_loop f glob c g2 false (is_match || ((low <=? c) && (c <=? low)))
      end
    else Some (is_match, g)
  end.

Inductive res := Done (b : bool) | Cont (s : st).

Definition backtrack_or (negated : bool) (path : list byte) (s : st) : res :=
  if (0 <? w_p (wild s)) && (w_p (wild s) <=? lenN path)
  then Cont {| gi := w_g (wild s); pi_ := w_p (wild s); wild := wild s; gstar := gstar s |}
  else Done negated.

Definition body (negated : bool) (glob path : list byte) (s : st) : res :=
  let glen := lenN glob in let plen := lenN path in
  if negb ((gi s <? glen) || (pi_ s <? plen)) then Done (negb negated) else
  if gi s <? glen then
    let c := at_ glob (gi s) in
    if N.eqb c c_star then
      let is_globstar := (gi s + 1 <? glen) && N.eqb (at_ glob (gi s + 1)) c_star in
      let g0 := if is_globstar then skip_globstars glob (gi s) else gi s in
      let w := {| w_g := g0; w_p := pi_ s + 1 |} in
      if is_globstar then
        let g2 := g0 + 2 in
        let is_end_invalid := negb (N.eqb g2 glen) in
        if ((g2 <? 3) || N.eqb (at_ glob (g2 - 3)) c_slash) && (negb is_end_invalid || N.eqb (at_ glob g2) c_slash) then
          let g3 := if is_end_invalid then g2 + 1 else g2 in
          (* skip_to_separator *)
          if N.eqb (pi_ s) plen then
            Cont {| gi := g3; pi_ := pi_ s; wild := {| w_g := g0; w_p := pi_ s + 2 |}; gstar := gstar s |}
          else
            let p := scan_sep (length path) path (pi_ s) in
            let p := if is_end_invalid || negb (N.eqb p plen) then p + 1 else p in
            let w' := {| w_g := g0; w_p := p |} in
            Cont {| gi := g3; pi_ := pi_ s; wild := w'; gstar := w' |}
        else
          let w2 := if (pi_ s <? plen) && is_sep (at_ path (pi_ s)) then gstar s else w in
          Cont {| gi := g2; pi_ := pi_ s; wild := w2; gstar := gstar s |}
      else
        let w2 := if (pi_ s <? plen) && is_sep (at_ path (pi_ s)) then gstar s else w in
        Cont {| gi := g0 + 1; pi_ := pi_ s; wild := w2; gstar := gstar s |}
    else if N.eqb c c_q && (pi_ s <? plen) then
      if negb (is_sep (at_ path (pi_ s)))
      then Cont {| gi := gi s + 1; pi_ := pi_ s + 1; wild := wild s; gstar := gstar s |}
      else backtrack_or negated path s
    else if N.eqb c c_lb && (pi_ s <? plen) then
      let g1 := gi s + 1 in
      let '(neg, g2) := if (g1 <? glen) && (N.eqb (at_ glob g1) c_caret || N.eqb (at_ glob g1) c_bang)
                        then (true, g1 + 1) else (false, g1) in
      match class_loop (length glob) glob (at_ path (pi_ s)) g2 true false with
      | None => Done false
      | Some (is_match, g3) =>
        if glen <=? g3 then Done false else
        let g4 := g3 + 1 in
        if negb (Bool.eqb is_match neg)
        then Cont {| gi := g4; pi_ := pi_ s + 1; wild := wild s; gstar := gstar s |}
        else backtrack_or negated path {| gi := g4; pi_ := pi_ s; wild := wild s; gstar := gstar s |}
      end
    else if pi_ s <? plen then
      match unescape glob c (gi s) with
      | None => Done false
      | Some (c', g1) =>
        let is_match := if N.eqb c' c_slash then is_sep (at_ path (pi_ s)) else N.eqb (at_ path (pi_ s)) c' in
        if is_match then
          Cont {| gi := g1 + 1; pi_ := pi_ s + 1;
                  wild := if N.eqb c' c_slash then gstar s else wild s; gstar := gstar s |}
        else backtrack_or negated path {| gi := g1; pi_ := pi_ s; wild := wild s; gstar := gstar s |}
      end
    else backtrack_or negated path s
  else backtrack_or negated path s.

Fixpoint loop (fuel : nat) (negated : bool) (glob path : list byte) (s : st) : option bool :=
  match fuel with O => None | S f =>
    match body negated glob path s with Done b => Some b | Cont s' => loop f negated glob path s' end end.

Fixpoint skip_bangs (fuel : nat) (glob : list byte) (g : N) (neg : bool) : N * bool :=
  match fuel with O => (g, neg) | S f =>
    if (g <? lenN glob) && N.eqb (at_ glob g) c_bang then skip_bangs f glob (g + 1) (negb neg) else (g, neg) end.

Definition glob_match (glob path : list byte) : option bool :=
  let '(g, neg) := skip_bangs (length glob) glob 0 false in
  let fuel := ((length glob + 2) * (length path + 2) * 4 + 16)%nat in
  loop fuel neg glob path {| gi := g; pi_ := 0; wild := {| w_g := 0; w_p := 0 |}; gstar := {| w_g := 0; w_p := 0 |} |}.

(* quick sanity *)
