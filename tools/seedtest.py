#!/usr/bin/env python3
"""tools/seedtest.py <seeded-id>... [--tier quick] [--props C08,C02]
Runs the checks of the property a seeded change breaks against a scratch worktree of /repo with the change
applied (VERIF_REPO / VERIF_BUILD point the checks at it; evidence and replays go to a scratch directory),
and records in seeded/<id>/result.json whether each check reported a VIOLATION.  /repo itself is not touched."""
import sys, os, json, subprocess, argparse, time
ROOT = os.path.dirname(os.path.dirname(os.path.abspath(__file__)))
WT = os.environ.get("SEED_WT", "/tmp/xvc-verif-mutwt")
BUILD = WT + "-build"

def sh(cmd, **kw):
    return subprocess.run(cmd, shell=True, text=True, stdout=subprocess.PIPE, stderr=subprocess.STDOUT, **kw)

def main():
    ap = argparse.ArgumentParser()
    ap.add_argument("ids", nargs="+")
    ap.add_argument("--tier", default="quick")
    ap.add_argument("--props")
    a = ap.parse_args()
    if not os.path.exists(WT):
        r = sh("git -C /repo worktree add --detach %s HEAD" % WT); print(r.stdout)
    # the checks regenerate coq/theories/Gen/*.v from the tree they are pointed at: keep /repo's tables
    gen = os.path.join(ROOT, "coq", "theories", "Gen")
    keep = "/tmp/xvc-verif-seed-genkeep"
    sh("rm -rf %s && cp -a %s %s" % (keep, gen, keep))
    for sid in a.ids:
        d = os.path.join(ROOT, "seeded", sid)
        meta = json.load(open(os.path.join(d, "meta.json")))
        props = a.props.split(",") if a.props else ([meta["property"]] + meta.get("also_check", []))
        head = sh("git -C /repo rev-parse HEAD").stdout.strip()
        sh("git -C %s checkout -q --detach %s && git -C %s checkout -- . && git -C %s clean -fdq" % (WT, head, WT, WT))
        sh("cp /repo/Cargo.lock %s/Cargo.lock" % WT)   # ignored by git, so not in a worktree
        r = sh("git -C %s apply %s" % (WT, os.path.join(d, "patch.diff")))
        if r.returncode != 0:
            print(sid, "patch does not apply:", r.stdout); continue
        res = {"repo_head": head, "tier": a.tier, "checks": {}}
        for p in props:
            ev = "/tmp/xvc-verif-seed-evid"
            os.makedirs(ev, exist_ok=True)
            env = dict(os.environ, VERIF_REPO=WT, VERIF_BUILD=BUILD, VERIF_EVID=ev, VERIF_REPLAYS=ev)
            t0 = time.time()
            r = sh("./check %s --tier %s" % (p, a.tier), cwd=ROOT, env=env)
            viol = [l for l in r.stdout.split("\n") if l.startswith("VIOLATION")]
            res["checks"][p] = {"exit": r.returncode, "violation_lines": viol, "wall_s": round(time.time() - t0, 1),
                                "tail": r.stdout[-1500:]}
            print(sid, p, "exit", r.returncode, viol[:2], "%.0fs" % (time.time() - t0), flush=True)
        res["caught"] = any(c["exit"] == 1 and c["violation_lines"] for c in res["checks"].values())
        json.dump(res, open(os.path.join(d, "result.json"), "w"), indent=1)
        sh("git -C %s checkout -- . && git -C %s clean -fdq" % (WT, WT))
        sh("cp -a %s/. %s/" % (keep, gen))
    sh("rm -rf %s" % keep)

main()
