#!/usr/bin/env python3
"""tools/seedtest.py <seeded-id>... [--tier quick] [--props C08,C02]
Runs the checks of the property a seeded change breaks against a scratch worktree of /repo with the change
applied.  Everything the checks write (regenerated Gen tables, .vo files, model binaries, evidence, replays)
goes into a private COPY of /verif ($SEED_VERIF, default /tmp/xvc-verif-seedcopy), so neither /repo nor /verif
is touched and concurrent real checks are not disturbed.  The copy is made from the COMMITTED state of /verif
(git archive HEAD, exported once per invocation to $SEED_VERIF-src; --worktree copies the working tree instead),
so work in progress in /verif is not tested by accident.  The outcome is recorded in seeded/<id>/result.json."""
import sys, os, json, subprocess, argparse, time
ROOT = os.path.dirname(os.path.dirname(os.path.abspath(__file__)))
WT = os.environ.get("SEED_WT", "/tmp/xvc-verif-mutwt")
BUILD = WT + "-build"
COPY = os.environ.get("SEED_VERIF", "/tmp/xvc-verif-seedcopy")

def sh(cmd, **kw):
    return subprocess.run(cmd, shell=True, text=True, stdout=subprocess.PIPE, stderr=subprocess.STDOUT, **kw)

def main():
    ap = argparse.ArgumentParser()
    ap.add_argument("ids", nargs="+")
    ap.add_argument("--tier", default="quick")
    ap.add_argument("--props")
    ap.add_argument("--worktree", action="store_true", help="copy the working tree of /verif instead of its HEAD")
    a = ap.parse_args()
    if not os.path.exists(WT):
        r = sh("git -C /repo worktree add --detach %s HEAD" % WT); print(r.stdout)
    SRC = ROOT
    if not a.worktree:
        SRC = COPY + "-src"
        sh("rm -rf %s && mkdir -p %s && git -C %s archive HEAD | tar -x -C %s" % (SRC, SRC, ROOT, SRC))
    for sid in a.ids:
        d = os.path.join(ROOT, "seeded", sid)
        meta = json.load(open(os.path.join(d, "meta.json")))
        props = a.props.split(",") if a.props else ([meta["property"]] + meta.get("also_check", []))
        head = sh("git -C /repo rev-parse HEAD").stdout.strip()
        sh("git -C %s checkout -q --detach %s && git -C %s checkout -- . && git -C %s clean -fdq" % (WT, head, WT, WT))
        sh("cp /repo/Cargo.lock %s/Cargo.lock" % WT)   # ignored by git, so not in a worktree
        r = sh("git -C %s apply %s" % (WT, os.path.join(d, "patch.diff")))
        if r.returncode != 0:
            print(sid, "patch does not apply:", r.stdout); continue
        # a fresh private copy of /verif (without the cargo target dirs); unchanged files keep their times (-a, or -c without -t
        # for an export, whose files all carry the commit time) so nothing rebuilds needlessly
        sh("mkdir -p %s && rsync %s --delete --exclude build/target --exclude build/harness --exclude replays --exclude .git %s/ %s/" % (COPY, "-a" if a.worktree else "-rlpc", SRC, COPY))
        res = {"repo_head": head, "tier": a.tier, "checks": {}}
        for p in props:
            env = dict(os.environ, VERIF_REPO=WT, VERIF_BUILD=BUILD)
            env.pop("VERIF_EVID", None); env.pop("VERIF_REPLAYS", None)
            t0 = time.time()
            r = sh("./check %s --tier %s" % (p, a.tier), cwd=COPY, env=env)
            viol = [l for l in r.stdout.split("\n") if l.startswith("VIOLATION")]
            res["checks"][p] = {"exit": r.returncode, "violation_lines": viol, "wall_s": round(time.time() - t0, 1),
                                "tail": r.stdout[-1500:]}
            print(sid, p, "exit", r.returncode, viol[:2], "%.0fs" % (time.time() - t0), flush=True)
        res["caught"] = any(c["exit"] == 1 and c["violation_lines"] for c in res["checks"].values())
        res["caught_with_input"] = any(c["exit"] == 1 and any("no-failing-input-found" not in v for v in c["violation_lines"]) for c in res["checks"].values())
        json.dump(res, open(os.path.join(d, "result.json"), "w"), indent=1)
        sh("git -C %s checkout -- . && git -C %s clean -fdq" % (WT, WT))

main()
