#!/usr/bin/env python3
"""Assembles MANIFEST.json from manifest.d/C*.json (one check entry per property) and
known_findings.json from findings.d/*.json (lists of finding entries).  Run by hand after a
fragment changes; both results are committed.  Never run by a check."""
import json, glob, os, subprocess
ROOT = os.path.dirname(os.path.dirname(os.path.abspath(__file__)))
checks = []
# manifest.d/enabled.txt: the properties the coordinator has accepted (one id per line); fragments of
# checks still being built are not registered
en_file = os.path.join(ROOT, "manifest.d", "enabled.txt")
enabled = set(open(en_file).read().split()) if os.path.exists(en_file) else None
for f in sorted(glob.glob(os.path.join(ROOT, "manifest.d", "C*.json"))):
    c = json.load(open(f))
    if enabled is None or c["property_id"] in enabled:
        checks.append(c)
claimed = {c["property_id"] for c in checks}
na_file = os.path.join(ROOT, "manifest.d", "not_applicable.json")
na_reasons = json.load(open(na_file)) if os.path.exists(na_file) else {}
props = [json.loads(l)["id"] for l in open(os.path.join(ROOT, "properties.jsonl"))]
hooks = json.load(open(os.path.join(ROOT, "manifest.d", "hooks.json")))
m = {"version": 1, "setup_cmd": "./setup.sh", "hooks": hooks,
     "engines": [{"name": "coq-proof+correspondence", "path": "/verif/check", "serves_properties": sorted(claimed),
                  "kind_free_text": "Coq 8.16 theorems about executable Gallina models (coq/theories), tied to /repo by regenerated tables (gen/) and by extraction to OCaml + differential runs against harness binaries linked to /repo's crates and the hook-instrumented xvc binary, plus an independent oracle per property"}],
     "checks": checks,
     "not_applicable": [{"property_id": p, "reason": na_reasons.get(p, "not built yet (work in progress); will be claimed when its check exists")}
                        for p in props if p not in claimed],
     "notes": "See DESIGN.md. All checks: ./check <id> --tier quick|thorough; --replay <file> re-executes a replay file."}
json.dump(m, open(os.path.join(ROOT, "MANIFEST.json"), "w"), indent=1)
fs = []
for f in sorted(glob.glob(os.path.join(ROOT, "findings.d", "*.json"))):
    fs += json.load(open(f))   # findings of checks not yet registered are listed too: they are facts about /repo
k = {"_comment": "Committed list of genuine defects of iesahin/xvc found by the checks. 'open' entries are reported as KNOWN-FINDING lines and suppress only failures whose shrunk input falls in their class; 'fixed' entries suppress nothing. Assembled from findings.d/ by tools/mkmanifest.py; never written at run time.",
     "findings": fs}
json.dump(k, open(os.path.join(ROOT, "known_findings.json"), "w"), indent=1)
print("MANIFEST.json: %d checks, %d not applicable; known_findings.json: %d entries" % (len(checks), len(m["not_applicable"]), len(fs)))
