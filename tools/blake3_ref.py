"""Reference BLAKE3 (hash mode, 32-byte output) written from the specification, independent of
the blake3 crate xvc uses.  Pure Python; meant for files of a few kilobytes."""
IV = [0x6A09E667, 0xBB67AE85, 0x3C6EF372, 0xA54FF53A, 0x510E527F, 0x9B05688C, 0x1F83D9AB, 0x5BE0CD19]
PERM = [2, 6, 3, 10, 7, 0, 4, 13, 1, 11, 12, 5, 9, 14, 15, 8]
CHUNK_START, CHUNK_END, PARENT, ROOT = 1, 2, 4, 8
M = 0xFFFFFFFF


def _rotr(x, n):
    return ((x >> n) | (x << (32 - n))) & M


def _g(s, a, b, c, d, mx, my):
    s[a] = (s[a] + s[b] + mx) & M; s[d] = _rotr(s[d] ^ s[a], 16)
    s[c] = (s[c] + s[d]) & M; s[b] = _rotr(s[b] ^ s[c], 12)
    s[a] = (s[a] + s[b] + my) & M; s[d] = _rotr(s[d] ^ s[a], 8)
    s[c] = (s[c] + s[d]) & M; s[b] = _rotr(s[b] ^ s[c], 7)


def _compress(cv, block_words, counter, block_len, flags):
    s = list(cv) + IV[:4] + [counter & M, (counter >> 32) & M, block_len, flags]
    m = list(block_words)
    for r in range(7):
        _g(s, 0, 4, 8, 12, m[0], m[1]); _g(s, 1, 5, 9, 13, m[2], m[3])
        _g(s, 2, 6, 10, 14, m[4], m[5]); _g(s, 3, 7, 11, 15, m[6], m[7])
        _g(s, 0, 5, 10, 15, m[8], m[9]); _g(s, 1, 6, 11, 12, m[10], m[11])
        _g(s, 2, 7, 8, 13, m[12], m[13]); _g(s, 3, 4, 9, 14, m[14], m[15])
        m = [m[PERM[i]] for i in range(16)]
    for i in range(8):
        s[i] ^= s[i + 8]; s[i + 8] ^= cv[i]
    return s


def _words(block):
    block = block + b"\0" * (64 - len(block))
    return [int.from_bytes(block[4 * i:4 * i + 4], "little") for i in range(16)]


def _chunk_output(chunk, counter):
    """returns (input_cv, block_words, counter, block_len, flags) of the chunk's last block"""
    cv = IV
    blocks = [chunk[i:i + 64] for i in range(0, len(chunk), 64)] or [b""]
    for i, b in enumerate(blocks):
        flags = (CHUNK_START if i == 0 else 0) | (CHUNK_END if i == len(blocks) - 1 else 0)
        if i == len(blocks) - 1:
            return (cv, _words(b), counter, len(b), flags)
        cv = _compress(cv, _words(b), counter, 64, flags)[:8]


def _subtree(chunks, first):
    """output tuple of the subtree over chunks (list of byte strings), chunk counters from `first`"""
    n = len(chunks)
    if n == 1:
        return _chunk_output(chunks[0], first)
    left = 1 << ((n - 1).bit_length() - 1)
    lo = _subtree(chunks[:left], first); ro = _subtree(chunks[left:], first + left)
    lcv = _compress(*lo)[:8]; rcv = _compress(*ro)[:8]
    return (IV, lcv + rcv, 0, 64, PARENT)


def blake3(data: bytes) -> bytes:
    chunks = [data[i:i + 1024] for i in range(0, len(data), 1024)] or [b""]
    cv, words, counter, blen, flags = _subtree(chunks, 0)
    out = _compress(cv, words, 0, blen, flags | ROOT)[:8]
    return b"".join(w.to_bytes(4, "little") for w in out)


if __name__ == "__main__":
    assert blake3(b"").hex() == "af1349b9f5f9a1a6a0404dea36dcc9499bcb25c9adc112b7cc9a93cae41f3262"
    assert blake3(b"hello").hex() == "ea8f163db38682925e4491c5e58d4bb3506ef8c14eb78a86e908c5624a67200f"
    print("ok")
