#!/usr/bin/env python3
"""Validates MANIFEST.json and every evidence/*.json against the schemas in /root/.vp (run with python3-vt,
which has jsonschema).  Exit 1 on any problem."""
import json, sys, os, glob
import jsonschema
ROOT = os.path.dirname(os.path.dirname(os.path.abspath(__file__)))
bad = 0
def val(path, schema):
    global bad
    try:
        jsonschema.validate(json.load(open(path)), json.load(open(schema)))
        print("ok  ", path)
    except Exception as e:
        bad += 1
        print("FAIL", path, str(e)[:400])
val(os.path.join(ROOT, "MANIFEST.json"), "/root/.vp/MANIFEST.schema.json")
m = json.load(open(os.path.join(ROOT, "MANIFEST.json")))
props = [json.loads(l)["id"] for l in open(os.path.join(ROOT, "properties.jsonl"))]
claimed = [c["property_id"] for c in m["checks"]]
na = [n["property_id"] for n in m.get("not_applicable", [])]
for p in props:
    if (p in claimed) == (p in na):
        bad += 1; print("FAIL property", p, "claimed and/or not_applicable inconsistent")
for c in m["checks"]:
    ev = c["evidence_file"]
    if os.path.exists(ev):
        val(ev, "/root/.vp/EVIDENCE.schema.json")
        e = json.load(open(ev))
        if e.get("level") == "proof" and e["coverage"].get("obligations") != e["coverage"].get("discharged"):
            bad += 1; print("FAIL", ev, "discharged != obligations")
    else:
        print("miss", ev)
sys.exit(1 if bad else 0)
