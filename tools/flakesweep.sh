#!/bin/bash
# runs every registered quick check several times with different seeds and reports every VIOLATION line
# usage: tools/flakesweep.sh [rounds]   (run from /verif or from a snapshot of it; builds what it needs)
cd "$(dirname "$0")/.."
rounds=${1:-3}
[ -x build/bin/ecsmodel ] || ./setup.sh > /dev/null 2>&1 || { echo "setup failed"; exit 2; }
for r in $(seq 1 "$rounds"); do
  for p in $(python3 -c "import json; print(' '.join(c['property_id'] for c in json.load(open('MANIFEST.json'))['checks']))"); do
    out=$(VERIF_SEED=$r ./check "$p" --tier quick 2>&1)
    rc=$?
    echo "round $r $p rc=$rc $(echo "$out" | grep -c '^VIOLATION') violation(s) $(echo "$out" | tail -1 | sed 's/.*obligations, //')"
    echo "$out" | grep -A1 '^VIOLATION' | cut -c1-500
  done
done
