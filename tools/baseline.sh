#!/bin/bash
# Runs the repository's baseline with the hook guard OFF and compares with /root/.vp/BASELINE.json.
# usage: tools/baseline.sh [repo-dir]   (default /repo)
repo=${1:-/repo}
# BASELINE_TARGET: cargo target dir to use (default: the repository's own); scratch worktrees share one to save disk
tgt=${BASELINE_TARGET:-$repo/target}
log=$(mktemp /tmp/xvc-verif-baseline.XXXXXX)
# the tests leave their scratch repositories (xvc-repo-*, ~40 MB each) behind: give them a private temp dir
tmpd=$(mktemp -d /tmp/xvc-verif-baseline-tmp.XXXXXX)
jx="$repo/target/nextest/pb/junit.xml"   # nextest keeps its store under the workspace's own target directory
rm -f "$jx"     # never read a stale report
(cd "$repo" && TMPDIR="$tmpd" CARGO_TARGET_DIR="$tgt" cargo nextest run --workspace --no-fail-fast --tool-config-file pb:/w/lib/nextest.toml --profile pb --test-threads 8 --offline --ignore-rust-version > "$log" 2>&1)
[ -f "$jx" ] || { echo "no test report: the build failed"; tail -30 "$log"; rm -f "$log"; rm -rf "$tmpd"; exit 2; }
python3 - "$jx" <<'PY'
import json, sys
import xml.etree.ElementTree as ET
d = json.load(open('/root/.vp/BASELINE.json'))
stable = set(d['stable_pass'])
passed = set()
for ts in ET.parse(sys.argv[1]).getroot().iter('testsuite'):
    for tc in ts.iter('testcase'):
        if tc.find('failure') is None and tc.find('error') is None and tc.find('skipped') is None:
            passed.add(ts.get('name') + "::" + tc.get('name'))
missing = sorted(stable - passed)
print("passed %d, stable baseline %d, stable tests not passing: %d" % (len(passed), len(stable), len(missing)))
for t in missing[:20]:
    print("  MISSING", t)
sys.exit(1 if missing else 0)
PY
rc=$?
rm -f "$log"; chmod -R u+w "$tmpd" 2>/dev/null; rm -rf "$tmpd"
exit $rc
