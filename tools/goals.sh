#!/bin/bash
# usage: goals.sh <file.v> <line>   -- print the proof state after <line> lines of the file
f=$1; n=$2
d=$(mktemp -d /tmp/goals.XXXX)
head -n "$n" "$f" > $d/G.v
echo "Show." >> $d/G.v
(cd /verif/coq && timeout 120 coqc -Q theories XV $d/G.v 2>&1 | grep -v "^WARNING" | head -${3:-80})
rm -rf $d
