#!/usr/bin/env python3
"""tools/seedconfirm.py <seeded-id>...   Confirms a seeded change independently, in the scratch worktree
$SEED_CONFIRM_WT (default /tmp/xvc-verif-confirmwt): demo passes without the patch, patch applies and the
tree builds, demo fails with it, and the stable baseline (189 tests of /root/.vp/BASELINE.json) still passes.
Writes the outcome into seeded/<id>/meta.json under "confirmed"."""
import sys, os, json, subprocess
ROOT = os.path.dirname(os.path.dirname(os.path.abspath(__file__)))
TAG = os.environ.get("SEED_CONFIRM_TAG", "")          # a second instance may run beside the first: every scratch name gets the tag
WT = os.environ.get("SEED_CONFIRM_WT", "/tmp/xvc-verif-confirmwt" + TAG)
def sh(cmd, **kw):
    return subprocess.run(cmd, shell=True, text=True, stdout=subprocess.PIPE, stderr=subprocess.STDOUT, **kw)
if not os.path.exists(WT):
    print(sh("git -C /repo worktree add --detach %s HEAD" % WT).stdout)
for sid in sys.argv[1:]:
    d0 = os.path.join(ROOT, "seeded", sid)
    # the demos build into a shared target dir that seed-writing agents also use: run a private copy
    d = "/tmp/xvc-verif-confirm-demo" + TAG
    sh("rm -rf %s && cp -a %s %s && grep -rlE '/tmp/seed-(c[0-9a-z]*-)?target' %s | xargs -r sed -i -E 's#/tmp/seed-(c[0-9a-z]*-)?target#/tmp/seed-target-confirm%s#g'" % (d, d0, d, d, TAG))
    # scratch directories the demos expect from the seed writer's session
    for m in set(__import__("re").findall(r"/tmp/seed-c[0-9a-z]*-out", sh("cat %s/demo.sh" % d).stdout)):
        for sub in ("scratch", "1", "2", "3"):
            os.makedirs(m + "/" + sub, exist_ok=True)
    head = sh("git -C /repo rev-parse HEAD").stdout.strip()
    sh("git -C %s checkout -- . ; git -C %s clean -fdq -e target; git -C %s checkout -q --detach %s" % (WT, WT, WT, head))
    sh("cp /repo/Cargo.lock %s/Cargo.lock" % WT)
    res = {"repo_head": head}
    r = sh("%s/demo.sh %s" % (d, WT)); res["demo_without_patch_exit"] = r.returncode
    a = sh("git -C %s apply %s/patch.diff" % (WT, d)); res["patch_applies"] = a.returncode == 0
    r = sh("%s/demo.sh %s" % (d, WT)); res["demo_with_patch_exit"] = r.returncode; res["demo_with_patch_tail"] = r.stdout[-600:]
    b = sh("BASELINE_TARGET=/tmp/seed-target-nextest%s %s/tools/baseline.sh %s" % (TAG, ROOT, WT)); res["baseline_with_patch"] = b.stdout.strip().split("\n")[-1] if b.returncode == 0 else "FAIL: " + b.stdout[-500:]
    res["ok"] = res["demo_without_patch_exit"] == 0 and res["patch_applies"] and res["demo_with_patch_exit"] != 0 and b.returncode == 0
    sh("git -C %s checkout -- . ; git -C %s clean -fdq -e target" % (WT, WT))
    m = json.load(open(os.path.join(d0, "meta.json"))); m["confirmed"] = res
    json.dump(m, open(os.path.join(d0, "meta.json"), "w"), indent=1)
    print(sid, "OK" if res["ok"] else "NOT CONFIRMED", {k: v for k, v in res.items() if k != "demo_with_patch_tail"}, flush=True)
