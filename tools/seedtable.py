#!/usr/bin/env python3
"""Writes seeded/README.md (one row per seeded change: what it breaks, what it needs, whether it was confirmed
independently, which check caught it and how) from seeded/*/meta.json and result.json, and replaces the table
between the markers <!-- SEEDS-BEGIN --> / <!-- SEEDS-END --> in DESIGN.md."""
import json, os, glob, re
ROOT = os.path.dirname(os.path.dirname(os.path.abspath(__file__)))
rows = []
for d in sorted(glob.glob(os.path.join(ROOT, "seeded", "C*-*"))):
    sid = os.path.basename(d)
    try:
        m = json.load(open(os.path.join(d, "meta.json")))
    except Exception:
        continue
    r = json.load(open(os.path.join(d, "result.json"))) if os.path.exists(os.path.join(d, "result.json")) else None
    conf = m.get("confirmed", {})
    caught = "not run"
    if r:
        if r.get("caught_with_input", None) is None:
            r["caught_with_input"] = any(c["exit"] == 1 and any("no-failing-input-found" not in v for v in c["violation_lines"]) for c in r["checks"].values())
        ck = ", ".join(k for k, c in r["checks"].items() if c["exit"] == 1)
        caught = ("%s, with a failing input" % ck) if r.get("caught_with_input") else (("%s, as a broken proof / correspondence (no failing input found)" % ck) if r.get("caught") else "MISSED")
    def cell(s):
        return re.sub(r"\s+", " ", str(s or "")).replace("|", "/")[:260]
    if m.get("invalid"):
        caught += " (INVALID seed: " + m["invalid"].split(";")[0][:80] + ")"
    if m.get("also_check"):
        caught += " [also judged by " + ", ".join(m["also_check"]) + "]"
    if m.get("obsolete_since"):
        caught += " (obsolete since " + m["obsolete_since"].split(":")[0] + ")"
    rows.append("| %s | %s | %s | %s | %s |" % (sid, cell(m.get("breaks")), cell(m.get("needs")), "yes" if conf.get("ok") else ("no: " + cell(conf.get("baseline_with_patch", "not run"))[:60] if conf else "not run"), caught))
table = "| Seed | Breaks | Needs | Confirmed (demo + baseline) | Caught by |\n|---|---|---|---|---|\n" + "\n".join(rows) + "\n"
open(os.path.join(ROOT, "seeded", "README.md"), "w").write("# Seeded changes\n\nWritten by sub-agents that saw only the property text and a scratch worktree; confirmed by tools/seedconfirm.py, run through the checks by tools/seedtest.py.\n\n" + table)
p = os.path.join(ROOT, "DESIGN.md")
s = open(p).read()
if "<!-- SEEDS-BEGIN -->" in s:
    s = re.sub(r"<!-- SEEDS-BEGIN -->.*?<!-- SEEDS-END -->", "<!-- SEEDS-BEGIN -->\n" + table + "<!-- SEEDS-END -->", s, flags=re.S)
    open(p, "w").write(s)
n = len(rows); missed = sum("MISSED" in r for r in rows)
print("%d seeds, %d missed, %d not run" % (n, missed, sum("not run |" in r or r.endswith("not run |") for r in rows)))
