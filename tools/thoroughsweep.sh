#!/bin/bash
# runs every registered thorough check once (seed given, default 1) and reports every VIOLATION line
# usage: tools/thoroughsweep.sh [seed] [ids...]   (run from /verif or from a snapshot of it; builds what it needs)
cd "$(dirname "$0")/.."
seed=${1:-1}; shift
[ -x build/bin/ecsmodel ] || ./setup.sh > /dev/null 2>&1 || { echo "setup failed"; exit 2; }
ids=${*:-$(python3 -c "import json; print(' '.join(c['property_id'] for c in json.load(open('MANIFEST.json'))['checks']))")}
for p in $ids; do
  t0=$(date +%s)
  out=$(VERIF_SEED=$seed ./check "$p" --tier thorough 2>&1)
  rc=$?
  echo "thorough seed $seed $p rc=$rc $(echo "$out" | grep -c '^VIOLATION') violation(s) $(( $(date +%s) - t0 ))s $(echo "$out" | tail -1 | sed 's/.*obligations, //')"
  echo "$out" | grep -A1 '^VIOLATION' | cut -c1-500
done
