//! globdrv: runs the real fast_glob::glob_match, xvc_walker::Pattern::new, content_to_patterns and
//! IgnoreRules::check on the cases the extracted model runs (same line formats as
//! coq/extract/glob_driver.ml) and prints the same canonical answer lines.
//!
//! Fields are separated by one space; every string field is the lowercase hex of its bytes, `-`
//! for the empty string.
//!   m <globhex> <pathhex>            -> 1 | 0 | NONUTF8 | PANIC
//!   p <g|f> <dirhex> <linehex> [f36] -> glob=<hex> white=<0|1> rel=<hex|ANY> dironly=<0|1> | PANIC
//!   c <dirhex> <contenthex> [f36]    -> <w|i>:<globhex>,... | - | PANIC
//!   k <flags> <rules> <pathhex>      -> NoMatch | Ignore | Whitelist | PANIC
//!        rules = <dirhex>:<linehex>,... | -          IgnoreRules::empty + add_patterns, then check
//!   K <flags> <globalshex> <rules> <pathhex>         IgnoreRules::from_global_patterns + add_patterns
//! The flag fields (which repairs the model should assume) are for the model only and ignored here:
//! the real code behaves as it behaves.
use std::io::{self, BufRead, Write};
use std::panic::{catch_unwind, AssertUnwindSafe};
use std::path::{Path, PathBuf};

use fast_glob::glob_match;
use xvc_walker::{
    content_to_patterns, IgnoreRules, PathKind, Pattern, PatternEffect, PatternRelativity, Source,
};

fn unhex(f: &str) -> Option<String> {
    if f == "-" {
        return Some(String::new());
    }
    assert!(f.len() % 2 == 0, "odd hex field {}", f);
    let b: Vec<u8> = (0..f.len() / 2)
        .map(|i| u8::from_str_radix(&f[2 * i..2 * i + 2], 16).expect("hex digit"))
        .collect();
    String::from_utf8(b).ok()
}

fn hex(s: &str) -> String {
    if s.is_empty() {
        "-".to_string()
    } else {
        s.bytes().map(|b| format!("{:02x}", b)).collect()
    }
}

fn file_source(dir: &str) -> Source {
    Source::File {
        path: PathBuf::from(dir).join(".xvcignore"),
        line: 1,
    }
}

fn show_pattern(p: &Pattern) -> String {
    format!(
        "glob={} white={} rel={} dironly={}",
        hex(&p.glob),
        if p.effect == PatternEffect::Whitelist { 1 } else { 0 },
        match &p.relativity {
            PatternRelativity::Anywhere => "ANY".to_string(),
            PatternRelativity::RelativeTo { directory } => hex(directory),
        },
        if p.path_kind == PathKind::Directory { 1 } else { 0 },
    )
}

/// None = some field is not UTF-8
fn answer(line: &str) -> Option<String> {
    let f: Vec<&str> = line.split(' ').collect();
    Some(match (f[0], f.len()) {
        ("m", 3) => {
            let (g, p) = (unhex(f[1])?, unhex(f[2])?);
            if glob_match(&g, &p) { "1" } else { "0" }.to_string()
        }
        ("p", 4) | ("p", 5) => {
            let (dir, l) = (unhex(f[2])?, unhex(f[3])?);
            let src = match f[1] {
                "g" => Source::Global,
                "f" => file_source(&dir),
                _ => panic!("source {}", f[1]),
            };
            show_pattern(&Pattern::new(src, &l))
        }
        ("c", 3) | ("c", 4) => {
            let (dir, content) = (unhex(f[1])?, unhex(f[2])?);
            let root = Path::new("/r");
            let src = root.join(&dir).join(".xvcignore");
            let ps = content_to_patterns(root, Some(&src), &content);
            if ps.is_empty() {
                "-".to_string()
            } else {
                ps.iter()
                    .map(|p| {
                        format!(
                            "{}:{}",
                            if p.effect == PatternEffect::Whitelist { "w" } else { "i" },
                            hex(&p.glob)
                        )
                    })
                    .collect::<Vec<_>>()
                    .join(",")
            }
        }
        ("k", 4) | ("K", 5) => {
            let (globals, rules, path) = if f[0] == "K" {
                (Some(unhex(f[2])?), f[3], f[4])
            } else {
                (None, f[2], f[3])
            };
            let mut items = Vec::new();
            if rules != "-" {
                for it in rules.split(',') {
                    let (d, l) = it.split_once(':').expect("rule item");
                    items.push((unhex(d)?, unhex(l)?));
                }
            }
            let path = unhex(path)?;
            let r = match &globals {
                Some(g) => IgnoreRules::from_global_patterns(Path::new("/r"), None, g),
                None => IgnoreRules::empty(Path::new("/r"), None),
            };
            let ps: Vec<Pattern> = items
                .iter()
                .map(|(d, l)| Pattern::new(file_source(d), l))
                .collect();
            r.add_patterns(ps).expect("add_patterns");
            format!("{:?}", r.check(Path::new(&path)))
        }
        _ => panic!("bad line {}", line),
    })
}

fn main() {
    // Pattern::new / IgnoreRules::check panics are an answer (PANIC), not noise on stderr
    std::panic::set_hook(Box::new(|_| {}));
    let stdin = io::stdin();
    let stdout = io::stdout();
    let mut w = io::BufWriter::new(stdout.lock());
    for line in stdin.lock().lines() {
        let line = line.unwrap();
        let line = line.trim();
        if line.is_empty() {
            continue;
        }
        let out = match catch_unwind(AssertUnwindSafe(|| answer(line))) {
            Ok(Some(s)) => s,
            Ok(None) => "NONUTF8".to_string(),
            Err(_) => "PANIC".to_string(),
        };
        writeln!(w, "{}", out).unwrap();
    }
}
