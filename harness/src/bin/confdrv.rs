//! confdrv: runs the real `XvcConfig::new` (xvc-config) on the cases the extracted model M-CONF runs
//! (same line format as coq/extract/conf_driver.ml) and prints the same canonical observation lines.
//!
//! usage: confdrv <scratch-dir>      (XDG_CONFIG_HOME and HOME must point below <scratch-dir>)
//!
//! input lines
//!   build F=<6x0/1> D=<file> S=<file> U=<file> P=<file> L=<file> E=@<hexname:hexval,..> C=@<hex,..> Q=@<hexkey,..>
//!         F: include_system include_user project_path=Some local_path=Some include_env cli=Some
//!         file: '-' missing | '!' not TOML | '/' a directory | '@' hexkey:val,...   val = b0|b1|i<dec>|f<hexlexeme>|s<hex>
//!   paths                       -> paths <hex system_config_file> <hex user_config_file>
//!   defaults                    -> ok <entries of default_project_config(true), every other source off>
//!   alg <hexname>               -> alg <prefix | ->      (HashAlgorithm::from_str + Display)
//! output of build
//!   ok <hexkey:val:source,...sorted> ; <hexkey:SBIF,...> ; alg=<prefix|err>      val: b0|b1|i<dec>|F<bits>|s<hex>
//!   panic
use std::collections::BTreeMap;
use std::fs;
use std::io::{self, BufRead, Write};
use std::panic::{catch_unwind, AssertUnwindSafe};
use std::path::{Path, PathBuf};
use std::str::FromStr;

use xvc_config::{FromConfigKey, XvcConfig, XvcConfigParams};
use xvc_core::HashAlgorithm;
use xvc_walker::AbsolutePath;

fn unhex(h: &str) -> String {
    let b: Vec<u8> = (0..h.len() / 2)
        .map(|i| u8::from_str_radix(&h[2 * i..2 * i + 2], 16).unwrap())
        .collect();
    String::from_utf8(b).expect("case strings are ASCII")
}
fn hex(s: &str) -> String {
    s.bytes().map(|b| format!("{:02x}", b)).collect()
}

fn toml_string(s: &str) -> String {
    let mut o = String::from("\"");
    for c in s.chars() {
        match c {
            '"' => o.push_str("\\\""),
            '\\' => o.push_str("\\\\"),
            c if (c as u32) < 0x20 || c as u32 == 0x7f => o.push_str(&format!("\\u{:04X}", c as u32)),
            c => o.push(c),
        }
    }
    o.push('"');
    o
}

fn toml_key(k: &str) -> String {
    k.split('.')
        .map(|seg| {
            if !seg.is_empty() && seg.chars().all(|c| c.is_ascii_alphanumeric() || c == '_' || c == '-') {
                seg.to_string()
            } else {
                toml_string(seg)
            }
        })
        .collect::<Vec<_>>()
        .join(".")
}

fn toml_val(v: &str) -> String {
    let (t, rest) = v.split_at(1);
    match t {
        "b" => (if rest == "1" { "true" } else { "false" }).to_string(),
        "i" => rest.to_string(),
        "f" => unhex(rest),
        "s" => toml_string(&unhex(rest)),
        _ => panic!("bad value {}", v),
    }
}

/// renders `@hexkey:val,...` as a TOML document with dotted keys
fn toml_doc(spec: &str) -> String {
    let mut o = String::new();
    for kv in spec[1..].split(',').filter(|x| !x.is_empty()) {
        let (k, v) = kv.split_once(':').unwrap();
        o.push_str(&format!("{} = {}\n", toml_key(&unhex(k)), toml_val(v)));
    }
    o
}

fn remove_any(p: &Path) {
    if p.is_dir() {
        let _ = fs::remove_dir_all(p);
    } else if p.exists() {
        let _ = fs::remove_file(p);
    }
}

fn place(p: &Path, spec: &str) {
    remove_any(p);
    match &spec[..1] {
        "-" => {}
        "!" => fs::write(p, "this is = = not [toml\n").unwrap(),
        "/" => fs::create_dir_all(p).unwrap(),
        "@" => fs::write(p, toml_doc(spec)).unwrap(),
        _ => panic!("bad file spec {}", spec),
    }
}

fn show_conf(conf: &XvcConfig, queries: &[String]) -> String {
    let mut m = BTreeMap::new();
    for (k, v) in &conf.the_config {
        let val = if let Some(b) = v.value.as_bool() {
            format!("b{}", if b { 1 } else { 0 })
        } else if let Some(i) = v.value.as_integer() {
            format!("i{}", i)
        } else if let Some(f) = v.value.as_float() {
            if f.is_nan() { "Fnan".to_string() } else { format!("F{:016x}", f.to_bits()) }
        } else if let Some(s) = v.value.as_str() {
            format!("s{}", hex(s))
        } else {
            format!("?{}", v.value.type_str())
        };
        m.insert(k.as_bytes().to_vec(), format!("{}:{}:{}", hex(k), val, v.source));
    }
    let entries = m.values().cloned().collect::<Vec<_>>().join(",");
    fn code<T>(r: xvc_config::error::Result<T>) -> char {
        match r {
            Ok(_) => 'O',
            Err(xvc_config::error::Error::MismatchedValueType { .. }) => 'M',
            Err(xvc_config::error::Error::ConfigKeyNotFound { .. }) => 'N',
            Err(_) => '?',
        }
    }
    let getters = queries
        .iter()
        .map(|k| {
            format!(
                "{}:{}{}{}{}",
                hex(k),
                code(conf.get_str(k)),
                code(conf.get_bool(k)),
                code(conf.get_int(k)),
                code(conf.get_float(k))
            )
        })
        .collect::<Vec<_>>()
        .join(",");
    let alg = match HashAlgorithm::try_from_conf(conf) {
        Ok(a) => format!("{}", a),
        Err(_) => "err".to_string(),
    };
    format!("ok {} ; {} ; alg={}", entries, getters, alg)
}

struct Env {
    root: PathBuf,
    sys: PathBuf,
    user: PathBuf,
    proj: PathBuf,
    local: PathBuf,
}

fn field<'a>(fields: &BTreeMap<&'a str, &'a str>, k: &str) -> &'a str {
    fields.get(k).copied().unwrap_or_else(|| panic!("missing field {}", k))
}

fn build(env: &Env, rest: &str) -> String {
    let fields: BTreeMap<&str, &str> = rest.split(' ').filter(|x| !x.is_empty()).map(|f| f.split_once('=').unwrap()).collect();
    let flags: Vec<bool> = field(&fields, "F").chars().map(|c| c == '1').collect();
    let (s, u) = (field(&fields, "S"), field(&fields, "U"));
    if env.sys == env.user && s != u {
        return "error system and user configuration are one path on this platform but the case gives two contents".to_string();
    }
    place(&env.sys, s);
    if env.sys != env.user {
        place(&env.user, u);
    }
    place(&env.proj, field(&fields, "P"));
    place(&env.local, field(&fields, "L"));
    // environment: drop every XVC* variable of the previous case, then set this case's
    let old: Vec<String> = std::env::vars_os()
        .filter_map(|(k, _)| k.into_string().ok())
        .filter(|k| k.starts_with("XVC"))
        .collect();
    for k in old {
        std::env::remove_var(k);
    }
    for kv in field(&fields, "E")[1..].split(',').filter(|x| !x.is_empty()) {
        let (k, v) = kv.split_once(':').unwrap();
        std::env::set_var(unhex(k), unhex(v));
    }
    let cli: Vec<String> = field(&fields, "C")[1..].split(',').filter(|x| !x.is_empty()).map(unhex).collect();
    let queries: Vec<String> = field(&fields, "Q")[1..].split(',').filter(|x| !x.is_empty()).map(unhex).collect();
    let d = field(&fields, "D");
    let default_configuration = if d.starts_with('@') { toml_doc(d) } else { "this is = = not [toml\n".to_string() };
    // builder methods, not a struct literal: the harness must compile whether or not the struct has
    // gained fields (the P18 fix adds two)
    let params = XvcConfigParams::new(default_configuration, AbsolutePath::from(env.root.as_path()))
        .include_system_config(flags[0])
        .include_user_config(flags[1])
        .project_config_path(if flags[2] { Some(AbsolutePath::from(env.proj.as_path())) } else { None })
        .local_config_path(if flags[3] { Some(AbsolutePath::from(env.local.as_path())) } else { None })
        .include_environment_config(flags[4])
        .command_line_config(if flags[5] { Some(cli) } else { None });
    match catch_unwind(AssertUnwindSafe(|| XvcConfig::new(params))) {
        Ok(Ok(conf)) => show_conf(&conf, &queries),
        Ok(Err(e)) => format!("error {}", e),
        Err(_) => "panic".to_string(),
    }
}

fn main() {
    let root = PathBuf::from(std::env::args().nth(1).expect("usage: confdrv <scratch-dir>"));
    let root = root.canonicalize().expect("scratch dir");
    std::panic::set_hook(Box::new(|_| {}));
    let sys = XvcConfig::system_config_file().expect("system config path");
    let user = XvcConfig::user_config_file().expect("user config path");
    // never touch a real configuration: both paths must lie below the scratch directory
    for p in [&sys, &user] {
        if !p.starts_with(&root) {
            eprintln!("confdrv: {:?} is not below the scratch directory {:?}", p, root);
            std::process::exit(2);
        }
        fs::create_dir_all(p.parent().unwrap()).unwrap();
    }
    let projd = root.join("proj");
    fs::create_dir_all(&projd).unwrap();
    let env = Env { root: root.clone(), sys, user, proj: projd.join("config.toml"), local: projd.join("config.local.toml") };
    let stdin = io::stdin();
    let out = io::stdout();
    let mut out = out.lock();
    for line in stdin.lock().lines() {
        let line = line.unwrap();
        let line = line.trim();
        if line.is_empty() {
            continue;
        }
        let (kind, rest) = line.split_once(' ').unwrap_or((line, ""));
        let res = match kind {
            "build" => build(&env, rest),
            "paths" => format!("paths {} {}", hex(&env.sys.to_string_lossy()), hex(&env.user.to_string_lossy())),
            "defaults" => {
                let old: Vec<String> = std::env::vars_os().filter_map(|(k, _)| k.into_string().ok()).filter(|k| k.starts_with("XVC")).collect();
                for k in old {
                    std::env::remove_var(k);
                }
                let params = XvcConfigParams::new(xvc_core::default_project_config(true), AbsolutePath::from(env.root.as_path()))
                    .include_system_config(false)
                    .include_user_config(false)
                    .project_config_path(None)
                    .local_config_path(None)
                    .include_environment_config(false)
                    .command_line_config(None);
                match catch_unwind(AssertUnwindSafe(|| XvcConfig::new(params))) {
                    Ok(Ok(conf)) => show_conf(&conf, &[]),
                    _ => "panic".to_string(),
                }
            }
            "alg" => match HashAlgorithm::from_str(&unhex(rest.trim())) {
                Ok(a) => format!("alg {}", a),
                Err(_) => "alg -".to_string(),
            },
            _ => "error unknown line kind".to_string(),
        };
        writeln!(out, "{}", res).unwrap();
        out.flush().unwrap();
    }
}
