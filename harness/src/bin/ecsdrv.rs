//! ecsdrv: runs the real xvc-ecs stores on the histories the model runs (same line formats as
//! coq/extract/ecs_driver.ml) and prints the same canonical observation lines.
use std::collections::BTreeSet;
use std::fs;
use std::io::{self, BufRead, Write};
use std::panic::{catch_unwind, AssertUnwindSafe};
use std::path::{Path, PathBuf};

use xvc_ecs::ecs::event::{Event, EventLog};
use xvc_ecs::{R1NStore, XvcEntity, XvcStore};

fn ent(s: &str) -> XvcEntity {
    let mut it = s.split('.');
    let c: u64 = it.next().unwrap().parse().unwrap();
    let r: u64 = it.next().unwrap().parse().unwrap();
    XvcEntity::from((c, r))
}
fn show_ent(e: &XvcEntity) -> String {
    let (c, r): (u64, u64) = (*e).into();
    format!("{}.{}", c, r)
}
fn show_list<T>(l: impl Iterator<Item = T>, f: impl Fn(T) -> String) -> String {
    format!("[{}]", l.map(f).collect::<Vec<_>>().join(","))
}

fn show_store(nv: usize, s: &XvcStore<String>) -> String {
    let m = show_list(s.iter(), |(e, v)| format!("{}={}", show_ent(e), v));
    let ef = (0..nv)
        .map(|v| {
            let v = v.to_string();
            let efs = match s.entities_for(&v) {
                Some(l) => show_list(l.iter(), show_ent),
                None => "-".to_string(),
            };
            let ebv = match catch_unwind(AssertUnwindSafe(|| s.entity_by_value(&v))) {
                Ok(Some(e)) => show_ent(&e),
                Ok(None) => "-".to_string(),
                Err(_) => "PANIC".to_string(),
            };
            format!("{}:{}:{}", v, efs, ebv)
        })
        .collect::<Vec<_>>()
        .join(";");
    let im = match catch_unwind(AssertUnwindSafe(|| s.index_map())) {
        Ok(Ok(m)) => {
            let mut l: Vec<(u64, XvcEntity)> =
                m.iter().map(|(v, e)| (v.parse::<u64>().unwrap(), *e)).collect();
            l.sort();
            show_list(l.iter(), |(v, e)| format!("{}>{}", v, show_ent(e)))
        }
        _ => "PANIC".to_string(),
    };
    format!("map={} ef={} im={}", m, ef, im)
}

fn listing(dir: &Path) -> BTreeSet<PathBuf> {
    if dir.exists() {
        fs::read_dir(dir).unwrap().map(|e| e.unwrap().path()).collect()
    } else {
        BTreeSet::new()
    }
}

/// to_dir, then rename the file it created to the name the history asked for
fn save_as(s: &XvcStore<String>, dir: &Path, ts: u64) {
    let before = listing(dir);
    s.to_dir(dir).unwrap();
    let after = listing(dir);
    let new: Vec<_> = after.difference(&before).collect();
    assert!(new.len() <= 1);
    if let Some(p) = new.first() {
        fs::rename(p, dir.join(format!("{:016}.json", ts))).unwrap();
    }
}

fn show_dir(dir: &Path) -> String {
    let files = listing(dir);
    show_list(files.iter(), |p| {
        let name: u64 = p.file_stem().unwrap().to_str().unwrap().parse().unwrap();
        let log = EventLog::<String>::from_file(p).unwrap();
        format!(
            "{}:{}",
            name,
            show_list(log.iter(), |ev| match ev {
                Event::Add { entity, value } => format!("A{}={}", show_ent(entity), value),
                Event::Remove { entity } => format!("R{}", show_ent(entity)),
            })
        )
    })
}

fn opt(o: Option<String>) -> String {
    o.unwrap_or_else(|| "-".to_string())
}

/// applies ops (space or comma separated tokens) to a store living in `dir`
fn apply_ops(nv: usize, store: &mut XvcStore<String>, dir: &Path, ops: &[&str], out: Option<&mut String>) {
    let mut sink = String::new();
    let out = out.unwrap_or(&mut sink);
    for o in ops {
        let f: Vec<&str> = o.split(':').collect();
        let ret = match f[0] {
            "i" => opt(store.insert(ent(f[1]), f[2].to_string())),
            "u" => opt(store.update(ent(f[1]), f[2].to_string())),
            "r" => opt(store.remove(ent(f[1]))),
            "s" => {
                save_as(store, dir, f[1].parse().unwrap());
                ".".to_string()
            }
            "l" => {
                *store = XvcStore::<String>::from_dir(dir).unwrap();
                ".".to_string()
            }
            _ => panic!("op {}", o),
        };
        out.push_str(&format!("ret={} {} | ", ret, show_store(nv, store)));
    }
}

fn copy_dir(from: &Path, to: &Path) {
    fs::create_dir_all(to).unwrap();
    for p in listing(from) {
        fs::copy(&p, to.join(p.file_name().unwrap())).unwrap();
    }
}

/// copies in REVERSE name order and stamps the files so that the modification times run against the
/// name order (the newest name is the oldest file): event files that arrive through Git (checkout,
/// merge) carry arbitrary modification times
fn copy_dir_against_names(from: &Path, to: &Path, t0: u64) {
    fs::create_dir_all(to).unwrap();
    let mut l: Vec<PathBuf> = listing(from).into_iter().collect();
    l.reverse();
    for (i, p) in l.iter().enumerate() {
        let dst = to.join(p.file_name().unwrap());
        fs::copy(p, &dst).unwrap();
        let f = fs::OpenOptions::new().write(true).open(&dst).unwrap();
        f.set_modified(std::time::UNIX_EPOCH + std::time::Duration::from_secs(t0 + 10 * i as u64)).unwrap();
    }
}

fn main() {
    let base = std::env::temp_dir().join(format!("xvc-verif-ecsdrv-{}", std::process::id()));
    let args: Vec<String> = std::env::args().collect();
    if args.len() > 1 && args[1] == "gensession" {
        // gensession <ecdir> <k> <ts> <save01>: one generator session in this process
        let dir = PathBuf::from(&args[2]);
        let k: usize = args[3].parse().unwrap();
        let ts: u64 = args[4].parse().unwrap();
        let save = args[5] == "1";
        match xvc_ecs::load_generator(&dir) {
            Err(_) => println!("NOGEN"),
            Ok(g) => {
                let ents: Vec<XvcEntity> = (0..k).map(|_| g.next_element()).collect();
                if save {
                    let before = listing(&dir);
                    g.save(&dir).unwrap();
                    let after = listing(&dir);
                    let new: Vec<_> = after.difference(&before).collect();
                    if let Some(p) = new.first() {
                        fs::rename(p, dir.join(format!("{:016}", ts))).unwrap();
                    }
                }
                println!("{}", show_list(ents.iter(), show_ent));
                // keep Drop from saving again under another name
                std::mem::forget(g);
            }
        }
        return;
    }
    if args.len() > 1 && args[1] == "genpar" {
        // genpar <ecdir> <threads> <per_thread>: the threads of one process share the generator (as the
        // rayon workers of the file commands and the step threads of a pipeline run do)
        let dir = PathBuf::from(&args[2]);
        let nt: usize = args[3].parse().unwrap();
        let per: usize = args[4].parse().unwrap();
        match xvc_ecs::load_generator(&dir) {
            Err(_) => println!("NOGEN"),
            Ok(g) => {
                let all: Vec<Vec<XvcEntity>> = std::thread::scope(|sc| {
                    let hs: Vec<_> = (0..nt)
                        .map(|_| sc.spawn(|| (0..per).map(|_| g.next_element()).collect::<Vec<_>>()))
                        .collect();
                    hs.into_iter().map(|h| h.join().unwrap()).collect()
                });
                let mut firsts: Vec<u64> = all.iter().flatten().map(|e| { let (a, _): (u64, u64) = (*e).into(); a }).collect();
                let total = firsts.len();
                firsts.sort_unstable();
                let min = firsts.first().copied().unwrap_or(0);
                let max = firsts.last().copied().unwrap_or(0);
                firsts.dedup();
                g.save(&dir).unwrap();
                let newest = listing(&dir).into_iter().next_back().unwrap();
                let saved = fs::read_to_string(newest).unwrap();
                println!("total={} distinct={} min={} max={} saved={}", total, firsts.len(), min, max, saved.trim());
                std::mem::forget(g);
            }
        }
        return;
    }
    let stdin = io::stdin();
    let stdout = io::stdout();
    let mut w = io::BufWriter::new(stdout.lock());
    let mut n = 0usize;
    for line in stdin.lock().lines() {
        let line = line.unwrap();
        let line = line.trim();
        if line.is_empty() {
            continue;
        }
        n += 1;
        let dir = base.join(format!("h{}", n));
        fs::create_dir_all(&dir).unwrap();
        let (kind, rest) = line.split_once(' ').unwrap();
        let out = catch_unwind(AssertUnwindSafe(|| match kind {
            "plain" => {
                let toks: Vec<&str> = rest.split(' ').filter(|s| !s.is_empty()).collect();
                let nv: usize = toks[0].parse().unwrap();
                let mut store = XvcStore::<String>::new();
                let mut out = String::new();
                let d = dir.join("store");
                apply_ops(nv, &mut store, &d, &toks[1..], Some(&mut out));
                out.push_str(&format!("dir={}", show_dir(&d)));
                out
            }
            "merge" => {
                let toks: Vec<&str> = rest.split(' ').filter(|s| !s.is_empty()).collect();
                let nv: usize = toks[0].parse().unwrap();
                let parts: Vec<&str> = toks[1].split('|').collect();
                let ops = |s: &str| -> Vec<String> {
                    s.split(',').filter(|x| !x.is_empty()).map(|x| x.to_string()).collect()
                };
                let run_in = |d: &Path, o: Vec<String>| {
                    let mut st = XvcStore::<String>::from_dir(d).unwrap();
                    let o: Vec<&str> = o.iter().map(|s| s.as_str()).collect();
                    apply_ops(nv, &mut st, d, &o, None);
                };
                let da = dir.join("a");
                fs::create_dir_all(&da).unwrap();
                run_in(&da, ops(parts[0]));
                let db = dir.join("b");
                let dc = dir.join("c");
                copy_dir(&da, &db);
                copy_dir(&da, &dc);
                run_in(&db, ops(parts[1]));
                run_in(&dc, ops(parts[2]));
                let dm = dir.join("m");
                copy_dir(&db, &dm);
                copy_dir(&dc, &dm);
                // the same union, arrived in another order: c before b, newest names first and oldest
                let dm2 = dir.join("m2");
                copy_dir_against_names(&dc, &dm2, 1_000_000);
                copy_dir_against_names(&db, &dm2, 2_000_000);
                let load = |d: &Path| show_store(nv, &XvcStore::<String>::from_dir(d).unwrap());
                format!(
                    "A={} | AB={} | AC={} | M={} | M'={} | dir={}",
                    load(&da), load(&db), load(&dc), load(&dm), load(&dm2), show_dir(&dm)
                )
            }
            "r1n" => {
                let mut r = R1NStore::<String, String> {
                    parents: XvcStore::new(),
                    children: XvcStore::new(),
                    child_parents: XvcStore::new(),
                };
                let mut pes = BTreeSet::new();
                let mut ces = BTreeSet::new();
                for o in rest.split(' ').filter(|s| !s.is_empty()) {
                    let f: Vec<&str> = o.split(':').collect();
                    match f[0] {
                        "i" => {
                            pes.insert(f[1].to_string());
                            ces.insert(f[3].to_string());
                            r.insert(ent(f[1]), f[2].to_string(), ent(f[3]), f[4].to_string());
                        }
                        "x" => {
                            r.remove_child(ent(f[1])).unwrap();
                        }
                        _ => panic!("r1n op"),
                    }
                }
                let co = pes
                    .iter()
                    .map(|pe| {
                        let h = r.children_of(&ent(pe)).unwrap();
                        let mut l: Vec<(XvcEntity, String)> = h.iter().map(|(e, u)| (*e, u.clone())).collect();
                        l.sort();
                        format!("{}:{}", pe, show_list(l.iter(), |(e, u)| format!("{}={}", show_ent(e), u)))
                    })
                    .collect::<Vec<_>>()
                    .join(";");
                let po = ces
                    .iter()
                    .map(|ce| {
                        let p = match r.parent_of(&ent(ce)) {
                            Ok((pe, t)) => format!("{}={}", show_ent(&XvcEntity::from(pe.clone())), t),
                            Err(_) => "-".to_string(),
                        };
                        format!("{}:{}", ce, p)
                    })
                    .collect::<Vec<_>>()
                    .join(";");
                format!("children_of={} parent_of={}", co, po)
            }
            _ => panic!("kind {}", kind),
        }))
        .unwrap_or_else(|_| "PANIC".to_string());
        writeln!(w, "{}", out).unwrap();
        let _ = fs::remove_dir_all(&dir);
    }
    let _ = fs::remove_dir_all(&base);
}
