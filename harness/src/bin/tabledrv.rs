//! tabledrv: EXECUTES the real `xvc_core::update_with_actual`, `xvc_core::apply_diff` and
//! `Diff::changed` over their finite case space and prints one line per case; gen/difftables.py
//! turns the lines into coq/theories/Gen/DiffTables.v.
//!
//! Case space: diff kind (Identical, RecordMissing, ActualMissing, Different, Skipped) x add_new x
//! remove_missing x (the entity is / is not in the store before the call).  The store holds
//! `String`s: "rec" is the recorded value, "act" the actual one; the observation is what the
//! store holds for the entity afterwards (`rec`, `act`, `none`), and for every case also what it
//! holds for an entity the diff store does not mention (`other=rec` expected).
//!
//! Output lines
//!   uwa <kind> <add_new> <remove_missing> <present01> -> <rec|act|none|other:..|ERR|PANIC> other=<..>
//!   apd <kind> <add_new> <remove_missing> <present01> -> ... other=<..> orig=<..>   (orig: the input store is not modified)
//!   chg <kind> -> <true|false>
use std::panic::{catch_unwind, AssertUnwindSafe};

use xvc_core::{apply_diff, update_with_actual, Diff};
use xvc_ecs::{HStore, XvcEntity, XvcStore};

const KINDS: [&str; 5] = ["Identical", "RecordMissing", "ActualMissing", "Different", "Skipped"];

fn mk(kind: &str) -> Diff<String> {
    match kind {
        "Identical" => Diff::Identical,
        "RecordMissing" => Diff::RecordMissing { actual: "act".to_string() },
        "ActualMissing" => Diff::ActualMissing { record: "rec".to_string() },
        "Different" => Diff::Different { record: "rec".to_string(), actual: "act".to_string() },
        "Skipped" => Diff::Skipped,
        _ => unreachable!(),
    }
}

fn show(s: &XvcStore<String>, e: &XvcEntity) -> String {
    match s.get(e) {
        None => "none".to_string(),
        Some(v) if v == "rec" || v == "act" => v.clone(),
        Some(v) => format!("other:{}", v),
    }
}

fn main() {
    let e = XvcEntity::from((1u64, 7u64));
    let o = XvcEntity::from((2u64, 7u64));
    for kind in KINDS {
        for add_new in [false, true] {
            for remove_missing in [false, true] {
                for present in [false, true] {
                    let fresh = || {
                        let mut s = XvcStore::<String>::new();
                        if present {
                            s.insert(e, "rec".to_string());
                        }
                        s.insert(o, "rec".to_string());
                        s
                    };
                    let mut diffs: HStore<Diff<String>> = HStore::new();
                    diffs.insert(e, mk(kind));
                    // update_with_actual
                    let r = catch_unwind(AssertUnwindSafe(|| {
                        let mut s = fresh();
                        match update_with_actual(&mut s, &diffs, add_new, remove_missing) {
                            Ok(()) => format!("{} other={}", show(&s, &e), show(&s, &o)),
                            Err(_) => "ERR other=-".to_string(),
                        }
                    }))
                    .unwrap_or_else(|_| "PANIC other=-".to_string());
                    println!("uwa {} {} {} {} -> {}", kind, add_new, remove_missing, present as u8, r);
                    // apply_diff
                    let r = catch_unwind(AssertUnwindSafe(|| {
                        let s = fresh();
                        match apply_diff(&s, &diffs, add_new, remove_missing) {
                            Ok(n) => format!(
                                "{} other={} orig={}",
                                show(&n, &e),
                                show(&n, &o),
                                show(&s, &e)
                            ),
                            Err(_) => "ERR other=- orig=-".to_string(),
                        }
                    }))
                    .unwrap_or_else(|_| "PANIC other=- orig=-".to_string());
                    println!("apd {} {} {} {} -> {}", kind, add_new, remove_missing, present as u8, r);
                }
            }
        }
        println!("chg {} -> {}", kind, mk(kind).changed());
    }
}
