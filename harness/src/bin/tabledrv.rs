//! tabledrv: EXECUTES the real `xvc_core::update_with_actual`, `xvc_core::apply_diff` and
//! `Diff::changed` over their finite case space and prints one line per case; gen/difftables.py
//! turns the lines into coq/theories/Gen/DiffTables.v.
//!
//! Case space: diff kind (Identical, RecordMissing, ActualMissing, Different, Skipped) x add_new x
//! remove_missing x (the entity is / is not in the store before the call).  The store holds
//! `String`s: "rec" is the recorded value, "act" the actual one; the observation is what the
//! store holds for the entity afterwards (`rec`, `act`, `none`), and for every case also what it
//! holds for an entity the diff store does not mention (`other=rec` expected).
//!
//! Output lines
//!   uwa <kind> <add_new> <remove_missing> <present01> -> <rec|act|none|other:..|ERR|PANIC> other=<..>
//!   apd <kind> <add_new> <remove_missing> <present01> -> ... other=<..> orig=<..>   (orig: the input store is not modified)
//!   chg <kind> -> <true|false>
//!
//! It also EXECUTES `GlobDep::diff_superficial` / `GlobDep::diff_thorough` (pipeline/src/pipeline/deps/glob.rs)
//! over (paths digest same/different) x (metadata digest same/different) x (content digest same / different /
//! missing in the record); record and actual are deserialised from JSON, so every digest field can be chosen:
//!   globsup <paths_same> <meta_same> -> <kind|PANIC>
//!   globtho <paths_same> <meta_same> <same|diff|norec> -> <kind|PANIC>
use std::panic::{catch_unwind, AssertUnwindSafe};

use xvc_core::types::diff::Diffable;
use xvc_core::{apply_diff, update_with_actual, Diff, HashAlgorithm, XvcDigest};
use xvc_pipeline::deps::glob::GlobDep;
use xvc_ecs::{HStore, XvcEntity, XvcStore};

const KINDS: [&str; 5] = ["Identical", "RecordMissing", "ActualMissing", "Different", "Skipped"];

fn mk(kind: &str) -> Diff<String> {
    match kind {
        "Identical" => Diff::Identical,
        "RecordMissing" => Diff::RecordMissing { actual: "act".to_string() },
        "ActualMissing" => Diff::ActualMissing { record: "rec".to_string() },
        "Different" => Diff::Different { record: "rec".to_string(), actual: "act".to_string() },
        "Skipped" => Diff::Skipped,
        _ => unreachable!(),
    }
}

fn show(s: &XvcStore<String>, e: &XvcEntity) -> String {
    match s.get(e) {
        None => "none".to_string(),
        Some(v) if v == "rec" || v == "act" => v.clone(),
        Some(v) => format!("other:{}", v),
    }
}

fn kind_of<T: xvc_ecs::Storable>(d: &Diff<T>) -> &'static str {
    match d {
        Diff::Identical => "Identical",
        Diff::RecordMissing { .. } => "RecordMissing",
        Diff::ActualMissing { .. } => "ActualMissing",
        Diff::Different { .. } => "Different",
        Diff::Skipped => "Skipped",
    }
}

fn digest_json(tag: &str) -> serde_json::Value {
    serde_json::to_value(XvcDigest::from_bytes(tag.as_bytes(), HashAlgorithm::Blake3)).unwrap()
}

fn glob_dep(paths: &str, meta: &str, content: Option<&str>) -> GlobDep {
    let v = serde_json::json!({
        "glob": "g/*.dat",
        "xvc_paths_digest": digest_json(paths),
        "xvc_metadata_digest": digest_json(meta),
        "content_digest": content.map(digest_json),
    });
    serde_json::from_value(v).expect("GlobDep no longer deserialises from its four fields")
}

fn glob_tables() {
    for paths_same in [false, true] {
        for meta_same in [false, true] {
            let rec = |c: Option<&str>| glob_dep("p0", "m0", c);
            let act = |c: Option<&str>| {
                glob_dep(if paths_same { "p0" } else { "p1" }, if meta_same { "m0" } else { "m1" }, c)
            };
            let r = catch_unwind(AssertUnwindSafe(|| {
                kind_of(&GlobDep::diff_superficial(&rec(Some("c0")), &act(None))).to_string()
            }))
            .unwrap_or_else(|_| "PANIC".to_string());
            println!("globsup {} {} -> {}", paths_same, meta_same, r);
            for (name, rc, ac) in [("same", Some("c0"), Some("c0")), ("diff", Some("c0"), Some("c1")), ("norec", None, Some("c0"))] {
                let r = catch_unwind(AssertUnwindSafe(|| {
                    kind_of(&GlobDep::diff_thorough(&rec(rc), &act(ac))).to_string()
                }))
                .unwrap_or_else(|_| "PANIC".to_string());
                println!("globtho {} {} {} -> {}", paths_same, meta_same, name, r);
            }
        }
    }
}

fn main() {
    std::panic::set_hook(Box::new(|_| {}));
    glob_tables();
    let e = XvcEntity::from((1u64, 7u64));
    let o = XvcEntity::from((2u64, 7u64));
    for kind in KINDS {
        for add_new in [false, true] {
            for remove_missing in [false, true] {
                for present in [false, true] {
                    let fresh = || {
                        let mut s = XvcStore::<String>::new();
                        if present {
                            s.insert(e, "rec".to_string());
                        }
                        s.insert(o, "rec".to_string());
                        s
                    };
                    let mut diffs: HStore<Diff<String>> = HStore::new();
                    diffs.insert(e, mk(kind));
                    // update_with_actual
                    let r = catch_unwind(AssertUnwindSafe(|| {
                        let mut s = fresh();
                        match update_with_actual(&mut s, &diffs, add_new, remove_missing) {
                            Ok(()) => format!("{} other={}", show(&s, &e), show(&s, &o)),
                            Err(_) => "ERR other=-".to_string(),
                        }
                    }))
                    .unwrap_or_else(|_| "PANIC other=-".to_string());
                    println!("uwa {} {} {} {} -> {}", kind, add_new, remove_missing, present as u8, r);
                    // apply_diff
                    let r = catch_unwind(AssertUnwindSafe(|| {
                        let s = fresh();
                        match apply_diff(&s, &diffs, add_new, remove_missing) {
                            Ok(n) => format!(
                                "{} other={} orig={}",
                                show(&n, &e),
                                show(&n, &o),
                                show(&s, &e)
                            ),
                            Err(_) => "ERR other=- orig=-".to_string(),
                        }
                    }))
                    .unwrap_or_else(|_| "PANIC other=- orig=-".to_string());
                    println!("apd {} {} {} {} -> {}", kind, add_new, remove_missing, present as u8, r);
                }
            }
        }
        println!("chg {} -> {}", kind, mk(kind).changed());
    }
}
