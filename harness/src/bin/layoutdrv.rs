//! layoutdrv: renders cache addresses with the real code (XvcDigest::cache_dir + XvcCachePath::new through
//! xvc-core's public API) on the cases the extracted model M-LAYOUT renders (coq/extract/layout_driver.ml).
//!
//! input lines:   <algo: asis|blake3|blake2s|sha2|sha3> <digest: 64 hex digits> <tracked path, hex-encoded UTF-8, '-' = empty>
//! output lines:  ok <cache path as displayed, hex-encoded> <extension the code used, hex-encoded, '-' = none>
//!                | err <text> | panic | bad <text>
//! The algorithm is given by the NAME OF THE VARIANT (not by its to_string / FromStr names, which are
//! part of what is checked).  XvcPath is built from the relative path string by its serde
//! representation (a transparent wrapper around RelativePathBuf); no repository is needed.
use std::io::{self, BufRead, Write};
use std::panic::{catch_unwind, AssertUnwindSafe};

use xvc_core::{ContentDigest, HashAlgorithm, XvcCachePath, XvcDigest, XvcPath};

fn unhex(h: &str) -> Result<Vec<u8>, String> {
    if h == "-" {
        return Ok(vec![]);
    }
    if h.len() % 2 != 0 {
        return Err("odd hex".into());
    }
    (0..h.len() / 2)
        .map(|i| u8::from_str_radix(&h[2 * i..2 * i + 2], 16).map_err(|e| e.to_string()))
        .collect()
}
fn hex(s: &str) -> String {
    if s.is_empty() {
        "-".to_string()
    } else {
        s.bytes().map(|b| format!("{:02x}", b)).collect()
    }
}

fn render(fields: &[&str]) -> String {
    if fields.len() != 3 {
        return "bad fields".into();
    }
    let algorithm = match fields[0] {
        "asis" => HashAlgorithm::AsIs,
        "blake3" => HashAlgorithm::Blake3,
        "blake2s" => HashAlgorithm::Blake2s,
        "sha2" => HashAlgorithm::SHA2_256,
        "sha3" => HashAlgorithm::SHA3_256,
        o => return format!("bad algo {}", o),
    };
    let dv = match unhex(fields[1]) {
        Ok(v) if v.len() == 32 => v,
        _ => return "bad digest".into(),
    };
    let mut digest = [0u8; 32];
    digest.copy_from_slice(&dv);
    let path = match unhex(fields[2]).and_then(|b| String::from_utf8(b).map_err(|e| e.to_string())) {
        Ok(p) => p,
        Err(e) => return format!("bad path {}", e),
    };
    let xvc_path: XvcPath = match serde_json::to_string(&path).and_then(|j| serde_json::from_str(&j)) {
        Ok(p) => p,
        Err(e) => return format!("bad xvcpath {}", e),
    };
    let content_digest = ContentDigest::from(XvcDigest { algorithm, digest });
    match XvcCachePath::new(&xvc_path, &content_digest) {
        Ok(cp) => format!("ok {} {}", hex(&cp.to_string()), hex(xvc_path.extension().unwrap_or(""))),
        Err(e) => format!("err {}", e.to_string().replace('\n', " ")),
    }
}

fn main() {
    std::panic::set_hook(Box::new(|_| {}));
    let stdin = io::stdin();
    let out = io::stdout();
    let mut out = out.lock();
    for line in stdin.lock().lines() {
        let line = line.unwrap();
        let fields: Vec<&str> = line.split_whitespace().collect();
        if fields.is_empty() {
            continue;
        }
        let r = catch_unwind(AssertUnwindSafe(|| render(&fields))).unwrap_or_else(|_| "panic".to_string());
        writeln!(out, "{}", r).unwrap();
    }
}
