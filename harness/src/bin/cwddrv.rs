//! cwddrv: runs the real cwd-dependent functions of xvc-file / xvc-core on the cases the extracted model
//! M-CWD runs (coq/extract/cwd_driver.ml) and prints the same canonical lines.
//!
//! input lines (strings hex-encoded, '-' = absent / empty list, ',' separates list items)
//!   store <rootabs> <cwd|-> <targets: N (none) | - (empty) | hex,hex..> <stored hex,hex..>
//!         -> filter_targets_from_store(.., current_dir = root/cwd, targets) over an XvcStore holding `stored`
//!   disk  <rootabs> <cwd|-> <targets>       -> targets_from_disk(.., filter_git_paths = false)
//!   xpath <rootabs> <base|-> <string>       -> XvcPath::new(root, root/base, string)
//! output: ok <hex,hex.. sorted> | err | panic
use std::io::{self, BufRead, Write};
use std::panic::{catch_unwind, AssertUnwindSafe};
use std::path::Path;

use xvc_config::XvcConfigParams;
use xvc_core::types::xvcroot::load_xvc_root;
use xvc_core::{default_project_config, AbsolutePath, XvcPath, XvcRoot};
use xvc_ecs::{XvcEntity, XvcStore};
use xvc_file::common::{filter_targets_from_store, targets_from_disk};
use xvc_logging::XvcOutputLine;

fn unhex(h: &str) -> String {
    if h == "-" {
        return String::new();
    }
    let b: Vec<u8> = (0..h.len() / 2)
        .map(|i| u8::from_str_radix(&h[2 * i..2 * i + 2], 16).unwrap())
        .collect();
    String::from_utf8(b).expect("case strings are UTF-8")
}
fn hex(s: &str) -> String {
    s.bytes().map(|b| format!("{:02x}", b)).collect()
}
fn list(f: &str) -> Vec<String> {
    if f == "-" {
        vec![]
    } else {
        f.split(',').map(unhex).collect()
    }
}
fn targets(f: &str) -> Option<Vec<String>> {
    if f == "N" {
        None
    } else {
        Some(list(f))
    }
}
// one repository handle per process (the entity generator can be loaded once); the functions under
// test take the current directory as an explicit argument
fn load(rootabs: &str) -> XvcRoot {
    // builder calls only: compiles whatever fields the struct has
    let p = XvcConfigParams::new(default_project_config(false), AbsolutePath::from(Path::new(rootabs).to_path_buf()))
        .include_system_config(false)
        .include_user_config(false)
        .include_environment_config(false);
    load_xvc_root(p).expect("load root")
}
fn show(mut v: Vec<String>) -> String {
    v.sort();
    if v.is_empty() {
        "ok -".to_string()
    } else {
        format!("ok {}", v.iter().map(|s| hex(s)).collect::<Vec<_>>().join(","))
    }
}

fn cur_of(rootabs: &str, cwd: &str) -> AbsolutePath {
    if cwd.is_empty() { AbsolutePath::from(Path::new(rootabs).to_path_buf()) } else { AbsolutePath::from(Path::new(rootabs).join(cwd)) }
}

fn main() {
    std::panic::set_hook(Box::new(|_| {}));
    let mut the_root: Option<XvcRoot> = None;
    
    let (snd, rcv) = crossbeam_channel::unbounded::<Option<XvcOutputLine>>();
    std::thread::spawn(move || for _ in rcv.iter() {});
    let stdin = io::stdin();
    let out = io::stdout();
    let mut out = out.lock();
    for line in stdin.lock().lines() {
        let line = line.unwrap();
        let f: Vec<&str> = line.split_whitespace().collect();
        if f.is_empty() {
            continue;
        }
        if the_root.is_none() && f.len() > 1 {
            the_root = Some(load(f[1]));
        }
        let root = the_root.clone().unwrap();
        let res = catch_unwind(AssertUnwindSafe(|| -> String {
            match f[0] {
                "store" => {
                    let cur = cur_of(f[1], &unhex(f[2]));
                    let mut st = XvcStore::<XvcPath>::new();
                    for (i, p) in list(f[4]).iter().enumerate() {
                        let xp = XvcPath::new(&root, root.absolute_path(), Path::new(p)).unwrap();
                        st.insert(XvcEntity::from((i as u64 + 10, 7u64)), xp);
                    }
                    match filter_targets_from_store(&snd, &root, &st, &cur, &targets(f[3])) {
                        Ok(h) => show(h.iter().map(|(_, p)| p.to_string()).collect()),
                        Err(_) => "err".to_string(),
                    }
                }
                "disk" => {
                    let cur = cur_of(f[1], &unhex(f[2]));
                    match targets_from_disk(&snd, &root, &cur, &targets(f[3]), false) {
                        Ok(m) => show(m.keys().map(|p| p.to_string()).collect()),
                        Err(_) => "err".to_string(),
                    }
                }
                "xpath" => {
                    let b = unhex(f[2]);
                    let base = if b.is_empty() { root.absolute_path().clone() } else { AbsolutePath::from(Path::new(f[1]).join(b)) };
                    match XvcPath::new(&root, &base, Path::new(&unhex(f[3]))) {
                        Ok(p) => format!("ok {}", if p.to_string().is_empty() { "-".to_string() } else { hex(&p.to_string()) }),
                        Err(_) => "err".to_string(),
                    }
                }
                _ => "bad".to_string(),
            }
        }));
        writeln!(out, "{}", res.unwrap_or_else(|_| "panic".to_string())).unwrap();
        out.flush().unwrap();
    }
}
