//! walkdrv: materialises a directory tree with ignore files in a scratch directory and runs the real
//! xvc_walker::walk_serial once and xvc_walker::walk_parallel `reps` times on it.
//!
//! usage: walkdrv <scratch-base>        (cases on stdin, one JSON answer line per case on stdout)
//!
//! case line (fields separated by one space; strings are lowercase hex of their bytes, `-` = empty):
//!   w <reps> <globalshex> <entries>
//!     entries = <d|f><pathhex>[:<contenthex>],...      path relative to the walk root, parents first;
//!               an ignore file is an `f` entry whose last component is `.xvcignore`
//! answer: {"serial":[paths in the order walk_serial returned them],
//!          "par":[{"n":<runs with this result>,"set":[sorted paths]},...],
//!          "dups":<paths reported twice by one run>,
//!          "traces":[[H2 events of run 0],...]}          (only when XVC_VERIF_WALK_TRACE names a file
//!                                                           and hook H2 is compiled into xvc-walker)
//!         | {"error":"..."}  | {"panic":true}
//! Paths are relative to the walk root, `/`-separated, lossy UTF-8.
use std::collections::BTreeMap;
use std::fs;
use std::io::{self, BufRead, Read, Seek, SeekFrom, Write};
use std::panic::{catch_unwind, AssertUnwindSafe};
use std::path::{Path, PathBuf};
use std::sync::{Arc, RwLock};

use xvc_walker::{walk_parallel, walk_serial, IgnoreRules, WalkOptions};

fn unhex(f: &str) -> Vec<u8> {
    if f == "-" {
        return Vec::new();
    }
    assert!(f.len() % 2 == 0, "odd hex field {}", f);
    (0..f.len() / 2)
        .map(|i| u8::from_str_radix(&f[2 * i..2 * i + 2], 16).expect("hex digit"))
        .collect()
}

fn rel(root: &Path, p: &Path) -> String {
    p.strip_prefix(root)
        .map(|r| r.to_string_lossy().to_string())
        .unwrap_or_else(|_| format!("<outside>{}", p.to_string_lossy()))
}

fn materialise(root: &Path, entries: &str) -> Result<(), String> {
    fs::create_dir_all(root).map_err(|e| e.to_string())?;
    if entries == "-" {
        return Ok(());
    }
    for e in entries.split(',') {
        let (kind, rest) = e.split_at(1);
        let (p, content) = match rest.split_once(':') {
            Some((p, c)) => (p, unhex(c)),
            None => (rest, Vec::new()),
        };
        let relp = String::from_utf8(unhex(p)).map_err(|e| e.to_string())?;
        if relp.is_empty() || relp.starts_with('/') || relp.split('/').any(|c| c == ".." || c.is_empty()) {
            return Err(format!("bad entry path {:?}", relp));
        }
        let full = root.join(&relp);
        match kind {
            "d" => fs::create_dir_all(&full).map_err(|e| e.to_string())?,
            "f" => {
                if let Some(parent) = full.parent() {
                    fs::create_dir_all(parent).map_err(|e| e.to_string())?;
                }
                fs::write(&full, &content).map_err(|e| e.to_string())?;
            }
            _ => return Err(format!("bad entry kind {:?}", kind)),
        }
    }
    Ok(())
}

fn json_str(s: &str) -> String {
    serde_json::to_string(s).unwrap()
}

fn json_list(v: &[String]) -> String {
    format!("[{}]", v.iter().map(|s| json_str(s)).collect::<Vec<_>>().join(","))
}

/// the part of the H2 trace file written since `from`
fn trace_since(trace: &Option<PathBuf>, from: u64) -> (u64, Option<String>) {
    if let Some(p) = trace {
        if let Ok(mut f) = fs::File::open(p) {
            let len = f.metadata().map(|m| m.len()).unwrap_or(0);
            if len > from {
                let mut s = String::new();
                if f.seek(SeekFrom::Start(from)).is_ok() && f.read_to_string(&mut s).is_ok() {
                    return (len, Some(s));
                }
            }
            return (len, None);
        }
        // not created yet: hook H2 opens it at its first event
        return (0, None);
    }
    (from, None)
}

fn run_case(base: &Path, idx: usize, line: &str, trace: &Option<PathBuf>) -> String {
    let f: Vec<&str> = line.split(' ').collect();
    if f.len() != 4 || f[0] != "w" {
        return format!("{{\"error\":{}}}", json_str(&format!("bad line {}", line)));
    }
    let reps: usize = f[1].parse().expect("reps");
    let globals = String::from_utf8(unhex(f[2])).expect("globals utf8");
    let case_dir = base.join(format!("c{}_{}", std::process::id(), idx));
    let root = case_dir.join("r");
    let res = (|| -> Result<String, String> {
        materialise(&root, f[3])?;
        let (out_snd, _out_rcv) = crossbeam_channel::unbounded();
        let (paths, _rules) = walk_serial(&out_snd, &globals, &root, &WalkOptions::xvcignore())
            .map_err(|e| format!("walk_serial: {:?}", e))?;
        let serial: Vec<String> = paths.iter().map(|pm| rel(&root, &pm.path)).collect();

        let mut results: BTreeMap<Vec<String>, usize> = BTreeMap::new();
        let mut order: Vec<Vec<String>> = Vec::new();
        let mut traces: Vec<String> = Vec::new();
        let mut dups = 0usize;
        let (mut off, _) = trace_since(trace, u64::MAX);
        for _ in 0..reps {
            let rules = Arc::new(RwLock::new(IgnoreRules::from_global_patterns(
                &root,
                Some(".xvcignore"),
                &globals,
            )));
            let (snd, rcv) = crossbeam_channel::unbounded();
            walk_parallel(rules, &root, WalkOptions::xvcignore(), snd)
                .map_err(|e| format!("walk_parallel: {:?}", e))?;
            let mut got: Vec<String> = Vec::new();
            for r in rcv.iter() {
                match r {
                    Ok(pm) => got.push(rel(&root, &pm.path)),
                    Err(e) => got.push(format!("<error>{:?}", e)),
                }
            }
            got.sort();
            let n0 = got.len();
            got.dedup();
            dups += n0 - got.len();
            let (noff, t) = trace_since(trace, off);
            off = noff;
            if let Some(t) = t {
                let evs: Vec<&str> = t.lines().filter(|l| !l.trim().is_empty()).collect();
                traces.push(format!(
                    "{{\"set\":{},\"events\":[{}]}}",
                    json_list(&got),
                    evs.join(",")
                ));
            }
            if !results.contains_key(&got) {
                order.push(got.clone());
            }
            *results.entry(got).or_insert(0) += 1;
        }
        let par: Vec<String> = order
            .iter()
            .map(|s| format!("{{\"n\":{},\"set\":{}}}", results[s], json_list(s)))
            .collect();
        Ok(format!(
            "{{\"serial\":{},\"par\":[{}],\"dups\":{},\"traces\":[{}]}}",
            json_list(&serial),
            par.join(","),
            dups,
            traces.join(",")
        ))
    })();
    let _ = fs::remove_dir_all(&case_dir);
    match res {
        Ok(s) => s,
        Err(e) => format!("{{\"error\":{}}}", json_str(&e)),
    }
}

fn main() {
    let base = PathBuf::from(std::env::args().nth(1).expect("usage: walkdrv <scratch-base>"));
    fs::create_dir_all(&base).expect("scratch base");
    // one trace file per walkdrv process (several run side by side); hook H2 reads the variable
    // at its first event, which is after this point
    let trace = std::env::var_os("XVC_VERIF_WALK_TRACE").map(|p| {
        let mut s = p;
        s.push(format!(".{}", std::process::id()));
        std::env::set_var("XVC_VERIF_WALK_TRACE", &s);
        PathBuf::from(s)
    });
    std::panic::set_hook(Box::new(|_| {}));
    let stdin = io::stdin();
    let stdout = io::stdout();
    let mut w = io::BufWriter::new(stdout.lock());
    for (idx, line) in stdin.lock().lines().enumerate() {
        let line = line.unwrap();
        let line = line.trim();
        if line.is_empty() {
            continue;
        }
        let out = match catch_unwind(AssertUnwindSafe(|| run_case(&base, idx, line, &trace))) {
            Ok(s) => s,
            Err(_) => "{\"panic\":true}".to_string(),
        };
        writeln!(w, "{}", out).unwrap();
        w.flush().unwrap();
    }
    if let Some(p) = trace {
        let _ = fs::remove_file(p);
    }
}
