#!/bin/bash
# MANIFEST.setup_cmd: builds everything the checks need, offline, from files on disk.
set -e
cd "$(dirname "$0")"
export CARGO_NET_OFFLINE=true RUST_BACKTRACE=0
mkdir -p build/bin evidence replays
# 1. Coq: full .vo build of the whole development
python3 -c "import sys; sys.path.insert(0,'.'); from vlib import common as C; C.write_coqproject()"
(cd coq && coq_makefile -f _CoqProject -o Makefile > /dev/null && timeout 3000 make -j16 > ../build/coq-build.log 2>&1) || { tail -50 build/coq-build.log; echo "coq build failed"; exit 1; }
# 2. extracted model binaries
for n in $(ls coq/extract/*Extract.v | sed 's#.*/##; s#Extract.v##'); do
  coq/extract/build.sh "$n" || { echo "extraction of $n failed"; exit 1; }
done
# 3. harness + hooked xvc, from /repo's working tree
python3 - <<'PY' || { echo "harness / xvc build failed"; exit 1; }
import sys, os, glob
sys.path.insert(0, '.')
from vlib import common as C
bins = [os.path.basename(p)[:-3] for p in glob.glob('harness/src/bin/*.rs')]
C.ensure_harness(bins)
C.ensure_xvc()
PY
echo "setup ok"
