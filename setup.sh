#!/bin/bash
# MANIFEST.setup_cmd: builds everything the checks need, offline, from files on disk.
set -e
cd "$(dirname "$0")"
export CARGO_NET_OFFLINE=true RUST_BACKTRACE=0
mkdir -p build/bin evidence replays
# 1. Coq: full .vo build of the whole development
(cd coq && coq_makefile -f _CoqProject -o Makefile > /dev/null && timeout 3000 make -j16 > ../build/coq-build.log 2>&1) || { tail -50 build/coq-build.log; echo "coq build failed"; exit 1; }
# 2. extracted model binaries
for n in $(ls coq/extract/*Extract.v | sed 's#.*/##; s#Extract.v##'); do
  coq/extract/build.sh "$n" || { echo "extraction of $n failed"; exit 1; }
done
# 3. harness + hooked xvc, from /repo's working tree
cp /repo/Cargo.lock harness/Cargo.lock
(cd harness && RUSTFLAGS="--cfg xvc_verif" CARGO_TARGET_DIR=/verif/build/target cargo build --offline --bins > ../build/harness-build.log 2>&1) || { tail -50 build/harness-build.log; echo "harness build failed"; exit 1; }
(cd /repo && RUSTFLAGS="--cfg xvc_verif" CARGO_TARGET_DIR=/verif/build/target cargo build --offline -p xvc --bin xvc > /verif/build/xvc-build.log 2>&1) || { tail -50 /verif/build/xvc-build.log; echo "xvc build failed"; exit 1; }
echo "setup ok"
