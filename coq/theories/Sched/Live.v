(* M-SCHED: liveness proofs (C11).  Safety invariants are in Sched/Proofs.v. *)
From Coq Require Import List Bool NArith Lia Arith.
From XV Require Import Base.Amap Gen.StepMachine Sched.Model Sched.Proofs.
Import ListNotations.
Local Open Scope N_scope.

(* ---------------------------------------------------------------------------------------- *)
(* C11: liveness.  Assumptions on the configuration                                          *)
(* ---------------------------------------------------------------------------------------- *)
Record Live (cfg : config) : Prop := {
  lv_shared : fix_shared_pool cfg = true;
  lv_atomic : fix_atomic_acquire cfg = true;
  lv_p12 : fixed_P12 cfg = true;
  lv_p13 : fixed_P13 cfg = true \/ Known_big_stderr cfg = false;
  lv_err : Known_thread_error cfg = false;
  lv_pool : 0 < c_pool cfg;
  lv_cap : 0 < c_cap cfg
}.
Arguments lv_shared {cfg} _. Arguments lv_atomic {cfg} _. Arguments lv_p12 {cfg} _. Arguments lv_p13 {cfg} _.
Arguments lv_err {cfg} _. Arguments lv_pool {cfg} _. Arguments lv_cap {cfg} _.

(* the (state, From-substate) pairs the state_machine! table can construct *)
Definition loc_okb (l : lstate) : bool :=
  match l with
  | (Begin, None) => true
  | (st, Some e) => existsb (fun from => match allowed from e with Some st' => sstate_eqb st' st | None => false end) all_sstates
  | _ => false
  end.

Lemma sstate_eqb_refl st : sstate_eqb st st = true.
Proof. destruct (sstate_eqb_spec st st); congruence. Qed.

Lemma loc_okb_next cfg s sc t l p sl : handler cfg s sc t = HNext l p sl -> loc_okb l = true.
Proof.
  intros H. pose proof (handler_within_table_weak cfg s sc t) as Hw. rewrite H in Hw.
  destruct Hw as [e [He [Ha|[_ [_ [He2 Hb]]]]]]; destruct l as [st ev]; cbn [fst snd] in *; subst ev.
  - assert (E : existsb (fun from => match allowed from e with Some st' => sstate_eqb st' st | None => false end) all_sstates = true).
    { apply existsb_exists. exists (fst (loc t)). split; [apply all_sstates_complete|]. rewrite Ha. apply sstate_eqb_refl. }
    destruct st; exact E.
  - (* Broken(FromHasMissingDependencies) is constructible from CheckingSuperficialDiffs in every table *)
    subst st e. reflexivity.
Qed.

Lemma can_die_false cfg sc :
  thread_can_die cfg sc = false ->
  s_proc sc <> CannotStart /\
  (has_dep_records sc = true -> (fixed_P14b cfg = true \/ s_thor sc <> VError) /\ (fixed_P14 cfg = true \/ s_sup sc <> VError)).
Proof.
  unfold thread_can_die. intros H. apply orb_false_iff in H. destruct H as [H1 H2]. split.
  - intros E. rewrite E in H1. discriminate.
  - intros Hr. rewrite Hr in H2. cbn [andb] in H2. apply orb_false_iff in H2. destruct H2 as [H2 H3]. split.
    + destruct (fixed_P14b cfg); auto. right. intros E. rewrite E in H2. discriminate.
    + destruct (fixed_P14 cfg); auto. right. intros E. rewrite E in H3. discriminate.
Qed.

(* with the repairs of P14 and P14b a step thread can die only when popen fails *)
Lemma thread_error_fixed cfg :
  fixed_P14 cfg = true -> fixed_P14b cfg = true -> all_can_start cfg = true -> Known_thread_error cfg = false.
Proof.
  intros H14 H14b Hst. unfold Known_thread_error. destruct (existsb (thread_can_die cfg) (c_steps cfg)) eqn:E; auto. exfalso.
  apply existsb_exists in E. destruct E as [sc [Hin E]]. unfold thread_can_die in E. rewrite H14, H14b in E.
  cbn [negb andb orb] in E. rewrite andb_false_r, orb_false_r in E.
  unfold all_can_start in Hst. rewrite forallb_forall in Hst. specialize (Hst _ Hin).
  destruct (s_proc sc); discriminate.
Qed.

Lemma handler_no_die cfg s sc t panic p sl :
  fix_atomic_acquire cfg = true -> thread_can_die cfg sc = false ->
  loc_okb (loc t) = true -> (loc t = (Running, Some WaitProcess) -> started (proc t) = true) ->
  handler cfg s sc t = HDie panic p sl -> False.
Proof.
  intros Hat Hd Hlok Hw H. destruct (can_die_false _ _ Hd) as [Hcs Hrec].
  unfold handler, compare_outcome, goto in H. rewrite Hat in H.
  destruct (loc t) as [st ev] eqn:Hl; destruct st; destruct ev as [[]|]; cbn [fst snd] in H;
    try discriminate Hlok;
    repeat break_match_hyp; try discriminate H; try (apply Hcs; assumption); try (exfalso; apply Hcs; reflexivity).
  all: try (match goal with Hn : negb (has_dep_records _) = false |- _ => apply negb_false_iff in Hn; destruct (Hrec Hn) as [[Ht|Ht] [Hs|Hs]]; congruence end).
  all: try (specialize (Hw eq_refl); cbn in Hw; discriminate Hw).
Qed.

Lemma handler_wait_started cfg s sc t l p sl :
  handler cfg s sc t = HNext l p sl -> l = (Running, Some WaitProcess) -> started p = true.
Proof. intros H. hyp_cases H t; intros E; try discriminate E; reflexivity. Qed.

Lemma handler_proc_spec cfg s sc t l p sl o e ofl efl :
  handler cfg s sc t = HNext l p sl -> p = PRunning o e ofl efl ->
  proc t = p \/ (exists code, s_proc sc = Exits code o e /\ ofl = 0 /\ efl = 0).
Proof.
  intros H. hyp_cases H t; intros E; auto; inversion E; subst; right; eexists; split; eauto.
Qed.

Lemma handler_poll_spec cfg s sc t p ch :
  handler cfg s sc t = HPoll p ch ->
  p = proc t \/ exists o e ofl efl, proc t = PRunning o e ofl efl /\ p = PRunning o e 0 (if fixed_P13 cfg then 0 else efl).
Proof.
  intros H. hyp_cases H t; auto; right; eexists _, _, _, _; split; eauto.
Qed.

Lemma handler_pool_next_eq cfg s sc t l p sl v c b :
  fix_shared_pool cfg = true -> fix_atomic_acquire cfg = true -> slots s = [(0, v)] ->
  status t = TRun ->
  handler cfg s sc t = HNext l p sl ->
  exists v', sl = [(0, v')] /\ v' + hv (mk_thread l PSend TRun c b p) = v + hv t.
Proof.
  intros Hsh Hat Hsl Hst H. unfold hv, holder. rewrite Hst.
  unfold handler, compare_outcome, goto, slot_val, skey in H.
  rewrite Hsh, Hat, Hsl in H. cbn [nget get N.eqb upd] in H.
  destruct (loc t) as [st ev] eqn:Hl; destruct st; destruct ev as [[]|]; cbn [fst snd] in H;
    repeat break_match_hyp; try discriminate H; inversion H; subst; clear H;
    cbn [loc status proc mk_thread is_Running fst andb orb is_TRun started];
    eexists; (split; [reflexivity|]); try lia.
  all: try (match goal with Hlt : N.ltb 0 _ = true |- _ => apply N.ltb_lt in Hlt end; lia).
Qed.

(* ---------------------------------------------------------------------------------------- *)
(* the liveness invariant                                                                   *)
(* ---------------------------------------------------------------------------------------- *)
Record linv (cfg : config) (sc : stepcfg) (t : thread) : Prop := {
  li_status : status t = TRun \/ status t = TFin;
  li_sync : ph t = PAct \/ status t = TFin -> last (chan t) (bull t) = loc t;
  li_loc : loc_okb (loc t) = true;
  li_wait : loc t = (Running, Some WaitProcess) -> started (proc t) = true;
  li_proc : forall o e ofl efl, proc t = PRunning o e ofl efl ->
            exists code out err, s_proc sc = Exits code out err /\ (fixed_P13 cfg = false -> e + efl <= err)
}.
Arguments li_status {cfg sc t} _. Arguments li_sync {cfg sc t} _. Arguments li_loc {cfg sc t} _.
Arguments li_wait {cfg sc t} _. Arguments li_proc {cfg sc t} _.

Record LInv (cfg : config) (s : gstate) : Prop := {
  l_outdead : outdead s = false;
  l_slots : exists v, slots s = [(0, v)] /\ v + N.of_nat (cnt holder (thr s)) = c_pool cfg;
  l_thr : forall i sc t, find_step (c_steps cfg) i = Some sc -> tget (thr s) i = Some t -> linv cfg sc t
}.
Arguments l_outdead {cfg s} _. Arguments l_slots {cfg s} _. Arguments l_thr {cfg s} _.

Lemma last_snoc {A} (l : list A) (x d : A) : last (l ++ [x]) d = x.
Proof. induction l as [|a r IH]; cbn [app last]; auto. destruct (r ++ [x]) eqn:E; auto. destruct r; discriminate. Qed.

Lemma last_default_irrelevant {A} (l : list A) (a d d' : A) : last (a :: l) d = last (a :: l) d'.
Proof. revert a. induction l as [|b r IH]; intros a; [reflexivity|]. change (last (b :: r) d = last (b :: r) d'). apply IH. Qed.

Lemma last_cons_default {A} (x : A) (r : list A) (d : A) : last (x :: r) d = last r x.
Proof. destruct r as [|a r]; [reflexivity|]. change (last (a :: r) d = last (a :: r) x). apply last_default_irrelevant. Qed.

Lemma can_die_of_known cfg sc : Known_thread_error cfg = false -> In sc (c_steps cfg) -> thread_can_die cfg sc = false.
Proof.
  unfold Known_thread_error. intros H Hin. destruct (thread_can_die cfg sc) eqn:E; auto.
  assert (existsb (thread_can_die cfg) (c_steps cfg) = true) by (apply existsb_exists; eauto). congruence.
Qed.

Lemma LInv_init cfg s0 : Live cfg -> init cfg = Accepted s0 -> LInv cfg s0.
Proof.
  intros HL. unfold init. destruct (negb (wf_cfg cfg)); [discriminate|].
  destruct (negb (forallb _ _)); [discriminate|]. destruct (negb (acyclicb cfg)); [discriminate|].
  intros H; inversion H; subst; clear H. split.
  - reflexivity.
  - exists (c_pool cfg). unfold init_state; cbn [slots thr]. rewrite (lv_shared HL). split; auto.
    rewrite cnt_init by reflexivity. lia.
  - intros i sc t _ Ht. apply get_init_thread in Ht. subst t. split; cbn; auto; try discriminate.
Qed.

Lemma linv_step cfg s i sc t t' sl od b :
  Live cfg -> find_step (c_steps cfg) i = Some sc -> outdead s = false ->
  tinv0 t -> linv cfg sc t -> tcase cfg s i t t' sl od b -> linv cfg sc t' /\ od = false.
Proof.
  intros HL Hf Hod Hti Hli Hc.
  assert (Hin : In sc (c_steps cfg)) by (apply find_step_id in Hf; tauto).
  assert (Hcd : thread_can_die cfg sc = false) by (apply can_die_of_known; auto; apply (lv_err HL)).
  destruct Hc; subst.
  - (* send *)
    split; auto. destruct (is_terminal (loc t)); split; cbn [loc ph status chan bull proc mk_thread]; auto;
      try (intros _; apply last_snoc); try apply (li_loc Hli); try apply (li_wait Hli); try apply (li_proc Hli).
  - (* next *)
    rewrite Hf in H; inversion H; subst sc0; clear H. split; auto.
    split; cbn [loc ph status chan bull proc mk_thread]; auto.
    + intros [E|E]; discriminate.
    + eapply loc_okb_next; eauto.
    + eapply handler_wait_started; eauto.
    + intros o e ofl efl Ep. destruct (handler_proc_spec _ _ _ _ _ _ _ _ _ _ _ H2 Ep) as [E|[code [Es [-> ->]]]].
      * rewrite <- E in Ep. apply (li_proc Hli _ _ _ _ Ep).
      * exists code, o, e. split; auto. intros _. lia.
  - (* resend *)
    split; auto. split; cbn [loc ph status chan bull proc mk_thread]; auto.
    + intros [E|E]; discriminate.
    + apply (li_loc Hli).
    + apply (li_wait Hli).
    + apply (li_proc Hli).
  - (* poll *)
    rewrite Hf in H; inversion H; subst sc0; clear H. split; auto.
    split; cbn [loc ph status chan bull proc mk_thread]; auto.
    + intros _. apply (li_sync Hli); auto.
    + apply (li_loc Hli).
    + intros El. destruct (handler_poll_spec _ _ _ _ _ _ H2) as [->|[o [e [ofl [efl [Ep ->]]]]]]; [apply (li_wait Hli El)|reflexivity].
    + intros o e ofl efl Ep. destruct (handler_poll_spec _ _ _ _ _ _ H2) as [E|[o1 [e1 [ofl1 [efl1 [Ep1 E]]]]]].
      * rewrite E in Ep. apply (li_proc Hli _ _ _ _ Ep).
      * rewrite E in Ep. inversion Ep; subst. destruct (li_proc Hli _ _ _ _ Ep1) as [code [out [err [Es Hle]]]].
        exists code, out, err. split; auto. intros Hfx. rewrite Hfx. auto.
  - (* die: impossible *)
    rewrite Hf in H; inversion H; subst sc0; clear H. exfalso.
    eapply handler_no_die; eauto. apply (lv_atomic HL). apply (li_loc Hli). apply (li_wait Hli).
  - (* bulletin *)
    split; auto. split; cbn [loc ph status chan bull proc mk_thread].
    + apply (li_status Hli).
    + intros Hx. rewrite <- (li_sync Hli Hx), H. rewrite last_cons_default. reflexivity.
    + apply (li_loc Hli).
    + apply (li_wait Hli).
    + apply (li_proc Hli).
  - (* proc *)
    split; auto. split; cbn [loc ph status chan bull proc set_proc].
    + apply (li_status Hli).
    + apply (li_sync Hli).
    + apply (li_loc Hli).
    + intros _. destruct H2 as [H2|[c ->]]; [destruct p'; try discriminate; reflexivity|reflexivity].
    + intros o' e' ofl' efl' Ep. destruct (H3 _ _ _ _ Ep) as [o [e [ofl [efl [Ep0 [E1 [E2 E3]]]]]]].
      destruct (li_proc Hli _ _ _ _ Ep0) as [code [out [err [Es Hle]]]].
      exists code, out, err. split; auto. intros Hfx. rewrite E1. auto.
  - (* crash: impossible *)
    congruence.
Qed.

Lemma LInv_step cfg s x s' b :
  Live cfg -> Inv cfg s -> LInv cfg s -> step_ex cfg s x = Some (s', b) -> LInv cfg s'.
Proof.
  intros HL HI HLI Hs.
  destruct (step_ex_cases _ _ _ _ _ Hs) as [t [t' [Ht [Hthr Hc]]]].
  set (i := tid_step x) in *.
  assert (Hti : tinv0 t) by (eapply inv_thr; eauto).
  assert (Hin : In i (map s_id (c_steps cfg))).
  { change (map s_id (c_steps cfg)) with (step_ids cfg). rewrite <- (inv_keys HI). eapply get_In_keys; eauto. }
  destruct (find_step_some _ _ Hin) as [sc Hf].
  assert (Hli : linv cfg sc t) by (eapply (l_thr HLI); eauto).
  destruct (linv_step _ _ _ _ _ _ _ _ _ HL Hf (l_outdead HLI) Hti Hli Hc) as [Hli' Hod'].
  assert (Hnd : NoDup (map fst (thr s))) by (rewrite (inv_keys HI); apply (inv_nodup HI)).
  split.
  - exact Hod'.
  - destruct (l_slots HLI) as [v [Hsl Heq]].
    assert (Hcnt := cnt_upd_N holder (thr s) i t' t Hnd Ht). fold (hv t) in Hcnt. fold (hv t') in Hcnt.
    assert (Key : exists v', slots s' = [(0, v')] /\ v' + hv t' = v + hv t).
    { destruct Hc; subst.
      - exists v. split; [congruence|]. unfold hv, holder. cbn [loc status proc mk_thread]. rewrite H.
        destruct (is_terminal (loc t)) eqn:Hterm; cbn [is_TRun orb]; auto.
        assert (E : is_Running (loc t) = false).
        { unfold is_Running, is_terminal, is_done, is_broken in *. destruct (fst (loc t)); auto; discriminate. }
        rewrite E. reflexivity.
      - eapply handler_pool_next_eq; eauto; [apply (lv_shared HL)|apply (lv_atomic HL)].
      - exists v. split; [congruence|]. unfold hv, holder. cbn [loc status proc mk_thread]. rewrite H0. reflexivity.
      - exists v. split; [congruence|]. unfold hv, holder. cbn [loc status proc mk_thread]. rewrite H0. cbn [is_TRun orb]. reflexivity.
      - exfalso. rewrite Hf in H; inversion H; subst sc0.
        eapply handler_no_die; eauto; [apply (lv_atomic HL)| |apply (li_loc Hli)|apply (li_wait Hli)].
        apply can_die_of_known; [apply (lv_err HL)|]. apply find_step_id in Hf; tauto.
      - exists v. split; [congruence|]. unfold hv, holder. cbn [loc status proc mk_thread]. reflexivity.
      - exists v. split; [congruence|]. unfold hv, holder. cbn [loc status proc set_proc].
        assert (E1 : started (proc t) = true) by (destruct (proc t); try discriminate; reflexivity).
        assert (E2 : started p' = true) by (destruct H2 as [H2|[c H2]]; [destruct p'; try discriminate; reflexivity|subst; reflexivity]).
        rewrite E1, E2. reflexivity.
      - exfalso. rewrite (l_outdead HLI) in H0. discriminate. }
    destruct Key as [v' [Hsl' Heq']]. exists v'. split; auto. rewrite Hthr. lia.
  - intros j scj tj Hfj. unfold tget. rewrite Hthr, get_upd.
    destruct (N.eqb_spec j i) as [->|Hne].
    + unfold tget in Ht. rewrite Ht. intros E; inversion E; subst tj. rewrite Hf in Hfj. inversion Hfj; subst. exact Hli'.
    + apply (l_thr HLI); auto.
Qed.

Lemma LInv_run_sched cfg sch : forall s, Live cfg -> Inv cfg s -> LInv cfg s -> LInv cfg (run_sched cfg s sch).
Proof.
  induction sch as [|x r IH]; cbn [run_sched]; auto.
  intros s HL HI HLI. unfold step_fn. destruct (step_ex cfg s x) as [[s1 b]|] eqn:E; auto.
  apply IH; auto.
  - eapply Inv_step; eauto.
  - eapply LInv_step; eauto.
Qed.

Lemma LInv_run cfg sch s : Live cfg -> run cfg sch = Accepted s -> LInv cfg s.
Proof.
  intros HL Hrun. unfold run in Hrun. destruct (init cfg) as [r|s0] eqn:E; [discriminate|]. inversion Hrun; subst.
  apply LInv_run_sched; auto. apply Inv_init; auto. apply LInv_init; auto.
Qed.

(* ---------------------------------------------------------------------------------------- *)
(* no deadlock                                                                              *)
(* ---------------------------------------------------------------------------------------- *)
Lemma handler_no_resend cfg s sc t : fix_atomic_acquire cfg = true -> handler cfg s sc t <> HResend.
Proof.
  intros Hat H. unfold handler, compare_outcome, goto in H. rewrite Hat in H.
  destruct (loc t) as [st ev]; destruct st; destruct ev as [[]|]; cbn [fst snd] in H;
    repeat break_match_hyp; discriminate H.
Qed.

Lemma handler_poll_false_cases cfg s sc t p :
  fix_atomic_acquire cfg = true -> fixed_P12 cfg = true -> loc_okb (loc t) = true ->
  handler cfg s sc t = HPoll p false ->
  (loc t = (WaitingDependencySteps, Some DependencyStepsRunning) /\
   forallb is_terminal (map (bull_of s) (deps_of cfg sc)) = false) \/
  (loc t = (WaitingToRun, Some ProcessPoolFull) /\ N.ltb 0 (slot_val cfg s (s_id sc)) = false) \/
  (is_running (proc t) = true) \/
  (is_terminal (loc t) = true).
Proof.
  intros Hat H12 Hlok H. unfold handler, compare_outcome, goto in H. rewrite Hat, H12 in H. cbn [andb] in H.
  destruct (loc t) as [st ev] eqn:Hl; destruct st; destruct ev as [[]|]; cbn [fst snd] in H;
    try discriminate Hlok;
    repeat break_match_hyp; try discriminate H.
  all: try (right; right; right; reflexivity).
  all: try (right; right; left; reflexivity).
  all: try (right; left; split; reflexivity).
  all: try (left; split; reflexivity).
Qed.

Lemma thr_dec (P : thread -> bool) (m : list (step * thread)) :
  (exists k t, In (k, t) m /\ P t = true) \/ (forall k t, In (k, t) m -> P t = false).
Proof.
  induction m as [|[k t] r IH].
  - right. intros k t [].
  - destruct (P t) eqn:E.
    + left. exists k, t. split; [left; reflexivity|exact E].
    + destruct IH as [[k' [t' [Hin Hp]]]|IH].
      * left. exists k', t'. split; [right; exact Hin|exact Hp].
      * right. intros k' t' [Hx|Hx]; [inversion Hx; subst; exact E|eauto].
Qed.

Lemma progress_bulletin cfg s i t x r :
  tget (thr s) i = Some t -> chan t = x :: r -> progressb cfg s (Bulletin i) = true.
Proof. intros Ht Hc. unfold progressb. cbn [step_ex]. rewrite Ht, Hc. reflexivity. Qed.

Lemma progress_send cfg s i sc t :
  find_step (c_steps cfg) i = Some sc -> tget (thr s) i = Some t -> status t = TRun -> ph t = PSend ->
  progressb cfg s (Step i) = true.
Proof.
  intros Hf Ht Hs Hp. unfold progressb. cbn [step_ex]. rewrite Hf, Ht, Hs, Hp.
  destruct (is_terminal (loc t)); reflexivity.
Qed.

Lemma progress_next cfg s i sc t l p sl :
  find_step (c_steps cfg) i = Some sc -> tget (thr s) i = Some t -> status t = TRun -> ph t = PAct ->
  handler cfg s sc t = HNext l p sl -> progressb cfg s (Step i) = true.
Proof. intros Hf Ht Hs Hp Hh. unfold progressb. cbn [step_ex]. rewrite Hf, Ht, Hs, Hp, Hh. reflexivity. Qed.

Lemma progress_poll cfg s i sc t p :
  find_step (c_steps cfg) i = Some sc -> tget (thr s) i = Some t -> status t = TRun -> ph t = PAct ->
  handler cfg s sc t = HPoll p true -> progressb cfg s (Step i) = true.
Proof. intros Hf Ht Hs Hp Hh. unfold progressb. cbn [step_ex]. rewrite Hf, Ht, Hs, Hp, Hh. reflexivity. Qed.

Lemma deps_in_ids cfg s0 sc j :
  init cfg = Accepted s0 -> In sc (c_steps cfg) -> In j (deps_of cfg sc) -> In j (step_ids cfg).
Proof.
  unfold init. destruct (negb (wf_cfg cfg)); [discriminate|].
  destruct (forallb (fun sc0 => forallb (fun j0 => mem j0 (step_ids cfg)) (explicit_targets sc0)) (c_steps cfg)) eqn:Hex; cbn [negb]; [|discriminate].
  intros _ Hsc Hj. unfold deps_of in Hj. apply (proj1 (nodupN_In _ _)) in Hj. apply in_app_or in Hj. destruct Hj as [Hj|Hj].
  - rewrite forallb_forall in Hex. specialize (Hex _ Hsc). rewrite forallb_forall in Hex. apply mem_In. auto.
  - unfold implicit_targets in Hj. apply in_flat_map in Hj. destruct Hj as [p [Hp Hj]].
    destruct (reads_output_of cfg sc p); [|destruct Hj]. destruct Hj as [<-|[]]. unfold step_ids. apply in_map; auto.
Qed.

Lemma cnt_pos_exists {V} (f : V -> bool) (m : list (N * V)) :
  (0 < cnt f m)%nat -> exists k v, In (k, v) m /\ f v = true.
Proof.
  unfold cnt. induction m as [|[k v] r IH]; cbn [filter snd length]; [lia|].
  destruct (f v) eqn:E.
  - intros _. exists k, v. split; [left; reflexivity|exact E].
  - intros H. destruct (IH H) as [k' [v' [Hin Hf]]]. exists k', v'. split; [right; exact Hin|exact Hf].
Qed.

Definition rank_in (ord : list step) (i : step) : nat := match index_of i ord with Some b => b | None => O end.

Section NoDeadlock.
Variable cfg : config.
Variable s : gstate.
Variable s0 : gstate.
Variable ord : list step.
Hypothesis HL : Live cfg.
Hypothesis Hinit : init cfg = Accepted s0.
Hypothesis HI : Inv cfg s.
Hypothesis HLI : LInv cfg s.
Hypothesis Htopo : check_topo ord (edges cfg) = true.
(* the bulletin has caught up, no thread is about to send, no process is alive *)
Hypothesis Hchan : forall k t, tget (thr s) k = Some t -> chan t = [].
Hypothesis Hact : forall k t, tget (thr s) k = Some t -> status t = TRun -> ph t = PAct.
Hypothesis Hnorun : forall k t, tget (thr s) k = Some t -> is_running (proc t) = false.

Lemma nd_find k t : tget (thr s) k = Some t -> exists sc, find_step (c_steps cfg) k = Some sc.
Proof.
  intros Ht. apply find_step_some. change (map s_id (c_steps cfg)) with (step_ids cfg).
  rewrite <- (inv_keys HI). eapply get_In_keys; eauto.
Qed.

Lemma nd_bull_is_loc k t : tget (thr s) k = Some t -> bull t = loc t.
Proof.
  intros Ht. destruct (nd_find _ _ Ht) as [sc Hf]. pose proof (l_thr HLI _ _ _ Hf Ht) as Hli.
  assert (Hx : ph t = PAct \/ status t = TFin).
  { destruct (li_status Hli) as [E|E]; [left; eauto|right; exact E]. }
  pose proof (li_sync Hli Hx) as E. rewrite (Hchan _ _ Ht) in E. exact E.
Qed.

Lemma nd_holder_progress k h :
  tget (thr s) k = Some h -> holder h = true -> progressb cfg s (Step k) = true.
Proof.
  intros Hk Hh. destruct (nd_find _ _ Hk) as [sc Hf]. pose proof (l_thr HLI _ _ _ Hf Hk) as Hli.
  pose proof (inv_thr HI _ _ Hk) as Hti.
  unfold holder in Hh. apply andb_true_iff in Hh. destruct Hh as [HR _].
  assert (Hst : status h = TRun).
  { destruct (li_status Hli) as [E|E]; auto. pose proof (ti_fin Hti E) as Hterm.
    unfold is_Running, is_terminal, is_done, is_broken in *. destruct (fst (loc h)); discriminate. }
  pose proof (Hact _ _ Hk Hst) as Hph.
  assert (Hin : In sc (c_steps cfg)) by (apply find_step_id in Hf; tauto).
  pose proof (can_die_of_known _ _ (lv_err HL) Hin) as Hcd.
  destruct (handler cfg s sc h) as [l p sl| |p ch|panic p sl] eqn:Hh.
  - eapply progress_next; eauto.
  - exfalso. eapply handler_no_resend; eauto. apply (lv_atomic HL).
  - destruct ch; [eapply progress_poll; eauto|]. exfalso.
    destruct (handler_poll_false_cases _ _ _ _ _ (lv_atomic HL) (lv_p12 HL) (li_loc Hli) Hh) as [[El _]|[[El _]|[Hr|Hterm]]].
    + rewrite El in HR. discriminate.
    + rewrite El in HR. discriminate.
    + rewrite (Hnorun _ _ Hk) in Hr. discriminate.
    + rewrite (ti_act Hti Hph Hst) in Hterm. discriminate.
  - exfalso. eapply handler_no_die; eauto. apply (lv_atomic HL). apply (li_loc Hli). apply (li_wait Hli).
Qed.

Lemma nd_thread_progress : forall n i t,
  (rank_in ord i <= n)%nat -> tget (thr s) i = Some t -> status t = TRun ->
  exists x, progressb cfg s x = true.
Proof.
  induction n as [|n IH].
  - (* rank 0: the same argument, without dependency steps that could still be running *)
    intros i t Hr Ht Hst. destruct (nd_find _ _ Ht) as [sc Hf]. pose proof (l_thr HLI _ _ _ Hf Ht) as Hli.
    pose proof (inv_thr HI _ _ Ht) as Hti. pose proof (Hact _ _ Ht Hst) as Hph.
    assert (Hin : In sc (c_steps cfg)) by (apply find_step_id in Hf; tauto).
    assert (Eid : s_id sc = i) by (apply find_step_id in Hf; tauto).
    destruct (handler cfg s sc t) as [l p sl| |p ch|panic p sl] eqn:Hh.
    + exists (Step i). eapply progress_next; eauto.
    + exfalso. eapply handler_no_resend; eauto. apply (lv_atomic HL).
    + destruct ch; [exists (Step i); eapply progress_poll; eauto|].
      destruct (handler_poll_false_cases _ _ _ _ _ (lv_atomic HL) (lv_p12 HL) (li_loc Hli) Hh) as [[El Hnt]|[[El Hsl]|[Hrun|Hterm]]].
      * exfalso. (* a dependency step of i would have a smaller rank *)
        rewrite forallb_map in Hnt.
        assert (Hex : exists j, In j (deps_of cfg sc) /\ is_terminal (bull_of s j) = false).
        { clear - Hnt. induction (deps_of cfg sc) as [|a r IHr]; cbn [forallb] in Hnt; [discriminate|].
          destruct (is_terminal (bull_of s a)) eqn:E; [destruct (IHr Hnt) as [j [Hj1 Hj2]]; exists j; split; [right; auto|auto]|exists a; split; [left; auto|auto]]. }
        destruct Hex as [j [Hj _]].
        assert (He : In (i, j) (edges cfg)) by (apply edges_deps; exists sc; auto).
        unfold check_topo in Htopo. rewrite forallb_forall in Htopo. specialize (Htopo _ He). cbn [fst snd] in Htopo.
        unfold rank_in in Hr. destruct (index_of j ord); [|discriminate]. destruct (index_of i ord); [|discriminate].
        apply Nat.ltb_lt in Htopo. lia.
      * (* pool full: some thread holds a slot and can move *)
        destruct (l_slots HLI) as [v [Hsl0 Heq]].
        assert (Ev : v = 0).
        { unfold slot_val, skey in Hsl. rewrite (lv_shared HL), Hsl0 in Hsl. cbn [nget get N.eqb] in Hsl. apply N.ltb_ge in Hsl. lia. }
        assert (Hpos : (0 < cnt holder (thr s))%nat) by (pose proof (lv_pool HL); lia).
        destruct (cnt_pos_exists _ _ Hpos) as [k [h [Hink Hh']]].
        assert (Hnd : NoDup (map fst (thr s))) by (rewrite (inv_keys HI); apply (inv_nodup HI)).
        exists (Step k). eapply nd_holder_progress; eauto. apply In_pair_get; auto.
      * rewrite (Hnorun _ _ Ht) in Hrun. discriminate.
      * rewrite (ti_act Hti Hph Hst) in Hterm. discriminate.
    + exfalso. eapply handler_no_die; eauto. apply (lv_atomic HL). apply can_die_of_known; auto. apply (lv_err HL).
      apply (li_loc Hli). apply (li_wait Hli).
  - intros i t Hr Ht Hst. destruct (nd_find _ _ Ht) as [sc Hf]. pose proof (l_thr HLI _ _ _ Hf Ht) as Hli.
    pose proof (inv_thr HI _ _ Ht) as Hti. pose proof (Hact _ _ Ht Hst) as Hph.
    assert (Hin : In sc (c_steps cfg)) by (apply find_step_id in Hf; tauto).
    assert (Eid : s_id sc = i) by (apply find_step_id in Hf; tauto).
    destruct (handler cfg s sc t) as [l p sl| |p ch|panic p sl] eqn:Hh.
    + exists (Step i). eapply progress_next; eauto.
    + exfalso. eapply handler_no_resend; eauto. apply (lv_atomic HL).
    + destruct ch; [exists (Step i); eapply progress_poll; eauto|].
      destruct (handler_poll_false_cases _ _ _ _ _ (lv_atomic HL) (lv_p12 HL) (li_loc Hli) Hh) as [[El Hnt]|[[El Hsl]|[Hrun|Hterm]]].
      * rewrite forallb_map in Hnt.
        assert (Hex : exists j, In j (deps_of cfg sc) /\ is_terminal (bull_of s j) = false).
        { clear - Hnt. induction (deps_of cfg sc) as [|a r IHr]; cbn [forallb] in Hnt; [discriminate|].
          destruct (is_terminal (bull_of s a)) eqn:E; [destruct (IHr Hnt) as [j [Hj1 Hj2]]; exists j; split; [right; auto|auto]|exists a; split; [left; auto|auto]]. }
        destruct Hex as [j [Hj Hjnt]].
        assert (He : In (i, j) (edges cfg)) by (apply edges_deps; exists sc; auto).
        assert (Hrank : (rank_in ord j <= n)%nat).
        { unfold check_topo in Htopo. rewrite forallb_forall in Htopo. specialize (Htopo _ He). cbn [fst snd] in Htopo.
          unfold rank_in in *. destruct (index_of j ord); [|discriminate]. destruct (index_of i ord); [|discriminate].
          apply Nat.ltb_lt in Htopo. lia. }
        assert (Hjid : In j (step_ids cfg)) by (eapply deps_in_ids; eauto).
        rewrite <- (inv_keys HI) in Hjid. destruct (In_keys_get _ _ _ Hjid) as [tj Htj].
        assert (Hbl : bull_of s j = loc tj).
        { unfold bull_of, tget. rewrite Htj. apply (nd_bull_is_loc j). exact Htj. }
        rewrite Hbl in Hjnt.
        destruct (nd_find _ _ Htj) as [scj Hfj]. pose proof (l_thr HLI _ _ _ Hfj Htj) as Hlij.
        destruct (li_status Hlij) as [Es|Es].
        -- eapply IH; eauto.
        -- pose proof (ti_fin (inv_thr HI _ _ Htj) Es) as Hx. rewrite Hx in Hjnt. discriminate.
      * destruct (l_slots HLI) as [v [Hsl0 Heq]].
        assert (Ev : v = 0).
        { unfold slot_val, skey in Hsl. rewrite (lv_shared HL), Hsl0 in Hsl. cbn [nget get N.eqb] in Hsl. apply N.ltb_ge in Hsl. lia. }
        assert (Hpos : (0 < cnt holder (thr s))%nat) by (pose proof (lv_pool HL); lia).
        destruct (cnt_pos_exists _ _ Hpos) as [k [h [Hink Hh']]].
        assert (Hnd : NoDup (map fst (thr s))) by (rewrite (inv_keys HI); apply (inv_nodup HI)).
        exists (Step k). eapply nd_holder_progress; eauto. apply In_pair_get; auto.
      * rewrite (Hnorun _ _ Ht) in Hrun. discriminate.
      * rewrite (ti_act Hti Hph Hst) in Hterm. discriminate.
    + exfalso. eapply handler_no_die; eauto. apply (lv_atomic HL). apply can_die_of_known; auto. apply (lv_err HL).
      apply (li_loc Hli). apply (li_wait Hli).
Qed.
End NoDeadlock.

Lemma big_stderr_false cfg sc code out err :
  Known_big_stderr cfg = false -> In sc (c_steps cfg) -> s_proc sc = Exits code out err -> err <= c_cap cfg.
Proof.
  unfold Known_big_stderr. intros H Hin Hs.
  destruct (N.ltb_spec (c_cap cfg) err) as [Hlt|Hge]; auto. exfalso.
  assert (existsb (fun sc0 => match s_proc sc0 with Exits _ _ err0 => c_cap cfg <? err0 | CannotStart => false end) (c_steps cfg) = true).
  { apply existsb_exists. exists sc. split; auto. rewrite Hs. apply N.ltb_lt; auto. }
  congruence.
Qed.

Lemma nd_running_progress cfg s k t :
  Live cfg -> Inv cfg s -> LInv cfg s ->
  tget (thr s) k = Some t -> is_running (proc t) = true -> exists x, progressb cfg s x = true.
Proof.
  intros HL HI HLI Ht Hrun.
  assert (Hin0 : In k (map s_id (c_steps cfg))).
  { change (map s_id (c_steps cfg)) with (step_ids cfg). rewrite <- (inv_keys HI). eapply get_In_keys; eauto. }
  destruct (find_step_some _ _ Hin0) as [sc Hf].
  pose proof (l_thr HLI _ _ _ Hf Ht) as Hli. pose proof (inv_thr HI _ _ Ht) as Hti.
  assert (Hin : In sc (c_steps cfg)) by (apply find_step_id in Hf; tauto).
  pose proof (ti_run Hti Hrun) as HR.
  assert (Hst : status t = TRun).
  { destruct (li_status Hli) as [E|E]; auto. pose proof (ti_fin Hti E) as Hterm.
    unfold is_terminal, is_done, is_broken in Hterm. rewrite HR in Hterm. discriminate. }
  destruct (ph t) eqn:Hph; [exists (Step k); eapply progress_send; eauto|].
  destruct (proc t) as [|o e ofl efl|c] eqn:Hp; try discriminate.
  destruct (li_proc Hli _ _ _ _ Hp) as [code [out [err [Hsp Hle]]]].
  assert (Hloc : loc t = (Running, Some WaitProcess)).
  { assert (Has : after_start (loc t) = true) by (apply (ti_started Hti); auto; rewrite Hp; reflexivity).
    pose proof (li_loc Hli) as Hlok. destruct (loc t) as [st ev]. cbn [fst] in HR. subst st.
    destruct ev as [[]|]; try discriminate Has; try discriminate Hlok. reflexivity. }
  assert (Hdrain : (negb (ofl =? 0) || negb (efl =? (if fixed_P13 cfg then 0 else efl)))%bool = true -> progressb cfg s (Step k) = true).
  { intros Hch. unfold progressb. cbn [step_ex]. rewrite Hf, Ht, Hst, Hph. unfold handler. rewrite Hloc, Hp. rewrite Hch. reflexivity. }
  pose proof (lv_cap HL) as Hcap.
  destruct (N.ltb_spec 0 o) as [Ho|Ho].
  - destruct (N.ltb_spec ofl (c_cap cfg)) as [Hofl|Hofl].
    + exists (Proc k). unfold progressb. cbn [step_ex]. rewrite Hf, Ht, Hp, Hsp.
      destruct (N.ltb_spec 0 o); [|lia]. destruct (N.ltb_spec ofl (c_cap cfg)); [|lia]. reflexivity.
    + exists (Step k). apply Hdrain. destruct (N.eqb_spec ofl 0); [lia|reflexivity].
  - destruct (N.ltb_spec 0 e) as [He|He].
    + destruct (N.ltb_spec efl (c_cap cfg)) as [Hefl|Hefl].
      * exists (Proc k). unfold progressb. cbn [step_ex]. rewrite Hf, Ht, Hp, Hsp.
        destruct (N.ltb_spec 0 o); [lia|]. destruct (N.ltb_spec 0 e); [|lia]. destruct (N.ltb_spec efl (c_cap cfg)); [|lia]. reflexivity.
      * destruct (fixed_P13 cfg) eqn:H13.
        -- exists (Step k). apply Hdrain. destruct (N.eqb_spec efl 0); [lia|]. apply orb_true_r.
        -- exfalso. destruct (lv_p13 HL) as [Hx|Hx]; [congruence|].
           pose proof (big_stderr_false _ _ _ _ _ Hx Hin Hsp). specialize (Hle eq_refl). lia.
    + exists (Proc k). unfold progressb. cbn [step_ex]. rewrite Hf, Ht, Hp, Hsp.
      destruct (N.ltb_spec 0 o); [lia|]. destruct (N.ltb_spec 0 e); [lia|]. reflexivity.
Qed.

Lemma toposort_check cfg : acyclicb cfg = true -> exists ord, check_topo ord (edges cfg) = true.
Proof.
  unfold acyclicb, toposort. destruct (topo _ _ _ _) as [ord|]; [|discriminate].
  destruct (check_topo ord (edges cfg)) eqn:E; [|discriminate]. eauto.
Qed.

Lemma init_acyclic cfg s0 : init cfg = Accepted s0 -> acyclicb cfg = true.
Proof.
  unfold init. destruct (negb (wf_cfg cfg)); [discriminate|].
  destruct (negb (forallb _ _)); [discriminate|]. destruct (acyclicb cfg); auto. discriminate.
Qed.

Lemma no_deadlock_inv cfg s0 s :
  Live cfg -> init cfg = Accepted s0 -> Inv cfg s -> LInv cfg s ->
  all_doneb s = false -> exists x, progressb cfg s x = true.
Proof.
  intros HL Hinit HI HLI Hnd.
  destruct (toposort_check _ (init_acyclic _ _ Hinit)) as [ord Htopo].
  assert (Hnodup : NoDup (map fst (thr s))) by (rewrite (inv_keys HI); apply (inv_nodup HI)).
  assert (Hfind : forall k t, tget (thr s) k = Some t -> exists sc, find_step (c_steps cfg) k = Some sc).
  { intros k t Ht. apply find_step_some. change (map s_id (c_steps cfg)) with (step_ids cfg).
    rewrite <- (inv_keys HI). eapply get_In_keys; eauto. }
  destruct (thr_dec (fun t => match chan t with [] => false | _ => true end) (thr s)) as [[k [t [Hin Hp]]]|Hchan].
  { destruct (chan t) as [|x r] eqn:Hc; [discriminate|]. exists (Bulletin k). eapply progress_bulletin; eauto. apply In_pair_get; auto. }
  assert (Hchan' : forall k t, tget (thr s) k = Some t -> chan t = []).
  { intros k t Ht. specialize (Hchan _ _ (get_In_pair _ _ _ _ Ht)). destruct (chan t); [reflexivity|discriminate]. }
  destruct (thr_dec (fun t => is_TRun (status t) && match ph t with PSend => true | PAct => false end) (thr s)) as [[k [t [Hin Hp]]]|Hact].
  { apply andb_true_iff in Hp. destruct Hp as [Hp1 Hp2].
    assert (Ht : tget (thr s) k = Some t) by (apply In_pair_get; auto).
    destruct (Hfind _ _ Ht) as [sc Hf]. exists (Step k). eapply progress_send; eauto.
    - destruct (status t); try discriminate; reflexivity.
    - destruct (ph t); try discriminate; reflexivity. }
  assert (Hact' : forall k t, tget (thr s) k = Some t -> status t = TRun -> ph t = PAct).
  { intros k t Ht Hst. specialize (Hact _ _ (get_In_pair _ _ _ _ Ht)). rewrite Hst in Hact. cbn [is_TRun andb] in Hact.
    destruct (ph t); [discriminate|reflexivity]. }
  destruct (thr_dec (fun t => is_running (proc t)) (thr s)) as [[k [t [Hin Hp]]]|Hnorun].
  { eapply nd_running_progress; eauto. apply In_pair_get; eauto. }
  assert (Hnorun' : forall k t, tget (thr s) k = Some t -> is_running (proc t) = false).
  { intros k t Ht. apply (Hnorun _ _ (get_In_pair _ _ _ _ Ht)). }
  (* some thread is still running *)
  unfold all_doneb in Hnd.
  assert (Hex : exists k t, In (k, t) (thr s) /\ thread_doneb t = false).
  { clear - Hnd. induction (thr s) as [|[k t] r IH]; cbn [forallb snd] in Hnd; [discriminate|].
    destruct (thread_doneb t) eqn:E.
    - destruct (IH Hnd) as [k' [t' [H1 H2]]]. exists k', t'. split; [right; auto|auto].
    - exists k, t. split; [left; auto|auto]. }
  destruct Hex as [k [t [Hin Hd]]].
  assert (Ht : tget (thr s) k = Some t) by (apply In_pair_get; auto).
  destruct (Hfind _ _ Ht) as [sc Hf]. pose proof (l_thr HLI _ _ _ Hf Ht) as Hli.
  assert (Hst : status t = TRun).
  { destruct (li_status Hli) as [E|E]; auto. unfold thread_doneb in Hd. rewrite E, (Hchan' _ _ Ht) in Hd. discriminate. }
  eapply (nd_thread_progress cfg s s0 ord HL Hinit HI HLI Htopo Hchan' Hact' Hnorun' (rank_in ord k) k t); auto.
Qed.

Lemma no_deadlock_lemma cfg sch s :
  Live cfg -> run cfg sch = Accepted s -> all_doneb s = false -> exists x, progressb cfg s x = true.
Proof.
  intros HL Hrun Hnd.
  assert (Hinit : exists s0, init cfg = Accepted s0).
  { unfold run in Hrun. destruct (init cfg) as [r|s0]; [discriminate|eauto]. }
  destruct Hinit as [s0 Hinit].
  eapply no_deadlock_inv; eauto. eapply Inv_run; eauto. eapply LInv_run; eauto.
Qed.

Lemma progress_in_all_tids cfg s x : Inv cfg s -> progressb cfg s x = true -> In x (all_tids cfg).
Proof.
  intros HI Hx. unfold progressb in Hx. destruct (step_ex cfg s x) as [[s' b]|] eqn:Hs; [|discriminate].
  destruct (step_ex_cases _ _ _ _ _ Hs) as [t [t' [Ht _]]].
  assert (Hk : In (tid_step x) (step_ids cfg)) by (rewrite <- (inv_keys HI); eapply get_In_keys; eauto).
  unfold all_tids. apply in_flat_map. exists (tid_step x). split; auto.
  destruct x; cbn [tid_step In]; auto.
Qed.

Lemma not_stuck_lemma cfg sch s : Live cfg -> run cfg sch = Accepted s -> stuckb cfg s = false.
Proof.
  intros HL Hrun. unfold stuckb. destruct (all_doneb s) eqn:Hd; [reflexivity|]. cbn [negb andb].
  destruct (no_deadlock_lemma _ _ _ HL Hrun Hd) as [x Hx].
  destruct (forallb (fun x0 => negb (progressb cfg s x0)) (all_tids cfg)) eqn:E; auto. exfalso.
  rewrite forallb_forall in E.
  (* x is one of all_tids: its step is a key of thr s *)
  assert (Hin : In x (all_tids cfg)).
  { unfold progressb in Hx. destruct (step_ex cfg s x) as [[s' b]|] eqn:Hs; [|discriminate].
    destruct (step_ex_cases _ _ _ _ _ Hs) as [t [t' [Ht _]]].
    pose proof (Inv_run _ _ _ Hrun) as HI.
    assert (Hk : In (tid_step x) (step_ids cfg)) by (rewrite <- (inv_keys HI); eapply get_In_keys; eauto).
    unfold all_tids. apply in_flat_map. exists (tid_step x). split; auto.
    destruct x; cbn [tid_step In]; auto. }
  specialize (E _ Hin). rewrite Hx in E. discriminate.
Qed.

(* ---------------------------------------------------------------------------------------- *)
(* the progress measure                                                                     *)
(* ---------------------------------------------------------------------------------------- *)
Definition rank (l : lstate) : N :=
  match l with
  | (Begin, _) => 12
  | (WaitingDependencySteps, Some RunConditional) => 11
  | (WaitingDependencySteps, _) => 10
  | (CheckingOutputs, _) => 9
  | (CheckingSuperficialDiffs, _) => 8
  | (CheckingThoroughDiffs, _) => 7
  | (ComparingDiffsAndOutputs, _) => 6
  | (WaitingToRun, Some ProcessPoolFull) => 4
  | (WaitingToRun, _) => 5
  | (Running, Some StartProcess) => 3
  | (Running, _) => 2
  | _ => 0
  end.

Definition phase_weight (t : thread) : N :=
  match status t, ph t with TRun, PSend => 3 | TRun, PAct => 1 | _, _ => 0 end.
Definition tweight (t : thread) : N := 4 * rank (loc t) + phase_weight t + N.of_nat (length (chan t)).
(* what the command of the step still has to do *)
Definition pwork (sc : stepcfg) (p : pstate) : N :=
  match p with
  | NotStarted => match s_proc sc with Exits _ o e => 2 * (o + e) + 2 | CannotStart => 0 end
  | PRunning o e ofl efl => 2 * (o + e) + ofl + efl + 1
  | Exited _ => 0
  end.
Definition tmeasure (cfg : config) (i : step) (t : thread) : N :=
  tweight t + match find_step (c_steps cfg) i with Some sc => pwork sc (proc t) | None => 0 end.
Fixpoint msum (f : step -> thread -> N) (m : list (step * thread)) : N :=
  match m with [] => 0 | (k, t) :: r => f k t + msum f r end.
Definition measure (cfg : config) (s : gstate) : N := msum (tmeasure cfg) (thr s).

Lemma msum_upd f m k t t0 :
  NoDup (map fst m) -> get N.eqb m k = Some t0 -> msum f (upd m k t) + f k t0 = msum f m + f k t.
Proof.
  induction m as [|[k' t'] r IH]; cbn [upd get map fst msum]; [discriminate|].
  intros Hnd Hg. inversion Hnd; subst.
  destruct (N.eqb_spec k' k) as [->|Hne].
  - inversion Hg; subst. cbn [msum]. lia.
  - cbn [msum]. specialize (IH H2 Hg). lia.
Qed.

Lemma handler_rank cfg s sc t l p sl : handler cfg s sc t = HNext l p sl -> rank l < rank (loc t).
Proof. intros H. hyp_cases H t; cbn [rank]; lia. Qed.

Lemma handler_pwork cfg s sc t l p sl :
  handler cfg s sc t = HNext l p sl -> (started (proc t) = true -> after_start (loc t) = true) ->
  pwork sc p <= pwork sc (proc t).
Proof.
  intros H. hyp_cases H t; intros Hs; try lia.
  all: destruct (proc t) eqn:Hp; try (specialize (Hs eq_refl); discriminate Hs).
  all: cbn [pwork]; match goal with Hx : s_proc _ = _ |- _ => rewrite Hx end; lia.
Qed.

Lemma handler_poll_work cfg s sc t p :
  handler cfg s sc t = HPoll p true -> pwork sc p < pwork sc (proc t).
Proof.
  intros H. hyp_cases H t.
  all: cbn [pwork].
  all: match goal with Hb : (_ || _)%bool = true |- _ => apply orb_true_iff in Hb; destruct Hb as [Hb|Hb]; apply negb_true_iff in Hb; apply N.eqb_neq in Hb end.
  all: try lia.
  all: destruct (fixed_P13 cfg); try lia; congruence.
Qed.

Lemma tmeasure_progress cfg s i sc t t' sl od :
  Live cfg -> find_step (c_steps cfg) i = Some sc -> outdead s = false ->
  tinv0 t -> linv cfg sc t -> tcase cfg s i t t' sl od true -> tmeasure cfg i t' < tmeasure cfg i t.
Proof.
  intros HL Hf Hod Hti Hli Hc. unfold tmeasure. rewrite Hf.
  assert (Hin : In sc (c_steps cfg)) by (apply find_step_id in Hf; tauto).
  remember true as bb eqn:Hbb. destruct Hc; subst; try discriminate Hbb; unfold tweight, phase_weight.
  - (* send *)
    cbn [loc ph status chan bull proc mk_thread]. rewrite H, H0, app_length. cbn [length].
    destruct (is_terminal (loc t)); lia.
  - (* next *)
    rewrite Hf in H; inversion H; subst sc0.
    cbn [loc ph status chan bull proc mk_thread]. rewrite H0, H1.
    pose proof (handler_rank _ _ _ _ _ _ _ H2). pose proof (handler_pwork _ _ _ _ _ _ _ H2 (ti_started Hti H0)). lia.
  - (* poll, changed *)
    rewrite Hf in H; inversion H; subst sc0.
    cbn [loc ph status chan bull proc mk_thread]. rewrite H0, H1.
    pose proof (handler_poll_work _ _ _ _ _ H2). lia.
  - (* die: impossible *)
    exfalso. rewrite Hf in H; inversion H; subst sc0.
    eapply handler_no_die; eauto; [apply (lv_atomic HL)| |apply (li_loc Hli)|apply (li_wait Hli)].
    apply can_die_of_known; auto. apply (lv_err HL).
  - (* bulletin *)
    cbn [loc ph status chan bull proc mk_thread]. rewrite H. cbn [length]. lia.
  - (* proc *)
    cbn [loc ph status chan bull proc set_proc].
    destruct H2 as [H2|[c ->]].
    + destruct p' as [|o' e' ofl' efl'|]; try discriminate.
      destruct (H3 _ _ _ _ eq_refl) as [o [e [ofl [efl [Ep [E1 [E2 E3]]]]]]]. rewrite Ep. cbn [pwork]. lia.
    + destruct (proc t); try discriminate. cbn [pwork]. lia.
  - (* crash: impossible *)
    congruence.
Qed.

Lemma progress_decreases_lemma cfg s x s' :
  Live cfg -> Inv cfg s -> LInv cfg s -> step_ex cfg s x = Some (s', true) -> measure cfg s' < measure cfg s.
Proof.
  intros HL HI HLI Hs.
  destruct (step_ex_cases _ _ _ _ _ Hs) as [t [t' [Ht [Hthr Hc]]]].
  set (i := tid_step x) in *.
  assert (Hin : In i (map s_id (c_steps cfg))).
  { change (map s_id (c_steps cfg)) with (step_ids cfg). rewrite <- (inv_keys HI). eapply get_In_keys; eauto. }
  destruct (find_step_some _ _ Hin) as [sc Hf].
  assert (Hnd : NoDup (map fst (thr s))) by (rewrite (inv_keys HI); apply (inv_nodup HI)).
  pose proof (tmeasure_progress _ _ _ _ _ _ _ _ HL Hf (l_outdead HLI) (inv_thr HI _ _ Ht) (l_thr HLI _ _ _ Hf Ht) Hc) as Hlt.
  pose proof (msum_upd (tmeasure cfg) (thr s) i t' t Hnd Ht) as E.
  unfold measure. rewrite Hthr. lia.
Qed.

(* a polling turn that changes nothing leaves the state as it is *)
Lemma thread_eta t : mk_thread (loc t) (ph t) (status t) (chan t) (bull t) (proc t) = t.
Proof. destruct t; reflexivity. Qed.

Lemma stutter_keeps_state_lemma cfg s x s' :
  fix_atomic_acquire cfg = true -> step_ex cfg s x = Some (s', false) -> s' = s.
Proof.
  intros Hat Hs.
  destruct (step_ex_cases _ _ _ _ _ Hs) as [t [t' [Ht [Hthr Hc]]]].
  remember false as bb eqn:Hbb. destruct Hc; subst; try discriminate Hbb.
  - exfalso. eapply handler_no_resend; eauto.
  - assert (Ep : p = proc t).
    { destruct (handler_poll_spec _ _ _ _ _ _ H2) as [E|[o [e [ofl [efl [Ep0 E]]]]]]; auto.
      revert H2. unfold handler. destruct (loc t) as [st ev]; destruct st; destruct ev as [[]|]; cbn [fst snd]; rewrite ?Ep0;
        unfold compare_outcome, goto; repeat break_match; try discriminate; intros Hx; inversion Hx; subst.
      all: try reflexivity.
      all: match goal with Hb : (_ || _)%bool = false |- _ => apply orb_false_iff in Hb; destruct Hb as [Hb1 Hb2];
             apply negb_false_iff in Hb1; apply negb_false_iff in Hb2; apply N.eqb_eq in Hb1; apply N.eqb_eq in Hb2 end.
      all: congruence. }
    subst p. rewrite <- H0, <- H1 in Hthr. rewrite thread_eta in Hthr.
    unfold tget in Ht. rewrite (upd_same _ _ _ _ Ht) in Hthr.
    destruct s as [th sl0 od0], s' as [th' sl' od']; cbn [thr slots outdead] in *; congruence.
Qed.

(* ---------------------------------------------------------------------------------------- *)
(* fair termination                                                                         *)
(* ---------------------------------------------------------------------------------------- *)
(* every window of K consecutive turns contains every thread id (the bulletin's Select
   eventually serves every ready channel, the OS eventually runs every thread) *)
Definition fair (K : nat) (tids sch : list tid) : Prop :=
  forall n, (n + K <= length sch)%nat -> forall x, In x tids -> In x (firstn K (skipn n sch)).

Lemma run_sched_app cfg a : forall s b, run_sched cfg s (a ++ b) = run_sched cfg (run_sched cfg s a) b.
Proof.
  induction a as [|x r IH]; intros s b; cbn [app run_sched]; auto.
  destruct (step_fn cfg s x); apply IH.
Qed.

Lemma done_no_step cfg s x : Inv cfg s -> LInv cfg s -> all_doneb s = true -> step_ex cfg s x = None.
Proof.
  intros HI HLI Hd. destruct (step_ex cfg s x) as [[s' b]|] eqn:Hs; auto. exfalso.
  destruct (step_ex_cases _ _ _ _ _ Hs) as [t [t' [Ht [_ Hc]]]].
  unfold all_doneb in Hd. rewrite forallb_forall in Hd.
  specialize (Hd _ (get_In_pair _ _ _ _ Ht)). cbn [snd] in Hd. unfold thread_doneb in Hd.
  destruct (status t) eqn:Hst; try discriminate. destruct (chan t) eqn:Hch; try discriminate.
  pose proof (inv_thr HI _ _ Ht) as Hti.
  destruct Hc; try congruence.
  all: try (pose proof (ti_run Hti H0) as HR; pose proof (ti_fin Hti Hst) as Hterm;
            unfold is_terminal, is_done, is_broken in Hterm; rewrite HR in Hterm; discriminate).
  all: try (rewrite (l_outdead HLI) in H0; discriminate).
Qed.

Lemma done_stable cfg w : forall s, Inv cfg s -> LInv cfg s -> all_doneb s = true -> run_sched cfg s w = s.
Proof.
  induction w as [|x r IH]; intros s HI HLI Hd; cbn [run_sched]; auto.
  unfold step_fn. rewrite (done_no_step _ _ x HI HLI Hd). auto.
Qed.

Lemma measure_step_le cfg s x s' b :
  Live cfg -> Inv cfg s -> LInv cfg s -> step_ex cfg s x = Some (s', b) -> measure cfg s' <= measure cfg s.
Proof.
  intros HL HI HLI Hs. destruct b.
  - pose proof (progress_decreases_lemma _ _ _ _ HL HI HLI Hs). lia.
  - rewrite (stutter_keeps_state_lemma _ _ _ _ (lv_atomic HL) Hs). lia.
Qed.

Lemma measure_run_le cfg w : forall s,
  Live cfg -> Inv cfg s -> LInv cfg s -> measure cfg (run_sched cfg s w) <= measure cfg s.
Proof.
  induction w as [|x r IH]; intros s HL HI HLI; cbn [run_sched]; [lia|].
  unfold step_fn. destruct (step_ex cfg s x) as [[s1 b]|] eqn:Hs; auto.
  pose proof (measure_step_le _ _ _ _ _ HL HI HLI Hs).
  assert (measure cfg (run_sched cfg s1 r) <= measure cfg s1).
  { apply IH; auto. eapply Inv_step; eauto. eapply LInv_step; eauto. }
  lia.
Qed.

Lemma window_progress cfg w : forall s x,
  Live cfg -> Inv cfg s -> LInv cfg s -> In x w -> progressb cfg s x = true ->
  measure cfg (run_sched cfg s w) < measure cfg s.
Proof.
  induction w as [|y r IH]; intros s x HL HI HLI Hin Hx; [destruct Hin|].
  cbn [run_sched]. unfold step_fn. destruct (step_ex cfg s y) as [[s1 b]|] eqn:Hs.
  - destruct b.
    + pose proof (progress_decreases_lemma _ _ _ _ HL HI HLI Hs).
      assert (measure cfg (run_sched cfg s1 r) <= measure cfg s1).
      { apply measure_run_le; auto. eapply Inv_step; eauto. eapply LInv_step; eauto. }
      lia.
    + pose proof (stutter_keeps_state_lemma _ _ _ _ (lv_atomic HL) Hs) as E. subst s1.
      destruct Hin as [->|Hin]; [unfold progressb in Hx; rewrite Hs in Hx; discriminate|].
      eapply IH; eauto.
  - destruct Hin as [->|Hin]; [unfold progressb in Hx; rewrite Hs in Hx; discriminate|].
    eapply IH; eauto.
Qed.

Lemma skipn_skipn_plus {A} (n k : nat) : forall l : list A, skipn n (skipn k l) = skipn (k + n) l.
Proof.
  induction k as [|k IH]; intros l; cbn [skipn plus]; auto.
  destruct l as [|a r]; [destruct n; reflexivity|apply IH].
Qed.

Lemma fair_skipn K tids sch : fair K tids sch -> fair K tids (skipn K sch).
Proof.
  unfold fair. intros H n Hn x Hx. rewrite skipn_length in Hn.
  rewrite skipn_skipn_plus. apply H; auto. lia.
Qed.

Lemma fair_termination_lemma cfg s0 K : Live cfg -> init cfg = Accepted s0 ->
  forall n s sch, Inv cfg s -> LInv cfg s -> measure cfg s <= N.of_nat n ->
  fair K (all_tids cfg) sch -> (K * (n + 1) <= length sch)%nat ->
  all_doneb (run_sched cfg s sch) = true.
Proof.
  intros HL Hinit. induction n as [|n IH]; intros s sch HI HLI Hm Hfair Hlen.
  - destruct (all_doneb s) eqn:Hd; [rewrite done_stable; auto|]. exfalso.
    destruct (no_deadlock_inv _ _ _ HL Hinit HI HLI Hd) as [x Hx].
    pose proof (progress_in_all_tids _ _ _ HI Hx) as Hin.
    assert (Hw : In x (firstn K (skipn 0 sch))) by (apply Hfair; auto; lia).
    cbn [skipn] in Hw.
    pose proof (window_progress _ _ _ _ HL HI HLI Hw Hx). lia.
  - destruct (all_doneb s) eqn:Hd; [rewrite done_stable; auto|].
    destruct (no_deadlock_inv _ _ _ HL Hinit HI HLI Hd) as [x Hx].
    pose proof (progress_in_all_tids _ _ _ HI Hx) as Hin.
    assert (Hw : In x (firstn K (skipn 0 sch))) by (apply Hfair; auto; lia).
    cbn [skipn] in Hw.
    pose proof (window_progress _ _ _ _ HL HI HLI Hw Hx) as Hlt.
    rewrite <- (firstn_skipn K sch), run_sched_app.
    apply IH.
    + apply Inv_run_sched; auto.
    + apply LInv_run_sched; auto.
    + lia.
    + apply fair_skipn; auto.
    + rewrite skipn_length. lia.
Qed.

Lemma all_done_verdicts_lemma cfg s i t :
  Inv cfg s -> all_doneb s = true -> tget (thr s) i = Some t -> is_terminal (loc t) = true /\ chan t = [].
Proof.
  intros HI Hd Ht. unfold all_doneb in Hd. rewrite forallb_forall in Hd.
  specialize (Hd _ (get_In_pair _ _ _ _ Ht)). cbn [snd] in Hd. unfold thread_doneb in Hd.
  destruct (status t) eqn:Hst; try discriminate. destruct (chan t); try discriminate.
  split; auto. apply (ti_fin (inv_thr HI _ _ Ht) Hst).
Qed.

(* ---------------------------------------------------------------------------------------- *)
(* run-level forms used by Props/C11.v                                                      *)
(* ---------------------------------------------------------------------------------------- *)
Lemma progress_decreases_run cfg sch s x s' :
  Live cfg -> run cfg sch = Accepted s -> step_ex cfg s x = Some (s', true) -> measure cfg s' < measure cfg s.
Proof.
  intros HL Hrun. exact (progress_decreases_lemma cfg s x s' HL (Inv_run cfg sch s Hrun) (LInv_run cfg sch s HL Hrun)).
Qed.

Lemma fair_termination_init cfg s0 K n sch :
  Live cfg -> init cfg = Accepted s0 -> measure cfg s0 <= N.of_nat n ->
  fair K (all_tids cfg) sch -> (K * (n + 1) <= length sch)%nat ->
  all_doneb (run_sched cfg s0 sch) = true.
Proof.
  intros HL Hinit. exact (fair_termination_lemma cfg s0 K HL Hinit n s0 sch (Inv_init cfg s0 Hinit) (LInv_init cfg s0 HL Hinit)).
Qed.

Lemma threads_end_only_with_verdict_lemma cfg sch s i sc t :
  Live cfg -> run cfg sch = Accepted s -> find_step (c_steps cfg) i = Some sc -> tget (thr s) i = Some t ->
  status t = TRun \/ (status t = TFin /\ is_terminal (loc t) = true).
Proof.
  intros HL Hrun Hf Ht. destruct (li_status (l_thr (LInv_run cfg sch s HL Hrun) i sc t Hf Ht)) as [E|E]; [left; exact E|right].
  split; [exact E|]. exact (ti_fin (inv_thr (Inv_run cfg sch s Hrun) i t Ht) E).
Qed.

Lemma all_done_verdicts_run cfg sch s i t :
  run cfg sch = Accepted s -> all_doneb s = true -> tget (thr s) i = Some t ->
  is_terminal (loc t) = true /\ chan t = [].
Proof. intros Hrun. exact (all_done_verdicts_lemma cfg s i t (Inv_run cfg sch s Hrun)). Qed.

(* the hypotheses of the repaired tree: every repair is in, popen succeeds *)
Lemma live_fixed cfg :
  fix_shared_pool cfg = true -> fix_atomic_acquire cfg = true -> fixed_P12 cfg = true ->
  fixed_P13 cfg = true \/ Known_big_stderr cfg = false ->
  fixed_P14 cfg = true -> fixed_P14b cfg = true -> all_can_start cfg = true ->
  0 < c_pool cfg -> 0 < c_cap cfg -> Live cfg.
Proof.
  intros H1 H2 H3 H4 H5 H6 H7 H8 H9.
  exact (Build_Live cfg H1 H2 H3 H4 (thread_error_fixed cfg H5 H6 H7) H8 H9).
Qed.

Definition all_repaired (cfg : config) : bool :=
  fix_shared_pool cfg && fix_atomic_acquire cfg && fixed_P12 cfg && fixed_P13 cfg && fixed_P14 cfg && fixed_P14b cfg.

Lemma live_all_repaired cfg :
  all_repaired cfg = true -> all_can_start cfg = true -> 0 < c_pool cfg -> 0 < c_cap cfg -> Live cfg.
Proof.
  unfold all_repaired. intros H Hs Hp Hc.
  repeat (apply andb_true_iff in H; let H' := fresh "Hx" in destruct H as [H H']).
  apply live_fixed; auto.
Qed.

Lemma C11_full_fixed_lemma cfg sch s :
  all_repaired cfg = true -> all_can_start cfg = true -> 0 < c_pool cfg -> 0 < c_cap cfg ->
  run cfg sch = Accepted s -> stuckb cfg s = false.
Proof. intros H Hs Hp Hc. apply not_stuck_lemma. apply live_all_repaired; auto. Qed.
