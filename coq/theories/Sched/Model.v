(* M-SCHED: executable small-step model of `xvc pipeline run` (pipeline/src/pipeline/mod.rs, command.rs,
   deps/mod.rs).  NO proofs here (the model must stay runnable when a proof breaks); the proofs are in
   Sched/Proofs.v (safety: C10, C13) and Sched/Live.v (liveness: C11).

   Every repair of a defect found by the checks sits behind its own boolean, so that the behaviour
   before and after each repair is executable (the Props files refute the property with the switch
   off and prove it with the switch on).  The CURRENT tree (HEAD of /repo) is
       fix_shared_pool = fix_atomic_acquire = true   (P11, commit b7ee5068)
       fixed_P12 = true                              (commit 5debdd30)
       fixed_P14 = true                              (commit d7aff2dd)
       fixed_P13 = true                              (commit cfbfd9d5)
       fixed_P14b = false until repo-patches/71-fix-P14b-thorough-compare-error-breaks-step is applied
       fixed_P16 = false  until repo-patches/70-fix-P16-glob-edge-to-declared-output is applied
   and this is what the checks pass to the extracted model (the P13, P14b and P16 bits are decided
   by probe runs of the binary on every check; the P14b bit must also agree with the regenerated
   table, [table_P14b]).

   What is modelled:
   - the dependency graph: explicit step dependencies and the implicit edges of
     [add_implicit_dependencies] / [dependencies_to_path] (file-like kinds: path equality; glob:
     matches AND the path exists now; glob-items: member of the RECORDED item list; with
     [fixed_P16]: glob and glob-items: the pattern matches the declared output path, present or not);
   - rejection of unknown step names and of cyclic graphs before any thread starts;
   - one thread per step running [step_state_handler]: every loop iteration is two atomic actions,
     "send the current state to the bulletin channel" ([PSend]) and "run the s_* function of the
     state" ([PAct]); the inner polling loops (dependency wait, pool full, process wait) are stutter
     transitions;
   - the bulletin thread ([step_state_bulletin]): moves the head of a step's channel into
     current_states; step threads read only current_states;
   - the process slot counter ([available_process_slots], [try_acquire_process_slot]);
   - the child process and its two pipes (capacity [c_cap]) with the reader of
     [CommandProcess::update_output_channels]: stdout is read to EOF before stderr is touched
     unless [fixed_P13];
   - thread death: an [Err] return (popen failure) or a [uwr!] / unwrap panic (thorough comparison
     error, unless [fixed_P14b]: then the step becomes Broken(HasMissingDependencies)) ends
     the thread without a terminal state; the panic also kills the output thread, after which every
     other step thread dies at its next logging call (over-approximated by the [Crash] transition).
   States and events of the per-step machine come from the regenerated Gen/StepMachine.v. *)
From Coq Require Import List Bool NArith Lia.
From XV Require Import Base.Amap Gen.StepMachine.
Import ListNotations.
Local Open Scope N_scope.

(* ---------------------------------------------------------------------------------------- *)
(* configuration                                                                            *)
(* ---------------------------------------------------------------------------------------- *)
Definition step := N.
Definition path := N.

Inductive whenmode := ByDeps | Always | Never.

Inductive dep :=
  | DStep (j : step)                          (* --step *)
  | DPath (p : path)                          (* file, regex(-items), param, lines / line-items, sqlite: one path *)
  | DGlob (matches : list path)               (* the declared output paths the pattern matches *)
  | DGlobItems (matches recorded : list path) (* ... and the item list recorded by the last successful run *)
  | DNoPath.                                  (* generic, url *)

Inductive verdict := VChanged | VSame | VError.          (* outcome of comparing the step's own dependency records *)
Inductive procspec := CannotStart | Exits (code out err : N).   (* popen fails | exit code, bytes on stdout / stderr *)

Record stepcfg := {
  s_id : step;
  s_when : whenmode;
  s_deps : list dep;
  s_outs : list path;
  s_proc : procspec;
  s_sup : verdict;        (* superficial comparison *)
  s_thor : verdict        (* thorough comparison *)
}.

Record config := {
  c_steps : list stepcfg;
  c_exists : list path;          (* paths present in the workspace when the run starts *)
  c_pool : N;                    (* pipeline.process_pool_size *)
  c_cap : N;                     (* pipe capacity in bytes *)
  fix_shared_pool : bool;        (* P11a: one counter shared by all step threads *)
  fix_atomic_acquire : bool;     (* P11b: test and decrement in one critical section *)
  fixed_P12 : bool;              (* wait loop handles mixed done / broken dependency steps *)
  fixed_P13 : bool;              (* both pipes are drained without blocking on either *)
  fixed_P14 : bool;              (* a superficial comparison error makes the step Broken(HasMissingDependencies) *)
  fixed_P14b : bool;             (* ... and so does a thorough comparison error *)
  fixed_P16 : bool               (* glob / glob-items: pattern match on the declared output path, present or not *)
}.

Definition fixed_P11 (cfg : config) : bool := fix_shared_pool cfg && fix_atomic_acquire cfg.

Definition mem (x : N) (l : list N) : bool := existsb (N.eqb x) l.

Fixpoint nodupN (l : list N) : list N :=
  match l with
  | [] => []
  | x :: r => if mem x r then nodupN r else x :: nodupN r
  end.

Fixpoint nodupb (l : list N) : bool :=
  match l with
  | [] => true
  | x :: r => negb (mem x r) && nodupb r
  end.

Definition step_ids (cfg : config) : list step := map s_id (c_steps cfg).

Fixpoint find_step (l : list stepcfg) (i : step) : option stepcfg :=
  match l with
  | [] => None
  | sc :: r => if N.eqb (s_id sc) i then Some sc else find_step r i
  end.

(* ---- the dependency graph ------------------------------------------------------------------ *)
(* dependencies_to_path: does dependency [d] make its step depend on the producer of output [o]? *)
Definition dep_reads (cfg : config) (d : dep) (o : path) : bool :=
  match d with
  | DStep _ => false
  | DPath p => N.eqb p o
  | DGlob ms => mem o ms && (fixed_P16 cfg || mem o (c_exists cfg))   (* glob_includes: only if the path is present; repaired: glob_matches *)
  | DGlobItems ms recorded => mem o recorded || (fixed_P16 cfg && mem o ms)   (* the recorded map, not the pattern; repaired: or the pattern *)
  | DNoPath => false
  end.

(* what the dependency means: the step reads [o] (whether or not [o] exists yet) *)
Definition sem_reads (d : dep) (o : path) : bool :=
  match d with
  | DStep _ => false
  | DPath p => N.eqb p o
  | DGlob ms => mem o ms
  | DGlobItems ms _ => mem o ms
  | DNoPath => false
  end.

Definition file_like (d : dep) : bool :=
  match d with DPath _ => true | _ => false end.

Definition explicit_targets (sc : stepcfg) : list step :=
  flat_map (fun d => match d with DStep j => [j] | _ => [] end) (s_deps sc).

Definition reads_output_of (cfg : config) (r p : stepcfg) : bool :=
  existsb (fun o => existsb (fun d => dep_reads cfg d o) (s_deps r)) (s_outs p).

Definition implicit_targets (cfg : config) (r : stepcfg) : list step :=
  flat_map (fun p => if reads_output_of cfg r p then [s_id p] else []) (c_steps cfg).

(* dependency_steps: the neighbours of the step in the graph *)
Definition deps_of (cfg : config) (sc : stepcfg) : list step :=
  nodupN (explicit_targets sc ++ implicit_targets cfg sc).

Definition deps_of_id (cfg : config) (i : step) : list step :=
  match find_step (c_steps cfg) i with Some sc => deps_of cfg sc | None => [] end.

Definition edges (cfg : config) : list (step * step) :=
  flat_map (fun sc => map (fun j => (s_id sc, j)) (deps_of cfg sc)) (c_steps cfg).

(* petgraph toposort, abstracted as: layer-by-layer placement (Kahn) followed by a check of the
   result, so that acceptance always comes with a witness order *)
Definition ready (es : list (step * step)) (placed : list step) (i : step) : bool :=
  forallb (fun e => negb (N.eqb (fst e) i) || mem (snd e) placed) es.

Fixpoint topo (fuel : nat) (es : list (step * step)) (todo placed : list step) : option (list step) :=
  match todo with
  | [] => Some placed
  | _ =>
    match fuel with
    | O => None
    | S f =>
      let rd := filter (ready es placed) todo in
      match rd with
      | [] => None
      | _ => topo f es (filter (fun i => negb (mem i rd)) todo) (placed ++ rd)
      end
    end
  end.

Fixpoint index_of (x : N) (l : list N) : option nat :=
  match l with
  | [] => None
  | y :: r => if N.eqb y x then Some O else option_map S (index_of x r)
  end.

(* every edge i -> j (i depends on j) has j strictly earlier than i *)
Definition check_topo (ord : list step) (es : list (step * step)) : bool :=
  forallb (fun e => match index_of (snd e) ord, index_of (fst e) ord with
                    | Some a, Some b => Nat.ltb a b
                    | _, _ => false
                    end) es.

Definition toposort (cfg : config) : option (list step) :=
  match topo (length (c_steps cfg)) (edges cfg) (step_ids cfg) [] with
  | Some ord => if check_topo ord (edges cfg) then Some ord else None
  | None => None
  end.

Definition acyclicb (cfg : config) : bool :=
  match toposort cfg with Some _ => true | None => false end.

(* ---------------------------------------------------------------------------------------- *)
(* state                                                                                    *)
(* ---------------------------------------------------------------------------------------- *)
(* XvcStepState with its From-substate: (state, event by which it was entered); Begin(FromInit)
   is (Begin, None) *)
Definition lstate := (sstate * option event)%type.

Definition lstate_eqb (a b : lstate) : bool :=
  sstate_eqb (fst a) (fst b) &&
  match snd a, snd b with
  | None, None => true
  | Some x, Some y => event_eqb x y
  | _, _ => false
  end.

Definition is_done (l : lstate) : bool :=
  match fst l with DoneByRunning | DoneWithoutRunning => true | _ => false end.
Definition is_broken (l : lstate) : bool :=
  match fst l with Broken => true | _ => false end.
Definition is_terminal (l : lstate) : bool := is_done l || is_broken l.
Definition is_done_by_running (l : lstate) : bool :=
  match fst l with DoneByRunning => true | _ => false end.

Inductive pstate :=
  | NotStarted
  | PRunning (out_left err_left ofill efill : N)   (* bytes still to write; bytes sitting in each pipe *)
  | Exited (code : N).

Inductive phase := PSend | PAct.
Inductive tstatus := TRun | TFin | TDead (panic : bool).

Record thread := {
  loc : lstate;            (* thread-local step_state *)
  ph : phase;
  status : tstatus;        (* TFin: returned after sending a terminal state; TDead: ended without one *)
  chan : list lstate;      (* the step's channel to the bulletin, FIFO, head = oldest *)
  bull : lstate;           (* current_states[step], written only by the bulletin *)
  proc : pstate
}.

Record gstate := {
  thr : list (step * thread);
  slots : list (N * N);    (* slot counter(s): key 0 when shared, key i+1 per step thread otherwise *)
  outdead : bool           (* the output thread has panicked (uwr!) *)
}.

Inductive tid := Step (i : step) | Bulletin (i : step) | Proc (i : step) | Crash (i : step).

Definition tget (m : list (step * thread)) (i : step) : option thread := get N.eqb m i.
Definition nget (m : list (N * N)) (k : N) : option N := get N.eqb m k.

(* in-place update of the first binding (keys never change) *)
Fixpoint upd {V : Type} (m : list (N * V)) (k : N) (v : V) : list (N * V) :=
  match m with
  | [] => []
  | (k', v') :: r => if N.eqb k' k then (k', v) :: r else (k', v') :: upd r k v
  end.

Definition set_loc (t : thread) l p := {| loc := l; ph := p; status := status t; chan := chan t; bull := bull t; proc := proc t |}.
Definition set_status (t : thread) st := {| loc := loc t; ph := ph t; status := st; chan := chan t; bull := bull t; proc := proc t |}.
Definition set_chan (t : thread) c := {| loc := loc t; ph := ph t; status := status t; chan := c; bull := bull t; proc := proc t |}.
Definition set_bull (t : thread) b c := {| loc := loc t; ph := ph t; status := status t; chan := c; bull := b; proc := proc t |}.
Definition set_proc (t : thread) p := {| loc := loc t; ph := ph t; status := status t; chan := chan t; bull := bull t; proc := p |}.

Definition with_thr (s : gstate) (i : step) (t : thread) : gstate :=
  {| thr := upd (thr s) i t; slots := slots s; outdead := outdead s |}.
Definition with_slots (s : gstate) (k v : N) : gstate :=
  {| thr := thr s; slots := upd (slots s) k v; outdead := outdead s |}.
Definition with_outdead (s : gstate) (b : bool) : gstate :=
  {| thr := thr s; slots := slots s; outdead := b |}.

Definition skey (cfg : config) (i : step) : N := if fix_shared_pool cfg then 0 else N.succ i.
Definition slot_val (cfg : config) (s : gstate) (i : step) : N :=
  match nget (slots s) (skey cfg i) with Some v => v | None => 0 end.

Definition lbegin : lstate := (Begin, None).

Definition init_thread : thread :=
  {| loc := lbegin; ph := PSend; status := TRun; chan := []; bull := lbegin; proc := NotStarted |}.

Definition init_state (cfg : config) : gstate :=
  {| thr := map (fun i => (i, init_thread)) (step_ids cfg);
     slots := if fix_shared_pool cfg then [(0, c_pool cfg)]
              else map (fun i => (N.succ i, c_pool cfg)) (step_ids cfg);
     outdead := false |}.

Inductive reject := BadConfig | StepNotFound | Cycle.
Inductive start := Rejected (r : reject) | Accepted (s : gstate).

Definition wf_cfg (cfg : config) : bool := nodupb (step_ids cfg).

Definition init (cfg : config) : start :=
  if negb (wf_cfg cfg) then Rejected BadConfig
  else if negb (forallb (fun sc => forallb (fun j => mem j (step_ids cfg)) (explicit_targets sc)) (c_steps cfg))
  then Rejected StepNotFound
  else if negb (acyclicb cfg) then Rejected Cycle
  else Accepted (init_state cfg).

(* ---------------------------------------------------------------------------------------- *)
(* run conditions                                                                           *)
(* ---------------------------------------------------------------------------------------- *)
Definition has_dep_records (sc : stepcfg) : bool := match s_deps sc with [] => false | _ => true end.
Definition rc_never (sc : stepcfg) : bool := match s_when sc with Never => true | _ => false end.
(* run_always for `always` and for by_dependencies steps without any dependency record *)
Definition rc_always (sc : stepcfg) : bool :=
  match s_when sc with Always => true | ByDeps => negb (has_dep_records sc) | Never => false end.
Definition rc_ignore_broken (sc : stepcfg) : bool := rc_always sc.

(* ---------------------------------------------------------------------------------------- *)
(* one handler action ([PAct]): the s_* function of the current state                       *)
(* ---------------------------------------------------------------------------------------- *)
Definition slotmap := list (N * N).

(* result of one handler action of thread [i]: what it does to its own thread record (state,
   process) and to the slot counters; nothing else is written by a handler *)
Inductive hres :=
  | HNext (l : lstate) (p : pstate) (sl : slotmap)   (* next state (sent by the next iteration), own process, slot counters *)
  | HResend                                          (* same state, but the handler loop iterates (sends it again) *)
  | HPoll (p : pstate) (changed : bool)              (* stays inside an inner polling loop *)
  | HDie (panic : bool) (p : pstate) (sl : slotmap). (* the thread ends without a terminal state *)

Definition bull_of (s : gstate) (j : step) : lstate :=
  match tget (thr s) j with Some t => bull t | None => lbegin end.

Definition goto (s : gstate) (t : thread) (st : sstate) (e : event) : hres := HNext (st, Some e) (proc t) (slots s).

Definition compare_outcome (cfg : config) (s : gstate) (t : thread) (v : verdict) (changed same : hres) : hres :=
  match v with
  | VChanged => changed
  | VSame => same
  | VError => if fixed_P14 cfg then goto s t Broken HasMissingDependencies else HDie true (proc t) (slots s)
  end.

Definition handler (cfg : config) (s : gstate) (sc : stepcfg) (t : thread) : hres :=
  let i := s_id sc in
  let deps := deps_of cfg sc in
  match loc t with
  | (Begin, None) =>
      if rc_never sc then goto s t DoneWithoutRunning RunNever
      else goto s t WaitingDependencySteps RunConditional
  | (WaitingDependencySteps, Some RunConditional) =>
      match deps with
      | [] => goto s t CheckingOutputs DependencyStepsFinishedSuccessfully
      | _ => goto s t WaitingDependencySteps DependencyStepsRunning
      end
  | (WaitingDependencySteps, Some DependencyStepsRunning) =>
      let ds := map (bull_of s) deps in
      let broken_branch :=
        if rc_ignore_broken sc then goto s t CheckingOutputs DependencyStepsFinishedBrokenIgnored
        else goto s t Broken DependencyStepsFinishedBroken in
      if forallb is_done ds then goto s t CheckingOutputs DependencyStepsFinishedSuccessfully
      else if forallb is_broken ds then broken_branch
      else if fixed_P12 cfg && forallb is_terminal ds then broken_branch
      else HPoll (proc t) false
  | (CheckingOutputs, Some _) =>
      (* ignore_missing_outputs is true for every step that gets here; compare_output cannot fail *)
      goto s t CheckingSuperficialDiffs CheckedOutputs
  | (CheckingSuperficialDiffs, Some _) =>
      if negb (has_dep_records sc) then goto s t CheckingThoroughDiffs SuperficialDiffsChanged
      else compare_outcome cfg s t (s_sup sc)
             (goto s t CheckingThoroughDiffs SuperficialDiffsChanged)
             (goto s t ComparingDiffsAndOutputs SuperficialDiffsNotChanged)
  | (CheckingThoroughDiffs, Some _) =>
      if negb (has_dep_records sc) then goto s t ComparingDiffsAndOutputs ThoroughDiffsChanged
      else match s_thor sc with
           | VChanged => goto s t ComparingDiffsAndOutputs ThoroughDiffsChanged
           | VSame => goto s t ComparingDiffsAndOutputs ThoroughDiffsNotChanged
           | VError => if fixed_P14b cfg then goto s t Broken HasMissingDependencies
                       else HDie true (proc t) (slots s)     (* uwr! around thorough_compare_dependency; unwrap in deps/lines.rs, regex.rs *)
           end
  | (ComparingDiffsAndOutputs, Some ThoroughDiffsChanged) => goto s t WaitingToRun DiffsHasChanged
  | (ComparingDiffsAndOutputs, Some _) =>
      (* FromThoroughDiffsNotChanged and FromSuperficialDiffsNotChanged: the step's own dependencies
         are unchanged; it still runs when a step it depends on has run in this pipeline run
         (dependency_step_has_run; output_diffs is never populated) *)
      if rc_always sc then goto s t WaitingToRun RunAlways
      else if existsb is_done_by_running (map (bull_of s) deps) then goto s t WaitingToRun DiffsHasChanged
      else goto s t DoneWithoutRunning DiffsHasNotChanged
  | (WaitingToRun, Some from) =>
      let v := slot_val cfg s i in
      if fix_atomic_acquire cfg then
        (* try_acquire_process_slot: test and decrement under one write lock *)
        if N.ltb 0 v then HNext (Running, Some StartProcess) (proc t) (upd (slots s) (skey cfg i) (N.pred v))
        else match from with
             | ProcessPoolFull => HPoll (proc t) false             (* inner loop with a sleep, no message *)
             | _ => goto s t WaitingToRun ProcessPoolFull
             end
      else
        if N.ltb 0 v then goto s t Running StartProcess
        else match from with
             | ProcessPoolFull => HResend                    (* busy loop, one state message per turn *)
             | _ => goto s t WaitingToRun ProcessPoolFull
             end
  | (Running, Some StartProcess) =>
      let v := slot_val cfg s i in
      match s_proc sc with
      | CannotStart =>                                        (* command_process.run()? *)
          if fix_atomic_acquire cfg then HDie false (proc t) (upd (slots s) (skey cfg i) (N.succ v))
          else HDie false (proc t) (slots s)
      | Exits _ out err =>
          let p1 := PRunning out err 0 0 in
          if fix_atomic_acquire cfg then HNext (Running, Some WaitProcess) p1 (slots s)
          else if N.eqb v 0 then HDie true p1 (slots s)       (* usize underflow of `-= 1` *)
          else HNext (Running, Some WaitProcess) p1 (upd (slots s) (skey cfg i) (N.pred v))
      end
  | (Running, Some _) =>                                      (* FromWaitProcess *)
      match proc t with
      | Exited c =>
          let sl1 := upd (slots s) (skey cfg i) (N.succ (slot_val cfg s i)) in
          if N.eqb c 0 then HNext (DoneByRunning, Some ProcessCompletedSuccessfully) (proc t) sl1
          else HNext (Broken, Some ProcessReturnedNonZero) (proc t) sl1
      | PRunning o e ofl efl =>
          (* update_output_channels: blocks reading stdout until EOF, so stderr is not drained while
             the child lives; with the repair both pipes are drained *)
          let efl' := if fixed_P13 cfg then 0 else efl in
          HPoll (PRunning o e 0 efl') (negb (N.eqb ofl 0) || negb (N.eqb efl efl'))
      | NotStarted => HDie false (proc t) (slots s)           (* "Cannot find process" *)
      end
  | _ => HPoll (proc t) false      (* terminal states never reach PAct; other pairs are not constructible *)
  end.

(* ---------------------------------------------------------------------------------------- *)
(* the small-step function                                                                  *)
(* ---------------------------------------------------------------------------------------- *)
Definition mk_thread l p st c b pr : thread :=
  {| loc := l; ph := p; status := st; chan := c; bull := b; proc := pr |}.
Definition mk_gstate th sl od : gstate := {| thr := th; slots := sl; outdead := od |}.

(* second component: the transition is PROGRESS (false: polling stutter or busy re-send) *)
Definition step_ex (cfg : config) (s : gstate) (x : tid) : option (gstate * bool) :=
  match x with
  | Step i =>
    match find_step (c_steps cfg) i, tget (thr s) i with
    | Some sc, Some t =>
      match status t with
      | TRun =>
        match ph t with
        | PSend =>
          if is_terminal (loc t)
          then Some (with_thr s i (mk_thread (loc t) PSend TFin (chan t ++ [loc t]) (bull t) (proc t)), true)
          else Some (with_thr s i (mk_thread (loc t) PAct TRun (chan t ++ [loc t]) (bull t) (proc t)), true)
        | PAct =>
          match handler cfg s sc t with
          | HNext l p sl =>
            Some (mk_gstate (upd (thr s) i (mk_thread l PSend TRun (chan t) (bull t) p)) sl (outdead s), true)
          | HResend =>
            Some (with_thr s i (mk_thread (loc t) PSend TRun (chan t) (bull t) (proc t)), false)
          | HPoll p changed =>
            Some (with_thr s i (mk_thread (loc t) PAct TRun (chan t) (bull t) p), changed)
          | HDie panic p sl =>
            Some (mk_gstate (upd (thr s) i (mk_thread (loc t) PAct (TDead panic) (chan t) (bull t) p)) sl (outdead s || panic), true)
          end
        end
      | _ => None
      end
    | _, _ => None
    end
  | Bulletin i =>
    match tget (thr s) i with
    | Some t => match chan t with
                | x :: r => Some (with_thr s i (mk_thread (loc t) (ph t) (status t) r x (proc t)), true)
                | [] => None
                end
    | None => None
    end
  | Proc i =>
    match find_step (c_steps cfg) i, tget (thr s) i with
    | Some sc, Some t =>
      match proc t, s_proc sc with
      | PRunning o e ofl efl, Exits code _ _ =>
        if N.ltb 0 o then
          if N.ltb ofl (c_cap cfg) then
            let c := N.min o (c_cap cfg - ofl) in
            Some (with_thr s i (set_proc t (PRunning (o - c) e (ofl + c) efl)), true)
          else None                                           (* blocked: stdout pipe full *)
        else if N.ltb 0 e then
          if N.ltb efl (c_cap cfg) then
            let c := N.min e (c_cap cfg - efl) in
            Some (with_thr s i (set_proc t (PRunning o (e - c) ofl (efl + c))), true)
          else None                                           (* blocked: stderr pipe full *)
        else Some (with_thr s i (set_proc t (Exited code)), true)
      | _, _ => None
      end
    | _, _ => None
    end
  | Crash i =>
    if outdead s then
      match tget (thr s) i with
      | Some t => match status t with
                  | TRun => Some (with_thr s i (set_status t (TDead true)), true)
                  | _ => None
                  end
      | None => None
      end
    else None
  end.

Definition step_fn (cfg : config) (s : gstate) (x : tid) : option gstate :=
  match step_ex cfg s x with Some (s', _) => Some s' | None => None end.

(* a schedule is any list of thread ids; ids that are not enabled are skipped *)
Fixpoint run_sched (cfg : config) (s : gstate) (sch : list tid) : gstate :=
  match sch with
  | [] => s
  | x :: r => match step_fn cfg s x with
              | Some s' => run_sched cfg s' r
              | None => run_sched cfg s r
              end
  end.

Definition run (cfg : config) (sch : list tid) : start :=
  match init cfg with
  | Accepted s0 => Accepted (run_sched cfg s0 sch)
  | Rejected r => Rejected r
  end.

(* ---------------------------------------------------------------------------------------- *)
(* observations                                                                             *)
(* ---------------------------------------------------------------------------------------- *)
Definition is_running (p : pstate) : bool := match p with PRunning _ _ _ _ => true | _ => false end.
Definition started (p : pstate) : bool := match p with NotStarted => false | _ => true end.

Definition count_running (s : gstate) : nat :=
  length (filter (fun kv => is_running (proc (snd kv))) (thr s)).

Definition pool_okb (cfg : config) (s : gstate) : bool :=
  N.leb (N.of_nat (count_running s)) (c_pool cfg).

Definition thread_doneb (t : thread) : bool :=
  match status t, chan t with TFin, [] => true | _, _ => false end.
Definition all_doneb (s : gstate) : bool := forallb (fun kv => thread_doneb (snd kv)) (thr s).

Definition all_tids (cfg : config) : list tid :=
  flat_map (fun i => [Step i; Bulletin i; Proc i; Crash i]) (step_ids cfg).

Definition progressb (cfg : config) (s : gstate) (x : tid) : bool :=
  match step_ex cfg s x with Some (_, true) => true | _ => false end.

(* deadlock: some step has no verdict yet and no thread can make progress *)
Definition stuckb (cfg : config) (s : gstate) : bool :=
  negb (all_doneb s) && forallb (fun x => negb (progressb cfg s x)) (all_tids cfg).

(* started_after_dependencies as a boolean on one state *)
Definition when_always (sc : stepcfg) : bool := match s_when sc with Always => true | _ => false end.
Definition loc_of (s : gstate) (j : step) : lstate :=
  match tget (thr s) j with Some t => loc t | None => lbegin end.
Definition deps_okb (cfg : config) (s : gstate) : bool :=
  forallb (fun sc =>
    match tget (thr s) (s_id sc) with
    | Some t => negb (started (proc t)) ||
                forallb (fun j => is_done (loc_of s j) || (when_always sc && is_broken (loc_of s j))) (deps_of cfg sc)
    | None => true
    end) (c_steps cfg).

(* ---- known classes (boolean predicates on configurations; the same predicates exist in
        vlib/sched.py for the findings matcher) ------------------------------------------------ *)
Definition proc_ok (sc : stepcfg) : bool := match s_proc sc with Exits c _ _ => N.eqb c 0 | CannotStart => false end.

(* P12: some step has a dependency step that can end done and another that can end broken.
   Conservative static form: a step with >= 2 dependency steps in a pipeline where some step can
   break (non-zero exit, cannot start, comparison error). *)
Definition can_break (sc : stepcfg) : bool :=
  negb (proc_ok sc) ||
  match s_sup sc, s_thor sc with VError, _ => true | _, VError => true | _, _ => false end.
Definition Known_mixed (cfg : config) : bool :=
  existsb can_break (c_steps cfg) &&
  existsb (fun sc => Nat.ltb 1 (length (deps_of cfg sc))) (c_steps cfg).

(* P13: a command writes more to stderr than a pipe holds *)
Definition Known_big_stderr (cfg : config) : bool :=
  existsb (fun sc => match s_proc sc with Exits _ _ err => N.ltb (c_cap cfg) err | CannotStart => false end) (c_steps cfg).

(* the transition the repair of P14b needs is in the regenerated table *)
Definition table_P14b : bool :=
  match allowed CheckingThoroughDiffs HasMissingDependencies with Some Broken => true | _ => false end.

(* environment: popen of every step command succeeds (`sh -c ...`) *)
Definition all_can_start (cfg : config) : bool :=
  forallb (fun sc => match s_proc sc with CannotStart => false | _ => true end) (c_steps cfg).

(* P14 / P14b: a step thread can end without a terminal state: popen fails, or -- before the repair
   of P14b -- the thorough comparison fails (uwr!, unwrap), or -- before the repair of P14 -- the
   superficial comparison fails *)
Definition is_verror (v : verdict) : bool := match v with VError => true | _ => false end.
Definition thread_can_die (cfg : config) (sc : stepcfg) : bool :=
  match s_proc sc with CannotStart => true | _ => false end ||
  (has_dep_records sc && ((negb (fixed_P14b cfg) && is_verror (s_thor sc)) || (negb (fixed_P14 cfg) && is_verror (s_sup sc)))).
Definition Known_thread_error (cfg : config) : bool := existsb (thread_can_die cfg) (c_steps cfg).

(* P16: a glob / glob-items dependency matches a declared output that is absent (glob) or not in
   the recorded item list (glob-items) *)
Definition Known_glob_on_absent_output (cfg : config) : bool :=
  existsb (fun r => existsb (fun p => existsb (fun o => existsb (fun d =>
     negb (file_like d) && sem_reads d o && negb (dep_reads cfg d o)) (s_deps r)) (s_outs p)) (c_steps cfg)) (c_steps cfg).

(* ---------------------------------------------------------------------------------------- *)
(* trace validation: replay of a hook (H1) log through step_fn                              *)
(* ---------------------------------------------------------------------------------------- *)
Inductive tev :=
  | TIter (i : step) (l : lstate) (slot : N)             (* top of a handler iteration *)
  | TPoll (i : step) (obs : list (step * lstate))        (* dependency states read by the wait loop *)
  | TBull (i : step) (l : lstate)                        (* bulletin wrote current_states[i] *)
  | TStart (i : step)                                    (* popen returned *)
  | TAcquire (i : step) (slot : N)                       (* slot taken; counter value afterwards *)
  | TExit (i : step) (ok : bool)                         (* poll() saw the exit status *)
  | TRelease (i : step) (slot : N)                       (* slot given back; counter value afterwards *)
  | TEnd (i : step) (panic : bool).                      (* step thread ended *)

(* reject codes *)
Definition R_NOTHREAD := 1.   Definition R_LOC := 2.      Definition R_SLOT := 3.
Definition R_OBS := 4.        Definition R_BULL := 5.     Definition R_NOTENABLED := 6.
Definition R_PROC := 7.       Definition R_EXIT := 8.     Definition R_END := 9.
Definition R_PHASE := 10.     Definition R_OBSSET := 11.

Inductive ares := AOk (s : gstate) | ARej (code : N).

Definition abind (r : ares) (f : gstate -> ares) : ares :=
  match r with AOk s => f s | ARej c => ARej c end.

Definition do_step (cfg : config) (s : gstate) (x : tid) : ares :=
  match step_fn cfg s x with Some s' => AOk s' | None => ARej R_NOTENABLED end.

(* the handler action of thread i, if it is still pending *)
Definition flush (cfg : config) (s : gstate) (i : step) : ares :=
  match tget (thr s) i with
  | Some t => match status t, ph t with
              | TRun, PAct => do_step cfg s (Step i)
              | _, _ => AOk s
              end
  | None => ARej R_NOTHREAD
  end.

Definition at_loc (s : gstate) (i : step) (st : sstate) (e : option event) (p : phase) : bool :=
  match tget (thr s) i with
  | Some t => lstate_eqb (loc t) (st, e) && match ph t, p with PSend, PSend => true | PAct, PAct => true | _, _ => false end
              && match status t with TRun => true | _ => false end
  | None => false
  end.

(* lets the child of step i run (and the reader drain) until it has exited *)
Fixpoint run_proc (fuel : nat) (cfg : config) (s : gstate) (i : step) : ares :=
  match tget (thr s) i with
  | Some t =>
    match proc t with
    | Exited _ => AOk s
    | NotStarted => ARej R_PROC
    | PRunning _ _ _ _ =>
      match fuel with
      | O => ARej R_PROC
      | S f =>
        match step_ex cfg s (Proc i) with
        | Some (s', _) => run_proc f cfg s' i
        | None =>
          match step_ex cfg s (Step i) with
          | Some (s', true) => run_proc f cfg s' i
          | _ => ARej R_PROC                   (* the model says the child is blocked for ever *)
          end
        end
      end
    end
  | None => ARej R_NOTHREAD
  end.

Definition proc_fuel (cfg : config) (i : step) : nat :=
  match find_step (c_steps cfg) i with
  | Some sc => match s_proc sc with
               | Exits _ o e => N.to_nat (4 * ((o + e) / (N.max 1 (c_cap cfg))) + 16)
               | CannotStart => O
               end
  | None => O
  end.

Definition same_set (a b : list N) : bool :=
  forallb (fun x => mem x b) a && forallb (fun x => mem x a) b.

(* A failed try_acquire_process_slot is not logged.  The log shows it as: thread [i] was about to
   run a WaitingToRun action (not from ProcessPoolFull) and its next iteration reports
   WaitingToRun(FromProcessPoolFull).  The unlogged test happened somewhere between the two
   iteration lines of [i]; it is accepted iff the counter was 0 at some moment in that window
   ([zero_seen], maintained by [accept_from]). *)
Definition failed_acquire (cfg : config) (s : gstate) (i : step) (l : lstate) : bool :=
  fix_atomic_acquire cfg &&
  lstate_eqb l (WaitingToRun, Some ProcessPoolFull) &&
  match tget (thr s) i with
  | Some t => match loc t, ph t, status t with
              | (WaitingToRun, Some e), PAct, TRun => negb (event_eqb e ProcessPoolFull)
              | _, _, _ => false
              end
  | None => false
  end.

Definition force_pool_full (s : gstate) (i : step) : ares :=
  match tget (thr s) i with
  | Some t => AOk (with_thr s i (set_loc t (WaitingToRun, Some ProcessPoolFull) PSend))
  | None => ARej R_NOTHREAD
  end.

Definition accept_ev (cfg : config) (s : gstate) (zero_seen : bool) (ev : tev) : ares :=
  match ev with
  | TIter i l slot =>
    (* [slot] is read by the hook outside the trace mutex: it is informative only.  The exact
       slot values are those of the acquire / release lines (logged under the counter's lock). *)
    abind (if failed_acquire cfg s i l then (if zero_seen then force_pool_full s i else ARej R_SLOT)
           else flush cfg s i) (fun s1 =>
      if negb (at_loc s1 i (fst l) (snd l) PSend) then ARej R_LOC
      else do_step cfg s1 (Step i))
  | TPoll i obs =>
    if negb (at_loc s i WaitingDependencySteps (Some DependencyStepsRunning) PAct) then ARej R_LOC
    else if negb (same_set (map fst obs) (deps_of_id cfg i)) then ARej R_OBSSET
    else if negb (forallb (fun jl => lstate_eqb (bull_of s (fst jl)) (snd jl)) obs) then ARej R_OBS
    else do_step cfg s (Step i)
  | TBull i l =>
    match tget (thr s) i with
    | Some t => match chan t with
                | x :: _ => if lstate_eqb x l then do_step cfg s (Bulletin i) else ARej R_BULL
                | [] => ARej R_BULL
                end
    | None => ARej R_NOTHREAD
    end
  | TStart i =>
    if negb (at_loc s i Running (Some StartProcess) PAct) then ARej R_LOC
    else abind (do_step cfg s (Step i)) (fun s1 =>
      match tget (thr s1) i with
      | Some t => if started (proc t) then AOk s1 else ARej R_PROC
      | None => ARej R_NOTHREAD
      end)
  | TAcquire i slot =>
    if fix_atomic_acquire cfg then
      (* logged inside the critical section of the WaitingToRun action *)
      match tget (thr s) i with
      | Some t => match loc t, ph t with
                  | (WaitingToRun, _), PAct =>
                    abind (do_step cfg s (Step i)) (fun s1 =>
                      if negb (at_loc s1 i Running (Some StartProcess) PSend) then ARej R_LOC
                      else if N.eqb (slot_val cfg s1 i) slot then AOk s1 else ARej R_SLOT)
                  | _, _ => ARej R_LOC
                  end
      | None => ARej R_NOTHREAD
      end
    else if N.eqb (slot_val cfg s i) slot then AOk s else ARej R_SLOT
  | TExit i ok =>
    if negb (at_loc s i Running (Some WaitProcess) PAct) then ARej R_LOC
    else abind (run_proc (proc_fuel cfg i) cfg s i) (fun s1 =>
      match tget (thr s1) i with
      | Some t => match proc t with
                  | Exited c => if Bool.eqb (N.eqb c 0) ok then AOk s1 else ARej R_EXIT
                  | _ => ARej R_PROC
                  end
      | None => ARej R_NOTHREAD
      end)
  | TRelease i slot =>
    if negb (at_loc s i Running (Some WaitProcess) PAct) then ARej R_LOC
    else abind (do_step cfg s (Step i)) (fun s1 =>
      if N.eqb (slot_val cfg s1 i) slot then AOk s1 else ARej R_SLOT)
  | TEnd i panic =>
    abind (flush cfg s i) (fun s1 =>
      match tget (thr s1) i with
      | Some t =>
        match status t with
        | TFin => if panic then ARej R_END else AOk s1
        | TDead p => if Bool.eqb p panic then AOk s1 else ARej R_END
        | TRun => if panic && outdead s1 then do_step cfg s1 (Crash i) else ARej R_END
        end
      | None => ARej R_NOTHREAD
      end)
  end.

(* returns the final state, or the index of the first rejected event and the reason *)
Definition tev_step (ev : tev) : step :=
  match ev with
  | TIter i _ _ | TPoll i _ | TBull i _ | TStart i | TAcquire i _ | TExit i _ | TRelease i _ | TEnd i _ => i
  end.
Definition is_iter (ev : tev) : bool := match ev with TIter _ _ _ => true | _ => false end.

Definition pool_empty (cfg : config) (s : gstate) : bool := N.eqb (slot_val cfg s 0) 0.

(* [zs]: the steps for which the (shared) counter has been 0 at some moment since their last
   iteration line.  Returns the final state, or the index of the first rejected event and the reason *)
Fixpoint accept_from (cfg : config) (s : gstate) (zs : list step) (evs : list tev) (n : N) : gstate + (N * N) :=
  match evs with
  | [] => inl s
  | ev :: r =>
    let i := tev_step ev in
    match accept_ev cfg s (mem i zs || pool_empty cfg s) ev with
    | AOk s' =>
      let zs1 := if is_iter ev then filter (fun j => negb (N.eqb j i)) zs else zs in
      let zs2 := if fix_shared_pool cfg && (pool_empty cfg s || pool_empty cfg s') then step_ids cfg else zs1 in
      let zs3 := if is_iter ev && negb (pool_empty cfg s') then filter (fun j => negb (N.eqb j i)) zs2 else zs2 in
      accept_from cfg s' zs3 r (N.succ n)
    | ARej c => inr (n, c)
    end
  end.

Definition accept (cfg : config) (evs : list tev) : option (gstate + (N * N)) :=
  match init cfg with
  | Accepted s0 => Some (accept_from cfg s0 [] evs 0)
  | Rejected _ => None
  end.

(* after a log that ends without termination: let everything that is not logged (child
   processes, pipe draining, the bulletin) run to quiescence, then ask whether the state is a
   deadlock *)
Definition settle_tids (cfg : config) : list tid :=
  flat_map (fun i => [Proc i; Bulletin i]) (step_ids cfg).

Definition drain_step (cfg : config) (s : gstate) (i : step) : gstate :=
  if at_loc s i Running (Some WaitProcess) PAct then
    match step_ex cfg s (Step i) with
    | Some (s', true) => match tget (thr s') i with
                         | Some t' => if lstate_eqb (loc t') (Running, Some WaitProcess) then s' else s
                         | None => s
                         end
    | _ => s
    end
  else s.

Fixpoint settle (fuel : nat) (cfg : config) (s : gstate) : gstate :=
  match fuel with
  | O => s
  | S f =>
    let s1 := run_sched cfg s (settle_tids cfg) in
    let s2 := fold_left (drain_step cfg) (step_ids cfg) s1 in
    settle f cfg s2
  end.

(* ---------------------------------------------------------------------------------------- *)
(* executable twins of the safety theorems along one schedule (model-side search)           *)
(* ---------------------------------------------------------------------------------------- *)
(* runs the schedule and returns the final state, the maximal number of simultaneously running
   processes seen, and whether deps_okb held in every state *)
Fixpoint run_obs (cfg : config) (s : gstate) (sch : list tid) (mx : nat) (ok : bool) : gstate * nat * bool :=
  let mx' := Nat.max mx (count_running s) in
  let ok' := ok && deps_okb cfg s in
  match sch with
  | [] => (s, mx', ok')
  | x :: r => match step_fn cfg s x with
              | Some s' => run_obs cfg s' r mx' ok'
              | None => run_obs cfg s r mx' ok'
              end
  end.
