(* M-SCHED: proofs about Sched/Model.v (the model file itself contains none). *)
From Coq Require Import List Bool NArith Lia Arith.
From XV Require Import Base.Amap Gen.StepMachine Sched.Model.
Import ListNotations.
Local Open Scope N_scope.

(* ---------------------------------------------------------------------------------------- *)
(* the hand-written handler stays within the regenerated table                              *)
(* ---------------------------------------------------------------------------------------- *)
Definition hnext_ok (from : lstate) (r : hres) : Prop :=
  match r with
  | HNext l _ => exists e, snd l = Some e /\ allowed (fst from) e = Some (fst l)
  | _ => True
  end.

Ltac break_match :=
  match goal with
  | |- context [match ?x with _ => _ end] => destruct x eqn:?
  | |- context [if ?x then _ else _] => destruct x eqn:?
  end.

Lemma handler_within_table_lemma cfg s sc t : hnext_ok (loc t) (handler cfg s sc t).
Proof.
  unfold handler, compare_outcome, goto.
  destruct (loc t) as [st ev].
  destruct st; destruct ev as [[]|]; cbn [fst snd hnext_ok];
    repeat break_match; cbn [fst snd hnext_ok]; try exact I; eexists; split; reflexivity.
Qed.

(* ---------------------------------------------------------------------------------------- *)
(* rejection                                                                                *)
(* ---------------------------------------------------------------------------------------- *)
Lemma cyclic_rejected_lemma cfg sch :
  acyclicb cfg = false -> exists r, run cfg sch = Rejected r.
Proof.
  intros H. unfold run, init. rewrite H.
  destruct (negb (wf_cfg cfg)); [eexists; reflexivity|].
  destruct (negb (forallb _ _)); eexists; reflexivity.
Qed.
