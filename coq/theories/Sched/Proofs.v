(* M-SCHED: proofs about Sched/Model.v (the model file itself contains none). *)
From Coq Require Import List Bool NArith Lia Arith.
From XV Require Import Base.Amap Gen.StepMachine Sched.Model.
Import ListNotations.
Local Open Scope N_scope.

(* ---------------------------------------------------------------------------------------- *)
(* the hand-written handler stays within the regenerated table                              *)
(* ---------------------------------------------------------------------------------------- *)
Definition hnext_ok (from : lstate) (r : hres) : Prop :=
  match r with
  | HNext l _ _ => exists e, snd l = Some e /\ allowed (fst from) e = Some (fst l)
  | _ => True
  end.

Ltac break_match :=
  match goal with
  | |- context [match ?x with _ => _ end] => destruct x eqn:?
  | |- context [if ?x then _ else _] => destruct x eqn:?
  end.

Ltac break_match_hyp :=
  match goal with
  | H : context [match ?x with _ => _ end] |- _ => destruct x eqn:?
  | H : context [if ?x then _ else _] |- _ => destruct x eqn:?
  end.

Lemma table_P14b_allowed : table_P14b = true -> allowed CheckingThoroughDiffs HasMissingDependencies = Some Broken.
Proof.
  unfold table_P14b. destruct (allowed CheckingThoroughDiffs HasMissingDependencies) as [x|]; [destruct x|];
    intros H; try discriminate H; reflexivity.
Qed.

(* the transition taken by the repair of P14b exists in the table of the tree that has the repair:
   the premise is checked on every run (the switch passed to the model = table_P14b) *)
Lemma handler_within_table_lemma cfg s sc t :
  (fixed_P14b cfg = true -> table_P14b = true) -> hnext_ok (loc t) (handler cfg s sc t).
Proof.
  intros Htab. unfold handler, compare_outcome, goto.
  destruct (loc t) as [st ev].
  destruct st; destruct ev as [[]|]; cbn [fst snd hnext_ok];
    repeat break_match; cbn [fst snd hnext_ok]; try exact I; eexists; (split; [reflexivity|]); try reflexivity.
  all: apply table_P14b_allowed; apply Htab; first [reflexivity|assumption].
Qed.

(* without the premise: every transition is in the table except possibly the one of the repair *)
Definition hnext_weak (cfg : config) (from : lstate) (r : hres) : Prop :=
  match r with
  | HNext l _ _ => exists e, snd l = Some e /\
       (allowed (fst from) e = Some (fst l) \/
        (fixed_P14b cfg = true /\ fst from = CheckingThoroughDiffs /\ e = HasMissingDependencies /\ fst l = Broken))
  | _ => True
  end.

Lemma handler_within_table_weak cfg s sc t : hnext_weak cfg (loc t) (handler cfg s sc t).
Proof.
  unfold handler, compare_outcome, goto.
  destruct (loc t) as [st ev].
  destruct st; destruct ev as [[]|]; cbn [fst snd hnext_weak];
    repeat break_match; cbn [fst snd hnext_weak]; try exact I; eexists; (split; [reflexivity|]);
    first [left; reflexivity | right; repeat split; first [reflexivity|assumption]].
Qed.

(* ---------------------------------------------------------------------------------------- *)
(* association lists with in-place update                                                   *)
(* ---------------------------------------------------------------------------------------- *)
Lemma Neqb_refl k : N.eqb k k = true. Proof. apply N.eqb_refl. Qed.

Section Upd.
Variable V : Type.
Implicit Types m : list (N * V).

Lemma upd_keys m k v : map fst (upd m k v) = map fst m.
Proof.
  induction m as [|[k' v'] r IH]; cbn [upd map fst]; auto.
  destruct (N.eqb k' k); cbn [map fst]; congruence.
Qed.

Lemma get_upd m k v j :
  get N.eqb (upd m k v) j =
  if N.eqb j k then match get N.eqb m k with Some _ => Some v | None => None end else get N.eqb m j.
Proof.
  destruct (N.eqb_spec j k) as [E|Hj].
  - rewrite E. clear E j.
    induction m as [|[k' v'] r IH]; cbn [upd get]; [reflexivity|].
    destruct (N.eqb_spec k' k) as [E|Hk]; cbn [get].
    + rewrite E, N.eqb_refl. reflexivity.
    + destruct (N.eqb_spec k' k); [congruence|]. exact IH.
  - induction m as [|[k' v'] r IH]; cbn [upd get]; [reflexivity|].
    destruct (N.eqb_spec k' k) as [E|Hk]; cbn [get].
    + rewrite E. destruct (N.eqb_spec k j); [congruence|reflexivity].
    + destruct (N.eqb_spec k' j); auto.
Qed.

Lemma get_upd_same m k v v0 : get N.eqb m k = Some v0 -> get N.eqb (upd m k v) k = Some v.
Proof. intros H. rewrite get_upd, N.eqb_refl, H. reflexivity. Qed.

Lemma get_upd_other m k v j : j <> k -> get N.eqb (upd m k v) j = get N.eqb m j.
Proof. intros H. rewrite get_upd. apply N.eqb_neq in H. rewrite H. reflexivity. Qed.

Lemma upd_same m k v : get N.eqb m k = Some v -> upd m k v = m.
Proof.
  induction m as [|[k' v'] r IH]; cbn [upd get]; auto.
  destruct (N.eqb k' k) eqn:E; intros H.
  - apply N.eqb_eq in E. congruence.
  - rewrite IH; auto.
Qed.

Lemma upd_upd m k v v' : upd (upd m k v) k v' = upd m k v'.
Proof.
  induction m as [|[k' v0] r IH]; cbn [upd]; auto.
  destruct (N.eqb k' k) eqn:E; cbn [upd]; rewrite E; congruence.
Qed.

Lemma get_In_keys m k v : get N.eqb m k = Some v -> In k (map fst m).
Proof.
  induction m as [|[k' v'] r IH]; cbn [get map fst]; [discriminate|].
  destruct (N.eqb k' k) eqn:E; intros H.
  - apply N.eqb_eq in E. left; auto.
  - right; auto.
Qed.

Lemma In_keys_get m k : In k (map fst m) -> exists v, get N.eqb m k = Some v.
Proof.
  induction m as [|[k' v'] r IH]; cbn [get map fst]; [intros []|].
  intros [E|H].
  - rewrite E, N.eqb_refl. eauto.
  - destruct (N.eqb k' k); eauto.
Qed.

Lemma get_In_pair m k v : get N.eqb m k = Some v -> In (k, v) m.
Proof.
  induction m as [|[k' v'] r IH]; cbn [get]; [discriminate|].
  destruct (N.eqb k' k) eqn:E; intros H.
  - apply N.eqb_eq in E. left; congruence.
  - right; auto.
Qed.

Lemma In_pair_get m k v : NoDup (map fst m) -> In (k, v) m -> get N.eqb m k = Some v.
Proof.
  induction m as [|[k' v'] r IH]; cbn [get map fst In]; [intros _ []|].
  intros Hnd [H|H]; inversion Hnd; subst.
  - inversion H; subst. rewrite N.eqb_refl. reflexivity.
  - destruct (N.eqb k' k) eqn:E.
    + apply N.eqb_eq in E; subst. exfalso. apply H2. change k with (fst (k, v)). apply in_map; auto.
    + auto.
Qed.

(* counting the entries that satisfy a predicate *)
Definition cnt (f : V -> bool) m : nat := length (filter (fun kv => f (snd kv)) m).

Lemma cnt_upd f m k v v0 :
  NoDup (map fst m) -> get N.eqb m k = Some v0 ->
  (cnt f (upd m k v) + (if f v0 then 1 else 0) = cnt f m + (if f v then 1 else 0))%nat.
Proof.
  unfold cnt. induction m as [|[k' v'] r IH]; cbn [upd get map fst]; [discriminate|].
  intros Hnd H. inversion Hnd; subst.
  destruct (N.eqb k' k) eqn:E.
  - inversion H; subst. cbn [filter snd]. destruct (f v0), (f v); cbn [length]; lia.
  - cbn [filter snd]. specialize (IH H3 H). destruct (f v'); cbn [length]; lia.
Qed.
End Upd.
Arguments cnt {V} f m.
Arguments cnt_upd {V} f m k v v0 _ _.
Arguments In_pair_get {V} m k v _ _.

(* ---------------------------------------------------------------------------------------- *)
(* configuration lemmas                                                                     *)
(* ---------------------------------------------------------------------------------------- *)
Lemma mem_In x l : mem x l = true <-> In x l.
Proof.
  unfold mem. rewrite existsb_exists. split.
  - intros [y [Hy E]]. apply N.eqb_eq in E. subst; auto.
  - intros H. exists x. split; auto. apply N.eqb_refl.
Qed.

Lemma nodupb_NoDup l : nodupb l = true -> NoDup l.
Proof.
  induction l as [|x r IH]; cbn [nodupb]; [constructor|].
  intros H. apply andb_true_iff in H. destruct H as [H1 H2]. constructor; auto.
  intros Hin. apply mem_In in Hin. rewrite Hin in H1. discriminate.
Qed.

Lemma nodupN_In x l : In x (nodupN l) <-> In x l.
Proof.
  induction l as [|y r IH]; cbn [nodupN]; [tauto|].
  destruct (mem y r) eqn:E.
  - rewrite IH. cbn [In]. split; auto. intros [->|H]; auto. apply mem_In; auto.
  - cbn [In]. rewrite IH. tauto.
Qed.

Lemma find_step_id l i sc : find_step l i = Some sc -> s_id sc = i /\ In sc l.
Proof.
  induction l as [|a r IH]; cbn [find_step]; [discriminate|].
  destruct (N.eqb_spec (s_id a) i) as [E|E]; intros H.
  - inversion H; subst. split; auto. left; auto.
  - destruct (IH H). split; auto. right; auto.
Qed.

Lemma find_step_In l sc : NoDup (map s_id l) -> In sc l -> find_step l (s_id sc) = Some sc.
Proof.
  induction l as [|a r IH]; cbn [find_step map In]; [intros _ []|].
  intros Hnd [->|H]; inversion Hnd; subst.
  - rewrite N.eqb_refl. reflexivity.
  - destruct (N.eqb_spec (s_id a) (s_id sc)) as [E|E].
    + exfalso. apply H2. rewrite E. apply in_map; auto.
    + auto.
Qed.

Lemma find_step_some l i : In i (map s_id l) -> exists sc, find_step l i = Some sc.
Proof.
  induction l as [|a r IH]; cbn [find_step map In]; [intros []|].
  intros [E|H].
  - rewrite E, N.eqb_refl. eauto.
  - destruct (N.eqb (s_id a) i); eauto.
Qed.

(* ---------------------------------------------------------------------------------------- *)
(* shape of one transition                                                                  *)
(* ---------------------------------------------------------------------------------------- *)
Definition tid_step (x : tid) : step := match x with Step i | Bulletin i | Proc i | Crash i => i end.

Inductive tcase (cfg : config) (s : gstate) (i : step) (t t' : thread) (sl : slotmap) (od : bool) : bool -> Prop :=
  | tc_send :
      status t = TRun -> ph t = PSend ->
      t' = mk_thread (loc t) (if is_terminal (loc t) then PSend else PAct)
                     (if is_terminal (loc t) then TFin else TRun) (chan t ++ [loc t]) (bull t) (proc t) ->
      sl = slots s -> od = outdead s -> tcase cfg s i t t' sl od true
  | tc_next sc l p :
      find_step (c_steps cfg) i = Some sc -> status t = TRun -> ph t = PAct ->
      handler cfg s sc t = HNext l p sl ->
      t' = mk_thread l PSend TRun (chan t) (bull t) p -> od = outdead s -> tcase cfg s i t t' sl od true
  | tc_resend sc :
      find_step (c_steps cfg) i = Some sc -> status t = TRun -> ph t = PAct ->
      handler cfg s sc t = HResend ->
      t' = mk_thread (loc t) PSend TRun (chan t) (bull t) (proc t) -> sl = slots s -> od = outdead s ->
      tcase cfg s i t t' sl od false
  | tc_poll sc p ch :
      find_step (c_steps cfg) i = Some sc -> status t = TRun -> ph t = PAct ->
      handler cfg s sc t = HPoll p ch ->
      t' = mk_thread (loc t) PAct TRun (chan t) (bull t) p -> sl = slots s -> od = outdead s ->
      tcase cfg s i t t' sl od ch
  | tc_die sc panic p :
      find_step (c_steps cfg) i = Some sc -> status t = TRun -> ph t = PAct ->
      handler cfg s sc t = HDie panic p sl ->
      t' = mk_thread (loc t) PAct (TDead panic) (chan t) (bull t) p -> od = (outdead s || panic)%bool ->
      tcase cfg s i t t' sl od true
  | tc_bull x r :
      chan t = x :: r -> t' = mk_thread (loc t) (ph t) (status t) r x (proc t) ->
      sl = slots s -> od = outdead s -> tcase cfg s i t t' sl od true
  | tc_proc sc p' :
      find_step (c_steps cfg) i = Some sc ->
      is_running (proc t) = true -> t' = set_proc t p' ->
      (is_running p' = true \/ exists c, p' = Exited c) ->
      (forall o' e' ofl' efl', p' = PRunning o' e' ofl' efl' ->
         exists o e ofl efl, proc t = PRunning o e ofl efl /\ e' + efl' = e + efl /\ o' + ofl' = o + ofl /\ o' + e' < o + e) ->
      sl = slots s -> od = outdead s -> tcase cfg s i t t' sl od true
  | tc_crash :
      status t = TRun -> outdead s = true -> t' = set_status t (TDead true) ->
      sl = slots s -> od = outdead s -> tcase cfg s i t t' sl od true.

Lemma step_ex_cases cfg s x s' b :
  step_ex cfg s x = Some (s', b) ->
  exists t t', tget (thr s) (tid_step x) = Some t /\ thr s' = upd (thr s) (tid_step x) t' /\
               tcase cfg s (tid_step x) t t' (slots s') (outdead s') b.
Proof.
  destruct x as [i|i|i|i]; cbn [step_ex tid_step].
  - destruct (find_step (c_steps cfg) i) as [sc|] eqn:Hf; [|discriminate].
    destruct (tget (thr s) i) as [t|] eqn:Ht; [|discriminate].
    destruct (status t) eqn:Hs; try discriminate.
    destruct (ph t) eqn:Hp.
    + destruct (is_terminal (loc t)) eqn:Hterm; intros H; inversion H; subst; clear H;
        eexists _, _; (split; [reflexivity|]); (split; [reflexivity|]);
        eapply tc_send; eauto; rewrite Hterm; reflexivity.
    + destruct (handler cfg s sc t) eqn:Hh; intros H; inversion H; subst; clear H;
        eexists _, _; (split; [reflexivity|]); (split; [reflexivity|]).
      * eapply tc_next; eauto.
      * eapply tc_resend; eauto.
      * eapply tc_poll; eauto.
      * eapply tc_die; eauto.
  - destruct (tget (thr s) i) as [t|] eqn:Ht; [|discriminate].
    destruct (chan t) as [|x r] eqn:Hc; [discriminate|].
    intros H; inversion H; subst; clear H.
    eexists _, _; (split; [reflexivity|]); (split; [reflexivity|]). eapply tc_bull; eauto.
  - destruct (find_step (c_steps cfg) i) as [sc|] eqn:Hf; [|discriminate].
    destruct (tget (thr s) i) as [t|] eqn:Ht; [|discriminate].
    destruct (proc t) as [|o e ofl efl|c] eqn:Hp; try discriminate.
    destruct (s_proc sc) as [|code o0 e0] eqn:Hsp; try discriminate.
    destruct (N.ltb_spec 0 o) as [Ho|Ho].
    + destruct (N.ltb_spec ofl (c_cap cfg)) as [Hlt|]; [|discriminate].
      intros H; inversion H; subst; clear H.
      eexists _, _; (split; [reflexivity|]); (split; [reflexivity|]).
      eapply tc_proc; eauto; [rewrite Hp; reflexivity|].
      intros o' e' ofl' efl' E. inversion E; subst. exists o, e', ofl, efl'. split; auto. repeat split; lia.
    + destruct (N.ltb_spec 0 e) as [He|He].
      * destruct (N.ltb_spec efl (c_cap cfg)) as [Hlt|]; [|discriminate].
        intros H; inversion H; subst; clear H.
        eexists _, _; (split; [reflexivity|]); (split; [reflexivity|]).
        eapply tc_proc; eauto; [rewrite Hp; reflexivity|].
        intros o' e' ofl' efl' E. inversion E; subst. exists o', e, ofl', efl. split; auto. repeat split; lia.
      * intros H; inversion H; subst; clear H.
        eexists _, _; (split; [reflexivity|]); (split; [reflexivity|]).
        eapply tc_proc; eauto; [rewrite Hp; reflexivity|].
        intros o' e' ofl' efl' E. discriminate E.
  - destruct (outdead s) eqn:Hod; [|discriminate].
    destruct (tget (thr s) i) as [t|] eqn:Ht; [|discriminate].
    destruct (status t) eqn:Hs; try discriminate.
    intros H; inversion H; subst; clear H.
    eexists _, _; (split; [reflexivity|]); (split; [reflexivity|]). eapply tc_crash; eauto.
Qed.

(* ---------------------------------------------------------------------------------------- *)
(* facts about the handler                                                                  *)
(* ---------------------------------------------------------------------------------------- *)
Definition past_wait (l : lstate) : bool :=
  match fst l with
  | CheckingOutputs | CheckingSuperficialDiffs | CheckingThoroughDiffs | ComparingDiffsAndOutputs
  | WaitingToRun | Running | DoneByRunning => true
  | _ => false
  end.

(* the state of a dependency step allows the dependent to go on *)
Definition dep_ok (sc : stepcfg) (l : lstate) : bool := is_done l || (when_always sc && is_terminal l).
Definition deps_bull_ok cfg s sc : bool := forallb (fun j => dep_ok sc (bull_of s j)) (deps_of cfg sc).
Definition deps_loc_ok cfg s sc : bool := forallb (fun j => dep_ok sc (loc_of s j)) (deps_of cfg sc).

Lemma forallb_map {A B} (f : B -> bool) (g : A -> B) l : forallb f (map g l) = forallb (fun x => f (g x)) l.
Proof. induction l; cbn [map forallb]; congruence. Qed.

Lemma forallb_impl {A} (f g : A -> bool) l : (forall x, In x l -> f x = true -> g x = true) -> forallb f l = true -> forallb g l = true.
Proof.
  intros H. rewrite !forallb_forall. intros Hf x Hx. auto.
Qed.

Lemma no_records_no_deps cfg sc : has_dep_records sc = false -> deps_of cfg sc = [].
Proof.
  unfold has_dep_records, deps_of, explicit_targets, implicit_targets, reads_output_of.
  destruct (s_deps sc); [|discriminate]. intros _. cbn [flat_map app].
  assert (E : forall l : list stepcfg, flat_map (fun p => if existsb (fun o : path => existsb (fun d => dep_reads cfg d o) []) (s_outs p) then [s_id p] else []) l = []).
  { induction l as [|a r IH]; cbn [flat_map]; auto. rewrite IH.
    assert (E2 : existsb (fun o : path => existsb (fun d => dep_reads cfg d o) []) (s_outs a) = false).
    { induction (s_outs a); cbn [existsb]; auto. }
    rewrite E2. reflexivity. }
  rewrite E. reflexivity.
Qed.

Lemma is_terminal_cases l : is_terminal l = true <-> is_done l = true \/ is_broken l = true.
Proof. unfold is_terminal. rewrite orb_true_iff. tauto. Qed.

Lemma ignore_broken_dep_ok cfg sc l :
  rc_ignore_broken sc = true -> is_terminal l = true -> deps_of cfg sc <> [] -> dep_ok sc l = true.
Proof.
  unfold rc_ignore_broken, rc_always, dep_ok, when_always. intros H Ht Hd.
  destruct (s_when sc); try discriminate.
  - apply negb_true_iff in H. apply (no_records_no_deps cfg) in H. contradiction.
  - rewrite Ht. apply orb_true_r.
Qed.

Ltac hcases t :=
  unfold handler, compare_outcome, goto;
  destruct (loc t) as [st ev]; destruct st; destruct ev as [[]|]; cbn [fst snd];
  repeat break_match; try discriminate.

Ltac hyp_cases H t :=
  unfold handler, compare_outcome, goto in H;
  destruct (loc t) as [st ev] eqn:Hl; destruct st; destruct ev as [[]|]; cbn [fst snd] in H;
  repeat break_match_hyp; try discriminate H; inversion H; subst; clear H.

Lemma handler_past_wait cfg s sc t l p sl :
  handler cfg s sc t = HNext l p sl -> past_wait l = true ->
  past_wait (loc t) = true \/ deps_bull_ok cfg s sc = true.
Proof.
  intros H H0.
  destruct (loc t) as [st ev] eqn:Hl.
  assert (Hpw : past_wait (st, ev) = true \/ st = WaitingDependencySteps \/ (past_wait (st, ev) = false /\ st <> WaitingDependencySteps)).
  { destruct st; cbn; auto; right; right; split; auto; discriminate. }
  destruct Hpw as [Hpw|[Hpw|[Hpw1 Hpw2]]]; [left; exact Hpw| |].
  - subst st. right. revert H. unfold handler, goto. rewrite Hl.
    destruct ev as [[]|]; try discriminate.
    + destruct (deps_of cfg sc) eqn:Hd; intros H; inversion H; subst; clear H.
      * unfold deps_bull_ok. rewrite Hd. reflexivity.
      * discriminate.
    + unfold deps_bull_ok. rewrite !forallb_map.
      destruct (forallb (fun x => is_done (bull_of s x)) (deps_of cfg sc)) eqn:Hdone.
      * intros _. eapply forallb_impl; [|exact Hdone]. cbn beta. intros x _ Hx. unfold dep_ok. rewrite Hx. reflexivity.
      * assert (Hne : deps_of cfg sc <> []) by (intros E; rewrite E in Hdone; discriminate).
        assert (Hbr : forallb (fun x => is_terminal (bull_of s x)) (deps_of cfg sc) = true ->
                      (if rc_ignore_broken sc then HNext (CheckingOutputs, Some DependencyStepsFinishedBrokenIgnored) (proc t) (slots s)
                       else HNext (Broken, Some DependencyStepsFinishedBroken) (proc t) (slots s)) = HNext l p sl ->
                      forallb (fun j => dep_ok sc (bull_of s j)) (deps_of cfg sc) = true).
        { intros Hterm. destruct (rc_ignore_broken sc) eqn:Hib; intros H; inversion H; subst; clear H; [|discriminate].
          eapply forallb_impl; [|exact Hterm]. cbn beta. intros x _ Hx. eapply ignore_broken_dep_ok; eauto. }
        destruct (forallb (fun x => is_broken (bull_of s x)) (deps_of cfg sc)) eqn:Hbroken.
        { apply Hbr. eapply forallb_impl; [|exact Hbroken]. cbn beta. intros x _ Hx. unfold is_terminal. rewrite Hx. apply orb_true_r. }
        destruct (fixed_P12 cfg); cbn [andb]; [|discriminate].
        destruct (forallb (fun x => is_terminal (bull_of s x)) (deps_of cfg sc)) eqn:Hterm; [|discriminate].
        apply Hbr. reflexivity.
  - exfalso. revert H H0. unfold handler, compare_outcome, goto. rewrite Hl.
    destruct st; try (exfalso; apply Hpw2; reflexivity); try discriminate Hpw1;
      destruct ev as [[]|]; repeat break_match; intros H; inversion H; subst; discriminate.
Qed.

Lemma handler_proc_next cfg s sc t l p sl :
  handler cfg s sc t = HNext l p sl -> p = proc t \/ fst (loc t) = Running.
Proof. hcases t; intros H; inversion H; subst; auto. Qed.

Lemma handler_proc_poll cfg s sc t p ch :
  handler cfg s sc t = HPoll p ch -> p = proc t \/ (fst (loc t) = Running /\ is_running (proc t) = true /\ is_running p = true).
Proof. hcases t; intros H; inversion H; subst; auto; right; rewrite ?Heqp0; auto. Qed.

Lemma handler_proc_die cfg s sc t panic p sl :
  handler cfg s sc t = HDie panic p sl -> p = proc t \/ fst (loc t) = Running.
Proof. hcases t; intros H; inversion H; subst; auto. Qed.

Lemma handler_run_next cfg s sc t l p sl :
  handler cfg s sc t = HNext l p sl -> is_running p = true -> fst (loc t) = Running -> fst l = Running.
Proof.
  hcases t; intros H; inversion H; subst; auto; intros Hr _; try discriminate.
  all: rewrite ?Heqp0 in Hr; try discriminate.
Qed.

(* where a thread whose command was started can be *)
Definition after_start (l : lstate) : bool :=
  match l with
  | (Running, Some StartProcess) => false
  | (Running, Some _) => true
  | (DoneByRunning, _) => true
  | (Broken, _) => true
  | _ => false
  end.

Lemma handler_started_next cfg s sc t l p sl :
  handler cfg s sc t = HNext l p sl -> started p = true ->
  (started (proc t) = true -> after_start (loc t) = true) -> after_start l = true.
Proof.
  intros H. hyp_cases H t; cbn [after_start]; auto; intros Hs Hi; try (apply Hi; exact Hs).
Qed.

Lemma handler_started_poll cfg s sc t p ch :
  handler cfg s sc t = HPoll p ch -> started p = true ->
  (started (proc t) = true -> after_start (loc t) = true) -> after_start (loc t) = true.
Proof.
  intros H. hyp_cases H t; cbn [after_start]; auto; intros Hs Hi; try (apply Hi; exact Hs).
Qed.

(* ---------------------------------------------------------------------------------------- *)
(* the safety invariant (holds for every setting of the repair switches)                    *)
(* ---------------------------------------------------------------------------------------- *)
Record tinv0 (t : thread) : Prop := {
  ti_act : ph t = PAct -> status t = TRun -> is_terminal (loc t) = false;
  ti_hist : forall x, In x (bull t :: chan t) -> is_terminal x = true -> x = loc t;
  ti_run : is_running (proc t) = true -> fst (loc t) = Running;
  ti_fin : status t = TFin -> is_terminal (loc t) = true;
  ti_started : status t = TRun -> started (proc t) = true -> after_start (loc t) = true
}.
Arguments ti_act {t} _. Arguments ti_hist {t} _. Arguments ti_run {t} _. Arguments ti_fin {t} _. Arguments ti_started {t} _.

Record Inv (cfg : config) (s : gstate) : Prop := {
  inv_keys : map fst (thr s) = step_ids cfg;
  inv_nodup : NoDup (step_ids cfg);
  inv_thr : forall j t, tget (thr s) j = Some t -> tinv0 t;
  inv_deps : forall j sc t, find_step (c_steps cfg) j = Some sc -> tget (thr s) j = Some t ->
             past_wait (loc t) = true \/ started (proc t) = true -> deps_loc_ok cfg s sc = true
}.
Arguments inv_keys {cfg s} _. Arguments inv_nodup {cfg s} _. Arguments inv_thr {cfg s} _. Arguments inv_deps {cfg s} _.

Lemma get_init_thread l j t :
  get N.eqb (map (fun i : N => (i, init_thread)) l) j = Some t -> t = init_thread.
Proof.
  induction l as [|a r IH]; cbn [map get]; [discriminate|].
  destruct (N.eqb a j); intros H; [inversion H; auto|auto].
Qed.

Lemma init_keys cfg : map fst (thr (init_state cfg)) = step_ids cfg.
Proof.
  unfold init_state; cbn [thr]. rewrite map_map. cbn [fst]. apply map_id.
Qed.

Lemma Inv_init cfg s0 : init cfg = Accepted s0 -> Inv cfg s0.
Proof.
  unfold init. destruct (wf_cfg cfg) eqn:Hwf; cbn [negb]; [|discriminate].
  destruct (forallb _ (c_steps cfg)); cbn [negb]; [|discriminate].
  destruct (acyclicb cfg); cbn [negb]; [|discriminate].
  intros H; inversion H; subst; clear H.
  split.
  - apply init_keys.
  - apply nodupb_NoDup; exact Hwf.
  - intros j t Ht. apply get_init_thread in Ht. subst t.
    split; cbn; try discriminate.
    intros x [<-|[]]. discriminate.
  - intros j sc t _ Ht. apply get_init_thread in Ht. subst t. cbn. intros [H|H]; discriminate.
Qed.

Lemma loc_of_upd s i t' s' j :
  thr s' = upd (thr s) i t' ->
  loc_of s' j = if N.eqb j i then match tget (thr s) i with Some _ => loc t' | None => lbegin end else loc_of s j.
Proof.
  intros E. unfold loc_of, tget. rewrite E, get_upd.
  destruct (N.eqb j i); auto. destruct (get N.eqb (thr s) i); auto.
Qed.

(* verdicts are final: a terminal thread-local state never changes *)
Lemma tcase_loc_stable cfg s i t t' sl od b :
  tinv0 t -> tcase cfg s i t t' sl od b -> is_terminal (loc t) = true -> loc t' = loc t.
Proof.
  intros Hi Hc Hterm. destruct Hc; subst; cbn [loc mk_thread set_proc set_status]; auto.
  rewrite (ti_act Hi) in Hterm; auto. discriminate.
Qed.

Lemma step_loc_stable cfg s x s' b k :
  Inv cfg s -> step_ex cfg s x = Some (s', b) ->
  is_terminal (loc_of s k) = true -> loc_of s' k = loc_of s k.
Proof.
  intros HI Hs Hterm. destruct (step_ex_cases _ _ _ _ _ Hs) as [t [t' [Ht [Hthr Hc]]]].
  rewrite (loc_of_upd _ _ _ _ k Hthr).
  destruct (N.eqb_spec k (tid_step x)) as [->|Hne]; auto.
  unfold tget in Ht. fold (tget (thr s) (tid_step x)) in Ht. rewrite Ht.
  unfold loc_of in *. rewrite Ht in *. eapply tcase_loc_stable; eauto. eapply inv_thr; eauto.
Qed.

Lemma dep_ok_terminal sc l : dep_ok sc l = true -> is_terminal l = true.
Proof.
  unfold dep_ok, is_terminal. intros H. apply orb_true_iff in H. destruct H as [H|H].
  - rewrite H. reflexivity.
  - apply andb_true_iff in H. destruct H as [_ H]. exact H.
Qed.

Lemma deps_loc_ok_stable cfg s x s' b sc :
  Inv cfg s -> step_ex cfg s x = Some (s', b) ->
  deps_loc_ok cfg s sc = true -> deps_loc_ok cfg s' sc = true.
Proof.
  intros HI Hs. unfold deps_loc_ok. apply forallb_impl. intros k _ Hk.
  rewrite (step_loc_stable _ _ _ _ _ k HI Hs); auto. eapply dep_ok_terminal; eauto.
Qed.

Lemma bull_is_loc cfg s j : Inv cfg s -> is_terminal (bull_of s j) = true -> bull_of s j = loc_of s j.
Proof.
  intros HI. unfold bull_of, loc_of. destruct (tget (thr s) j) as [t|] eqn:Ht; auto.
  intros H. apply (ti_hist (inv_thr HI _ _ Ht)); auto. left; auto.
Qed.

Lemma deps_bull_loc cfg s sc : Inv cfg s -> deps_bull_ok cfg s sc = true -> deps_loc_ok cfg s sc = true.
Proof.
  intros HI. unfold deps_bull_ok, deps_loc_ok. apply forallb_impl. intros k _ Hk.
  rewrite <- (bull_is_loc _ _ _ HI); auto. eapply dep_ok_terminal; eauto.
Qed.

Lemma tinv0_step cfg s i t t' sl od b : tinv0 t -> tcase cfg s i t t' sl od b -> tinv0 t'.
Proof.
  intros Hi Hc. destruct Hc; subst.
  - (* send *)
    destruct (is_terminal (loc t)) eqn:Hterm; split; cbn [loc ph status chan bull proc mk_thread]; try discriminate; auto.
    + intros x [Hx|Hx] Hx2; [apply (ti_hist Hi); auto; left; auto|].
      apply in_app_or in Hx. destruct Hx as [Hx|[Hx|[]]]; auto. apply (ti_hist Hi); auto. right; auto.
    + apply (ti_run Hi).
    + intros x [Hx|Hx] Hx2; [apply (ti_hist Hi); auto; left; auto|].
      apply in_app_or in Hx. destruct Hx as [Hx|[Hx|[]]]; auto. apply (ti_hist Hi); auto. right; auto.
    + apply (ti_run Hi).
    + intros _. apply (ti_started Hi); auto.
  - (* next *)
    split; cbn [loc ph status chan bull proc mk_thread]; try discriminate.
    + intros x Hx Hx2. exfalso. rewrite (ti_hist Hi _ Hx Hx2) in Hx2. rewrite (ti_act Hi) in Hx2; auto. discriminate.
    + intros Hr. destruct (handler_proc_next _ _ _ _ _ _ _ H2) as [->|Hl].
      * eapply handler_run_next; eauto. apply (ti_run Hi); auto.
      * eapply handler_run_next; eauto.
    + intros _ Hs. eapply handler_started_next; eauto. apply (ti_started Hi); auto.
  - (* resend *)
    split; cbn [loc ph status chan bull proc mk_thread]; try discriminate.
    + apply (ti_hist Hi).
    + apply (ti_run Hi).
    + intros _. apply (ti_started Hi); auto.
  - (* poll *)
    split; cbn [loc ph status chan bull proc mk_thread]; try discriminate.
    + intros _ _. apply (ti_act Hi); auto.
    + apply (ti_hist Hi).
    + intros Hr. destruct (handler_proc_poll _ _ _ _ _ _ H2) as [->|[Hl _]]; auto. apply (ti_run Hi); auto.
    + intros _ Hs. eapply handler_started_poll; eauto. apply (ti_started Hi); auto.
  - (* die *)
    split; cbn [loc ph status chan bull proc mk_thread]; try discriminate.
    + apply (ti_hist Hi).
    + intros Hr. destruct (handler_proc_die _ _ _ _ _ _ _ H2) as [->|Hl]; auto. apply (ti_run Hi); auto.
  - (* bulletin *)
    split; cbn [loc ph status chan bull proc mk_thread].
    + apply (ti_act Hi).
    + intros y Hy. apply (ti_hist Hi). rewrite H. right. exact Hy.
    + apply (ti_run Hi).
    + apply (ti_fin Hi).
    + apply (ti_started Hi).
  - (* proc *)
    split; cbn [loc ph status chan bull proc set_proc].
    + apply (ti_act Hi).
    + apply (ti_hist Hi).
    + intros _. apply (ti_run Hi); auto.
    + apply (ti_fin Hi).
    + intros Hs _. apply (ti_started Hi); auto. destruct (proc t); try discriminate; reflexivity.
  - (* crash *)
    split; cbn [loc ph status chan bull proc set_status]; try discriminate.
    + apply (ti_hist Hi).
    + apply (ti_run Hi).
Qed.

Lemma Inv_step cfg s x s' b : Inv cfg s -> step_ex cfg s x = Some (s', b) -> Inv cfg s'.
Proof.
  intros HI Hs. destruct (step_ex_cases _ _ _ _ _ Hs) as [t [t' [Ht [Hthr Hc]]]].
  set (i := tid_step x) in *.
  assert (Hti : tinv0 t) by (eapply inv_thr; eauto).
  split.
  - rewrite Hthr, upd_keys. apply (inv_keys HI).
  - apply (inv_nodup HI).
  - intros j tj. unfold tget. rewrite Hthr, get_upd.
    destruct (N.eqb_spec j i) as [->|Hne].
    + unfold tget in Ht. rewrite Ht. intros E; inversion E; subst. eapply tinv0_step; eauto.
    + apply (inv_thr HI).
  - intros j sc tj Hf. unfold tget. rewrite Hthr, get_upd.
    destruct (N.eqb_spec j i) as [->|Hne].
    + unfold tget in Ht. rewrite Ht. intros E; inversion E; subst tj; clear E. intros Hpw.
      assert (Hold : past_wait (loc t) = true \/ started (proc t) = true -> deps_loc_ok cfg s' sc = true).
      { intros Hx. eapply deps_loc_ok_stable; eauto. eapply (inv_deps HI); eauto. }
      destruct Hc; subst t'; cbn [loc proc mk_thread set_proc set_status] in Hpw; auto.
      * (* next *)
        rewrite Hf in H; inversion H; subst sc0; clear H.
        destruct Hpw as [Hpw|Hpw].
        -- destruct (handler_past_wait _ _ _ _ _ _ _ H2 Hpw) as [Hx|Hx]; auto.
           eapply deps_loc_ok_stable; eauto. apply deps_bull_loc; auto.
        -- destruct (handler_proc_next _ _ _ _ _ _ _ H2) as [->|Hl]; auto.
           apply Hold. left. unfold past_wait. rewrite Hl. reflexivity.
      * (* poll *)
        destruct Hpw as [Hpw|Hpw]; auto.
        destruct (handler_proc_poll _ _ _ _ _ _ H2) as [->|[Hl _]]; auto.
        apply Hold. left. unfold past_wait. rewrite Hl. reflexivity.
      * (* die *)
        destruct Hpw as [Hpw|Hpw]; auto.
        destruct (handler_proc_die _ _ _ _ _ _ _ H2) as [->|Hl]; auto.
        apply Hold. left. unfold past_wait. rewrite Hl. reflexivity.
      * (* proc *)
        destruct Hpw as [Hpw|Hpw]; auto. apply Hold. right.
        destruct (proc t); try discriminate; reflexivity.
    + intros Htj Hpw. eapply deps_loc_ok_stable; eauto. eapply (inv_deps HI); eauto.
Qed.

Lemma Inv_step_fn cfg s x s' : Inv cfg s -> step_fn cfg s x = Some s' -> Inv cfg s'.
Proof.
  unfold step_fn. destruct (step_ex cfg s x) as [[s1 b]|] eqn:E; [|discriminate].
  intros HI H; inversion H; subst. eapply Inv_step; eauto.
Qed.

Lemma Inv_run_sched cfg sch : forall s, Inv cfg s -> Inv cfg (run_sched cfg s sch).
Proof.
  induction sch as [|x r IH]; cbn [run_sched]; auto.
  intros s HI. destruct (step_fn cfg s x) eqn:E; auto. apply IH. eapply Inv_step_fn; eauto.
Qed.

Lemma Inv_run cfg sch s : run cfg sch = Accepted s -> Inv cfg s.
Proof.
  unfold run. destruct (init cfg) as [r|s0] eqn:E; [discriminate|].
  intros H; inversion H; subst. apply Inv_run_sched. apply Inv_init; auto.
Qed.

(* ---------------------------------------------------------------------------------------- *)
(* C10                                                                                      *)
(* ---------------------------------------------------------------------------------------- *)
Lemma edges_deps cfg i j :
  In (i, j) (edges cfg) <-> exists sc, In sc (c_steps cfg) /\ s_id sc = i /\ In j (deps_of cfg sc).
Proof.
  unfold edges. rewrite in_flat_map. split.
  - intros [sc [Hsc Hin]]. apply in_map_iff in Hin. destruct Hin as [j' [E Hj]]. inversion E; subst. eauto.
  - intros [sc [Hsc [E Hj]]]. exists sc. split; auto. apply in_map_iff. exists j. subst; auto.
Qed.

Lemma edges_find cfg i j :
  NoDup (step_ids cfg) -> In (i, j) (edges cfg) ->
  exists sc, find_step (c_steps cfg) i = Some sc /\ In j (deps_of cfg sc).
Proof.
  intros Hnd H. apply edges_deps in H. destruct H as [sc [Hsc [E Hj]]]. exists sc. split; auto.
  subst i. apply find_step_In; auto.
Qed.

Lemma loc_of_terminal_thread s j :
  is_terminal (loc_of s j) = true -> exists tj, tget (thr s) j = Some tj /\ loc_of s j = loc tj.
Proof.
  unfold loc_of. destruct (tget (thr s) j) as [tj|]; [eauto|discriminate].
Qed.

Lemma started_after_dependencies_lemma cfg sch s i j sc ti :
  run cfg sch = Accepted s ->
  find_step (c_steps cfg) i = Some sc -> In j (deps_of cfg sc) ->
  tget (thr s) i = Some ti -> started (proc ti) = true ->
  exists tj, tget (thr s) j = Some tj /\ is_running (proc tj) = false /\
             (is_done (loc tj) = true \/ (s_when sc = Always /\ is_terminal (loc tj) = true)).
Proof.
  intros Hrun Hf Hj Hti Hst. pose proof (Inv_run _ _ _ Hrun) as HI.
  assert (Hd : deps_loc_ok cfg s sc = true) by (eapply (inv_deps HI); eauto).
  unfold deps_loc_ok in Hd. rewrite forallb_forall in Hd. specialize (Hd _ Hj).
  pose proof (dep_ok_terminal _ _ Hd) as Hterm.
  destruct (loc_of_terminal_thread _ _ Hterm) as [tj [Htj El]]. rewrite El in *.
  exists tj. split; auto. split.
  - destruct (is_running (proc tj)) eqn:Hr; auto.
    pose proof (ti_run (inv_thr HI _ _ Htj) Hr) as Hl. unfold is_terminal, is_done, is_broken in Hterm. rewrite Hl in Hterm. discriminate.
  - unfold dep_ok in Hd. apply orb_true_iff in Hd. destruct Hd as [Hd|Hd]; auto.
    apply andb_true_iff in Hd. destruct Hd as [Hw Ht]. right. split; auto.
    unfold when_always in Hw. destruct (s_when sc); auto; discriminate.
Qed.

Lemma run_sched_loc_stable cfg sch : forall s k,
  Inv cfg s -> is_terminal (loc_of s k) = true -> loc_of (run_sched cfg s sch) k = loc_of s k.
Proof.
  induction sch as [|x r IH]; cbn [run_sched]; auto.
  intros s k HI Hterm. unfold step_fn. destruct (step_ex cfg s x) as [[s1 b]|] eqn:E; auto.
  assert (E1 : loc_of s1 k = loc_of s k) by (eapply step_loc_stable; eauto).
  rewrite IH; auto.
  - eapply Inv_step; eauto.
  - rewrite E1; auto.
Qed.

Lemma downstream_of_failed_never_starts_lemma cfg sch s i j sc :
  run cfg sch = Accepted s ->
  find_step (c_steps cfg) i = Some sc -> In j (deps_of cfg sc) ->
  is_broken (loc_of s j) = true -> s_when sc <> Always ->
  forall sch' ti, tget (thr (run_sched cfg s sch')) i = Some ti -> proc ti = NotStarted.
Proof.
  intros Hrun Hf Hj Hbr Hw sch' ti Hti. pose proof (Inv_run _ _ _ Hrun) as HI.
  pose proof (Inv_run_sched cfg sch' _ HI) as HI'.
  assert (El : loc_of (run_sched cfg s sch') j = loc_of s j).
  { apply run_sched_loc_stable; auto. unfold is_terminal. rewrite Hbr. apply orb_true_r. }
  destruct (started (proc ti)) eqn:Hst; [|destruct (proc ti); auto; discriminate].
  exfalso.
  assert (Hd : deps_loc_ok cfg (run_sched cfg s sch') sc = true) by (eapply (inv_deps HI'); eauto).
  unfold deps_loc_ok in Hd. rewrite forallb_forall in Hd. specialize (Hd _ Hj). rewrite El in Hd.
  unfold dep_ok in Hd. apply orb_true_iff in Hd. destruct Hd as [Hd|Hd].
  - unfold is_done, is_broken in *. destruct (fst (loc_of s j)); discriminate.
  - apply andb_true_iff in Hd. destruct Hd as [Hd _]. unfold when_always in Hd. destruct (s_when sc); try discriminate. apply Hw; reflexivity.
Qed.

Lemma cyclic_rejected_lemma cfg sch :
  acyclicb cfg = false -> exists r, run cfg sch = Rejected r.
Proof.
  intros H. unfold run, init. rewrite H.
  destruct (negb (wf_cfg cfg)); [eexists; reflexivity|].
  destruct (negb (forallb _ _)); eexists; reflexivity.
Qed.

Inductive path (es : list (step * step)) : step -> step -> Prop :=
  | path_one i j : In (i, j) es -> path es i j
  | path_cons i j k : In (i, j) es -> path es j k -> path es i k.

Lemma check_topo_path ord es i k :
  check_topo ord es = true -> path es i k ->
  exists a b, index_of k ord = Some a /\ index_of i ord = Some b /\ (a < b)%nat.
Proof.
  intros Hc Hp. unfold check_topo in Hc. rewrite forallb_forall in Hc.
  induction Hp as [i j Hin|i j k Hin Hp IH].
  - specialize (Hc _ Hin). cbn [fst snd] in Hc.
    destruct (index_of j ord) as [a|]; [|discriminate]. destruct (index_of i ord) as [b|]; [|discriminate].
    apply Nat.ltb_lt in Hc. eauto.
  - specialize (Hc _ Hin). cbn [fst snd] in Hc.
    destruct IH as [a [b [Ha [Hb Hlt]]]]. rewrite Hb in Hc.
    destruct (index_of i ord) as [c|]; [|discriminate]. apply Nat.ltb_lt in Hc.
    exists a, c. split; auto. split; auto. lia.
Qed.

Lemma accepted_no_cycle_lemma cfg : acyclicb cfg = true -> forall i, ~ path (edges cfg) i i.
Proof.
  unfold acyclicb, toposort. destruct (topo _ _ _ _) as [ord|]; [|discriminate].
  destruct (check_topo ord (edges cfg)) eqn:Hc; [|discriminate].
  intros _ i Hp. destruct (check_topo_path _ _ _ _ Hc Hp) as [a [b [Ha [Hb Hlt]]]].
  rewrite Ha in Hb. inversion Hb; subst. lia.
Qed.

Lemma run_accepted_acyclic cfg sch s : run cfg sch = Accepted s -> acyclicb cfg = true.
Proof.
  unfold run, init. destruct (negb (wf_cfg cfg)); [discriminate|].
  destruct (negb (forallb _ _)); [discriminate|].
  destruct (acyclicb cfg); auto. discriminate.
Qed.

(* every read of a declared output that dependencies_to_path recognises is an edge *)
Lemma dep_reads_edge cfg r p d o :
  In r (c_steps cfg) -> In p (c_steps cfg) -> In d (s_deps r) -> In o (s_outs p) ->
  dep_reads cfg d o = true -> In (s_id r, s_id p) (edges cfg).
Proof.
  intros Hr Hp Hd Ho Hread. apply edges_deps. exists r. split; auto. split; auto.
  unfold deps_of. apply nodupN_In. apply in_or_app. right.
  unfold implicit_targets. apply in_flat_map. exists p. split; auto.
  assert (E : reads_output_of cfg r p = true).
  { unfold reads_output_of. apply existsb_exists. exists o. split; auto. apply existsb_exists. exists d. auto. }
  rewrite E. left; auto.
Qed.

Lemma explicit_edge cfg r j : In r (c_steps cfg) -> In (DStep j) (s_deps r) -> In (s_id r, j) (edges cfg).
Proof.
  intros Hr Hd. apply edges_deps. exists r. split; auto. split; auto.
  unfold deps_of. apply nodupN_In. apply in_or_app. left.
  unfold explicit_targets. apply in_flat_map. exists (DStep j). split; auto. left; auto.
Qed.

Lemma edges_cover_declared_reads_lemma cfg r p d o :
  In r (c_steps cfg) -> In p (c_steps cfg) -> In d (s_deps r) -> In o (s_outs p) ->
  file_like d = true -> sem_reads d o = true -> In (s_id r, s_id p) (edges cfg).
Proof.
  intros Hr Hp Hd Ho Hf Hs. eapply dep_reads_edge; eauto.
  destruct d; try discriminate. exact Hs.
Qed.

Lemma edges_cover_all_reads_lemma cfg r p d o :
  Known_glob_on_absent_output cfg = false ->
  In r (c_steps cfg) -> In p (c_steps cfg) -> In d (s_deps r) -> In o (s_outs p) ->
  sem_reads d o = true -> In (s_id r, s_id p) (edges cfg).
Proof.
  intros Hk Hr Hp Hd Ho Hs. eapply dep_reads_edge; eauto.
  destruct (dep_reads cfg d o) eqn:E; auto. exfalso.
  destruct (file_like d) eqn:Hf.
  - destruct d; try discriminate. cbn in *. congruence.
  - assert (Known_glob_on_absent_output cfg = true); [|congruence].
    unfold Known_glob_on_absent_output.
    apply existsb_exists. exists r. split; auto.
    apply existsb_exists. exists p. split; auto.
    apply existsb_exists. exists o. split; auto.
    apply existsb_exists. exists d. split; auto.
    rewrite Hf, Hs, E. reflexivity.
Qed.

(* with the repair of P16 the graph construction recognises every semantic read *)
Lemma sem_reads_dep_reads_fixed cfg d o : fixed_P16 cfg = true -> sem_reads d o = true -> dep_reads cfg d o = true.
Proof.
  intros Hfx. destruct d as [j|p|ms|ms rec|]; cbn [sem_reads dep_reads]; auto; intros H; rewrite Hfx, H.
  - reflexivity.
  - apply orb_true_r.
Qed.

Lemma glob_class_fixed cfg : fixed_P16 cfg = true -> Known_glob_on_absent_output cfg = false.
Proof.
  intros Hfx. unfold Known_glob_on_absent_output.
  destruct (existsb _ (c_steps cfg)) eqn:E; auto. exfalso.
  apply existsb_exists in E. destruct E as [r [_ E]].
  apply existsb_exists in E. destruct E as [p [_ E]].
  apply existsb_exists in E. destruct E as [o [_ E]].
  apply existsb_exists in E. destruct E as [d [_ E]].
  apply andb_true_iff in E. destruct E as [E E2]. apply andb_true_iff in E. destruct E as [_ E1].
  rewrite (sem_reads_dep_reads_fixed _ _ _ Hfx E1) in E2. discriminate.
Qed.

Lemma edges_cover_all_reads_fixed_lemma cfg r p d o :
  fixed_P16 cfg = true ->
  In r (c_steps cfg) -> In p (c_steps cfg) -> In d (s_deps r) -> In o (s_outs p) ->
  sem_reads d o = true -> In (s_id r, s_id p) (edges cfg).
Proof. intros Hfx. apply edges_cover_all_reads_lemma. apply glob_class_fixed; exact Hfx. Qed.

(* ---------------------------------------------------------------------------------------- *)
(* C13: the pool                                                                            *)
(* ---------------------------------------------------------------------------------------- *)
Definition is_Running (l : lstate) : bool := match fst l with Running => true | _ => false end.
Definition is_TRun (st : tstatus) : bool := match st with TRun => true | _ => false end.
(* the thread holds a process slot *)
Definition holder (t : thread) : bool := is_Running (loc t) && (is_TRun (status t) || started (proc t)).
Definition hv (t : thread) : N := if holder t then 1 else 0.

Lemma handler_pool_next cfg s sc t l p sl v c b :
  fix_shared_pool cfg = true -> fix_atomic_acquire cfg = true -> slots s = [(0, v)] ->
  status t = TRun ->
  handler cfg s sc t = HNext l p sl ->
  exists v', sl = [(0, v')] /\ v' + hv (mk_thread l PSend TRun c b p) <= v + hv t.
Proof.
  intros Hsh Hat Hsl Hst H. unfold hv, holder. rewrite Hst.
  unfold handler, compare_outcome, goto, slot_val, skey in H.
  rewrite Hsh, Hat, Hsl in H. cbn [nget get N.eqb upd] in H.
  destruct (loc t) as [st ev] eqn:Hl; destruct st; destruct ev as [[]|]; cbn [fst snd] in H;
    repeat break_match_hyp; try discriminate H; inversion H; subst; clear H;
    cbn [loc status proc mk_thread is_Running fst andb orb is_TRun started];
    eexists; (split; [reflexivity|]); try lia.
  all: try (match goal with Hlt : N.ltb 0 _ = true |- _ => apply N.ltb_lt in Hlt end; lia).
Qed.

Lemma handler_pool_die cfg s sc t panic p sl v c b :
  fix_shared_pool cfg = true -> fix_atomic_acquire cfg = true -> slots s = [(0, v)] ->
  status t = TRun -> (started (proc t) = true -> after_start (loc t) = true) ->
  handler cfg s sc t = HDie panic p sl ->
  exists v', sl = [(0, v')] /\ v' + hv (mk_thread (loc t) PAct (TDead panic) c b p) <= v + hv t.
Proof.
  intros Hsh Hat Hsl Hst Hstarted H. unfold hv, holder. rewrite Hst.
  unfold handler, compare_outcome, goto, slot_val, skey in H.
  rewrite Hsh, Hat, Hsl in H. cbn [nget get N.eqb upd] in H.
  destruct (loc t) as [st ev] eqn:Hl; destruct st; destruct ev as [[]|]; cbn [fst snd] in H;
    repeat break_match_hyp; try discriminate H; inversion H; subst; clear H;
    cbn [loc status proc mk_thread is_Running fst andb orb is_TRun started];
    eexists; (split; [reflexivity|]); try lia.
  all: try (match goal with Hp : proc ?x = _ |- _ => rewrite Hp end; cbn [started]; lia).
  all: destruct (started (proc t)); try lia.
  all: cbn [after_start] in Hstarted; specialize (Hstarted eq_refl); discriminate.
Qed.

Definition PoolInv (cfg : config) (s : gstate) : Prop :=
  exists v, slots s = [(0, v)] /\ v + N.of_nat (cnt holder (thr s)) <= c_pool cfg.

Lemma cnt_upd_N (f : thread -> bool) m k t t0 :
  NoDup (map fst m) -> get N.eqb m k = Some t0 ->
  N.of_nat (cnt f (upd m k t)) + (if f t0 then 1 else 0) = N.of_nat (cnt f m) + (if f t then 1 else 0).
Proof.
  intros Hnd Hg. pose proof (cnt_upd f m k t t0 Hnd Hg) as E.
  destruct (f t0), (f t); lia.
Qed.

Lemma cnt_le {V} (f g : V -> bool) (m : list (N * V)) :
  (forall k v, In (k, v) m -> f v = true -> g v = true) -> (cnt f m <= cnt g m)%nat.
Proof.
  unfold cnt. induction m as [|[k v] r IH]; cbn [filter snd length]; auto.
  intros H. assert (IH' := IH (fun k0 v0 Hin => H k0 v0 (or_intror Hin))).
  destruct (f v) eqn:Ef.
  - rewrite (H k v (or_introl eq_refl) Ef). cbn [length]. lia.
  - destruct (g v); cbn [length]; lia.
Qed.

Lemma cnt_init f l : f init_thread = false -> cnt f (map (fun i : N => (i, init_thread)) l) = 0%nat.
Proof.
  intros H. unfold cnt. induction l as [|a r IH]; cbn [map filter snd]; auto. rewrite H. exact IH.
Qed.

Lemma PoolInv_init cfg s0 : fix_shared_pool cfg = true -> init cfg = Accepted s0 -> PoolInv cfg s0.
Proof.
  intros Hsh. unfold init. destruct (negb (wf_cfg cfg)); [discriminate|].
  destruct (negb (forallb _ _)); [discriminate|]. destruct (negb (acyclicb cfg)); [discriminate|].
  intros H; inversion H; subst; clear H. exists (c_pool cfg). unfold init_state; cbn [slots thr].
  rewrite Hsh. split; auto. rewrite cnt_init by reflexivity. lia.
Qed.

Lemma PoolInv_step cfg s x s' b :
  fix_shared_pool cfg = true -> fix_atomic_acquire cfg = true ->
  Inv cfg s -> PoolInv cfg s -> step_ex cfg s x = Some (s', b) -> PoolInv cfg s'.
Proof.
  intros Hsh Hat HI [v [Hsl Hle]] Hs.
  destruct (step_ex_cases _ _ _ _ _ Hs) as [t [t' [Ht [Hthr Hc]]]].
  assert (Hti : tinv0 t) by (eapply inv_thr; eauto).
  assert (Hnd : NoDup (map fst (thr s))) by (rewrite (inv_keys HI); apply (inv_nodup HI)).
  assert (Hcnt := cnt_upd_N holder (thr s) (tid_step x) t' t Hnd Ht). fold (hv t) in Hcnt. fold (hv t') in Hcnt.
  assert (Key : exists v', slots s' = [(0, v')] /\ v' + hv t' <= v + hv t).
  { destruct Hc; subst.
    - exists v. split; [congruence|]. unfold hv, holder. cbn [loc status proc mk_thread]. rewrite H.
      destruct (is_terminal (loc t)); cbn [is_TRun orb]; destruct (is_Running (loc t)), (started (proc t)); cbn [andb orb]; lia.
    - eapply handler_pool_next; eauto.
    - exists v. split; [congruence|]. unfold hv, holder. cbn [loc status proc mk_thread]. rewrite H0. lia.
    - exists v. split; [congruence|]. unfold hv, holder. cbn [loc status proc mk_thread]. rewrite H0. cbn [is_TRun orb]. lia.
    - eapply handler_pool_die; eauto. apply (ti_started Hti); auto.
    - exists v. split; [congruence|]. unfold hv, holder. cbn [loc status proc mk_thread]. lia.
    - exists v. split; [congruence|]. unfold hv, holder. cbn [loc status proc set_proc].
      assert (E1 : started (proc t) = true) by (destruct (proc t); try discriminate; reflexivity).
      assert (E2 : started p' = true) by (destruct H2 as [H2|[c H2]]; [destruct p'; try discriminate; reflexivity|subst; reflexivity]).
      rewrite E1, E2. lia.
    - exists v. split; [congruence|]. unfold hv, holder. cbn [loc status proc set_status]. rewrite H.
      cbn [is_TRun orb]. destruct (is_Running (loc t)), (started (proc t)); cbn [andb orb]; lia. }
  destruct Key as [v' [Hsl' Hle']]. exists v'. split; auto. rewrite Hthr. lia.
Qed.

Lemma PoolInv_run_sched cfg sch : forall s,
  fix_shared_pool cfg = true -> fix_atomic_acquire cfg = true ->
  Inv cfg s -> PoolInv cfg s -> PoolInv cfg (run_sched cfg s sch).
Proof.
  induction sch as [|x r IH]; cbn [run_sched]; auto.
  intros s Hsh Hat HI HP. unfold step_fn. destruct (step_ex cfg s x) as [[s1 b]|] eqn:E; auto.
  apply IH; auto.
  - eapply Inv_step; eauto.
  - eapply PoolInv_step; eauto.
Qed.

Lemma running_le_holders cfg s : Inv cfg s -> (count_running s <= cnt holder (thr s))%nat.
Proof.
  intros HI. unfold count_running. change (length (filter (fun kv : step * thread => is_running (proc (snd kv))) (thr s)))
    with (cnt (fun t => is_running (proc t)) (thr s)).
  apply cnt_le. intros k t Hin Hr.
  assert (Hnd : NoDup (map fst (thr s))) by (rewrite (inv_keys HI); apply (inv_nodup HI)).
  pose proof (In_pair_get _ _ _ Hnd Hin) as Hg.
  pose proof (inv_thr HI _ _ Hg) as Hti.
  unfold holder, is_Running. rewrite (ti_run Hti Hr). cbn [andb].
  destruct (proc t); try discriminate. cbn [started]. apply orb_true_r.
Qed.

Lemma pool_respected_lemma cfg sch s :
  fix_shared_pool cfg = true -> fix_atomic_acquire cfg = true ->
  run cfg sch = Accepted s -> N.of_nat (count_running s) <= c_pool cfg.
Proof.
  intros Hsh Hat Hrun. pose proof (Inv_run _ _ _ Hrun) as HI.
  assert (HP : PoolInv cfg s).
  { unfold run in Hrun. destruct (init cfg) as [r|s0] eqn:E; [discriminate|]. inversion Hrun; subst.
    apply PoolInv_run_sched; auto. apply Inv_init; auto. apply PoolInv_init; auto. }
  destruct HP as [v [_ Hle]]. pose proof (running_le_holders _ _ HI). lia.
Qed.

Lemma pool1_exclusive_lemma cfg sch s i j ti tj :
  fix_shared_pool cfg = true -> fix_atomic_acquire cfg = true -> c_pool cfg = 1 ->
  run cfg sch = Accepted s -> tget (thr s) i = Some ti -> tget (thr s) j = Some tj ->
  is_running (proc ti) = true -> is_running (proc tj) = true -> i = j.
Proof.
  intros Hsh Hat Hp Hrun Hi Hj Hri Hrj.
  pose proof (pool_respected_lemma _ _ _ Hsh Hat Hrun) as Hle. rewrite Hp in Hle.
  destruct (N.eq_dec i j) as [|Hne]; auto. exfalso.
  (* two distinct running entries make the count at least 2 *)
  assert (H2 : (2 <= count_running s)%nat).
  { unfold count_running. unfold tget in Hi, Hj. revert Hi Hj. generalize (thr s) as m.
    induction m as [|[k t] r IH]; cbn [get]; [discriminate|].
    destruct (N.eqb_spec k i) as [Ei|Ei]; destruct (N.eqb_spec k j) as [Ej|Ej]; intros H1 H2'.
    - congruence.
    - inversion H1; subst t. cbn [filter snd]. rewrite Hri. cbn [length].
      assert ((1 <= length (filter (fun kv : step * thread => is_running (proc (snd kv))) r))%nat).
      { clear IH H1. induction r as [|[k2 t2] r2 IH2]; cbn [get] in H2'; [discriminate|].
        destruct (N.eqb k2 j).
        - inversion H2'; subst. cbn [filter snd]. rewrite Hrj. cbn [length]. lia.
        - cbn [filter snd]. destruct (is_running (proc t2)); cbn [length]; [lia|]. auto. }
      lia.
    - inversion H2'; subst t. cbn [filter snd]. rewrite Hrj. cbn [length].
      assert ((1 <= length (filter (fun kv : step * thread => is_running (proc (snd kv))) r))%nat).
      { clear IH H2'. induction r as [|[k2 t2] r2 IH2]; cbn [get] in H1; [discriminate|].
        destruct (N.eqb k2 i).
        - inversion H1; subst. cbn [filter snd]. rewrite Hri. cbn [length]. lia.
        - cbn [filter snd]. destruct (is_running (proc t2)); cbn [length]; [lia|]. auto. }
      lia.
    - specialize (IH H1 H2'). cbn [filter snd]. destruct (is_running (proc t)); cbn [length]; lia. }
  lia.
Qed.

(* the full statement of C10 over the SEMANTIC reading relation, outside the known class *)
Lemma C10_semantic_lemma cfg sch s r p d o tr :
  Known_glob_on_absent_output cfg = false ->
  run cfg sch = Accepted s ->
  In r (c_steps cfg) -> In p (c_steps cfg) -> In d (s_deps r) -> In o (s_outs p) -> sem_reads d o = true ->
  tget (thr s) (s_id r) = Some tr -> started (proc tr) = true ->
  exists tp, tget (thr s) (s_id p) = Some tp /\ is_running (proc tp) = false /\
             (is_done (loc tp) = true \/ (s_when r = Always /\ is_terminal (loc tp) = true)).
Proof.
  intros Hk Hrun Hr Hp Hd Ho Hs Htr Hst.
  pose proof (Inv_run _ _ _ Hrun) as HI.
  pose proof (edges_cover_all_reads_lemma _ _ _ _ _ Hk Hr Hp Hd Ho Hs) as He.
  destruct (edges_find _ _ _ (inv_nodup HI) He) as [sc [Hf Hj]].
  assert (E : find_step (c_steps cfg) (s_id r) = Some r) by (apply find_step_In; auto; apply (inv_nodup HI)).
  rewrite E in Hf. inversion Hf; subst sc.
  eapply started_after_dependencies_lemma; eauto.
Qed.

Lemma C10_full_fixed_lemma cfg sch s r p d o tr :
  fixed_P16 cfg = true ->
  run cfg sch = Accepted s ->
  In r (c_steps cfg) -> In p (c_steps cfg) -> In d (s_deps r) -> In o (s_outs p) -> sem_reads d o = true ->
  tget (thr s) (s_id r) = Some tr -> started (proc tr) = true ->
  exists tp, tget (thr s) (s_id p) = Some tp /\ is_running (proc tp) = false /\
             (is_done (loc tp) = true \/ (s_when r = Always /\ is_terminal (loc tp) = true)).
Proof. intros Hfx. apply C10_semantic_lemma. apply glob_class_fixed; exact Hfx. Qed.

Lemma verdicts_are_final_lemma cfg sch s k sch' :
  run cfg sch = Accepted s -> is_terminal (loc_of s k) = true ->
  loc_of (run_sched cfg s sch') k = loc_of s k.
Proof. intros Hrun Ht. apply run_sched_loc_stable; auto. eapply Inv_run; eauto. Qed.
