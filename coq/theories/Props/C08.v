(* C08 — Metadata stores replay to exactly what was written.
   Property theorems only: statement, [exact] of a lemma of Ecs/Proofs.v, a [Check] pinning the
   statement, an [Example] showing the hypotheses are satisfiable, [Print Assumptions]. *)
From Coq Require Import List Bool NArith Lia.
From XV Require Import Base.Amap Ecs.Model Ecs.Proofs.
Import ListNotations.

Section C08.
Variable V : Type.
Variable veqb : V -> V -> bool.
Hypothesis veqb_spec : forall a b, reflect (a = b) (veqb a b).

(* 1. Any sequence of insert / update / remove / save / reload, saves under fresh file names:
      the in-memory map is the reference map, and what the directory loads to is the reference
      map as of the last save. *)
Theorem replay_refines_map (ops : list (op V)) :
  fresh_names ops 0 = true ->
  let '(s, d) := run veqb ops (init_st veqb) in
  let '(c, sv) := rrun ops ([], []) in
  (forall e, eget (smap s) e = eget c e) /\
  (forall e, eget (smap (from_dir veqb d)) e = eget sv e).
Proof. exact (@replay_refines_map_lemma V veqb veqb_spec ops). Qed.

(* 2. Lookups by value return exactly the current holders, after every operation sequence
      (in session and after reload; no assumption on file names). *)
Theorem index_exact (ops : list (op V)) (v : V) :
  let s := fst (run veqb ops (init_st veqb)) in
  match entities_for veqb s v with
  | Some l => l <> [] /\ NoDup l /\ (forall e, In e l <-> eget (smap s) e = Some v)
  | None => forall e, eget (smap s) e <> Some v
  end.
Proof. exact (@index_exact_lemma V veqb veqb_spec ops v). Qed.

(* 3. Saving never rewrites or deletes another file, and adds at most the one new name. *)
Theorem save_append_only ts (d : dir V) (s : store V) n c :
  n <> ts -> dget d n = Some c -> dget (to_dir ts d s) n = Some c.
Proof. exact (@save_append_only_lemma V ts d s n c). Qed.

Theorem save_adds_at_most_one ts (d : dir V) (s : store V) n :
  In n (keys (to_dir ts d s)) -> n = ts \/ In n (keys d).
Proof. exact (@save_adds_at_most_ts V ts d s n). Qed.

(* 4. Event files of two divergent branches, interleaved in ANY order by their names: an entity
      that the files of one branch never mention loads exactly as without those files. *)
Theorem merge_disjoint_union (D D1 D2 : dir V) e :
  Interleave D D1 D2 -> untouched e D2 ->
  eget (smap (from_dir veqb D)) e = eget (smap (from_dir veqb D1)) e.
Proof. exact (@merge_disjoint_union_lemma V veqb D D1 D2 e). Qed.
End C08.

(* 5. Entities handed out in a linear history of sessions are pairwise distinct even when all
      random words are equal, as long as the 64-bit counter does not wrap. *)
Theorem entities_fresh_linear xs d hi n0 c0 l d' :
  last_opt d = Some (n0, c0) -> ec_names_below d hi -> gs_fresh xs hi = true ->
  (c0 + N.of_nat (gs_total xs) < two64)%N ->
  gen_sessions d xs = Some (l, d') -> NoDup (map fst l) /\ NoDup l.
Proof. exact (@entities_fresh_linear_lemma xs d hi n0 c0 l d'). Qed.

(* ---- the statements are pinned ------------------------------------------------------------ *)
Check replay_refines_map :
  forall (V : Type) (veqb : V -> V -> bool), (forall a b, reflect (a = b) (veqb a b)) ->
  forall ops : list (op V), fresh_names ops 0 = true ->
  let '(s, d) := run veqb ops (init_st veqb) in
  let '(c, sv) := rrun ops ([], []) in
  (forall e, eget (smap s) e = eget c e) /\
  (forall e, eget (smap (from_dir veqb d)) e = eget sv e).
Check index_exact :
  forall (V : Type) (veqb : V -> V -> bool), (forall a b, reflect (a = b) (veqb a b)) ->
  forall (ops : list (op V)) (v : V),
  let s := fst (run veqb ops (init_st veqb)) in
  match entities_for veqb s v with
  | Some l => l <> [] /\ NoDup l /\ (forall e, In e l <-> eget (smap s) e = Some v)
  | None => forall e, eget (smap s) e <> Some v
  end.

(* ---- non-vacuity: concrete histories meet the hypotheses and exercise the branches ------- *)
Definition h1 : list (op N) :=
  [OIns (1, 7) 10; OIns (2, 7) 10; OSave 100; OLoad; OIns (1, 7) 11; OUpd (2, 7) 12;
   ORem (1, 7); OSave 101; OIns (3, 7) 10; OLoad]%N.
Example h1_fresh : fresh_names h1 0 = true.
Proof. vm_compute. reflexivity. Qed.
Example h1_result :
  smap (fst (run N.eqb h1 (init_st N.eqb))) = [((2, 7), 12)]%N /\
  entities_for N.eqb (fst (run N.eqb h1 (init_st N.eqb))) 12%N = Some [(2, 7)%N] /\
  entities_for N.eqb (fst (run N.eqb h1 (init_st N.eqb))) 10%N = None.
Proof. vm_compute. repeat split. Qed.

Example merge_example :
  let A  : dir N := [(1, [Add (1, 0) 5; Add (2, 0) 6])]%N in
  let B1 : dir N := [(3, [Add (1, 0) 50])]%N in
  let B2 : dir N := [(2, [Remove (2, 0)]); (4, [Add (2, 0) 60])]%N in
  Interleave (dmerge (dmerge A B1) B2) (dmerge A B1) B2 /\ untouched (1, 0)%N B2.
Proof.
  vm_compute. split.
  - repeat constructor.
  - intros f [<-|[<-|[]]]; reflexivity.
Qed.

Example gen_example :
  gen_sessions [(5, 1)]%N
    [ {| gs_rnd := 9; gs_k := 2; gs_ts := 6; gs_save := true |};
      {| gs_rnd := 9; gs_k := 0; gs_ts := 7; gs_save := true |};
      {| gs_rnd := 9; gs_k := 3; gs_ts := 8; gs_save := true |} ]%N
  = Some ([(1, 9); (2, 9); (3, 9); (4, 9); (5, 9)], [(5, 1); (6, 3); (8, 6)])%N.
Proof. vm_compute. reflexivity. Qed.

(* without fresh names a second save under the same name loses the first file (limitation of
   timestamp-named files; recorded in DESIGN.md section 3) *)
Example save_collision_refuted :
  let ops := [OIns (1, 0) 5; OSave 7; OLoad; OIns (2, 0) 6; OSave 7; OLoad]%N in
  fresh_names ops 0 = false /\
  eget (smap (fst (run N.eqb ops (init_st N.eqb)))) (1, 0)%N = None.
Proof. vm_compute. split; reflexivity. Qed.

Print Assumptions replay_refines_map.
Print Assumptions index_exact.
Print Assumptions save_append_only.
Print Assumptions save_adds_at_most_one.
Print Assumptions merge_disjoint_union.
Print Assumptions entities_fresh_linear.
