(* C06 -- send and bring through a storage form a lossless round trip (local and generic storages).
   Only: theorems closed by [exact], statement pins, non-vacuity examples, refutation witnesses for the
   behaviour of the unchanged tree (P9: EXDEV from a temporary directory on another file system; P10: a
   partially downloaded file enters the cache) and for the class the repaired tree still has (a partially
   UPLOADED object is brought back as if it were good), Print Assumptions.
   cf : cfg carries the switches; as_is = the unchanged tree, all_fixed = with repo-patches 63, 64 and 65
   (65: `send --force` to a local storage removed the stored object before looking for the cache object). *)
From Coq Require Import List Bool NArith.
From XV Require Import Base.Amap Base.Bytes Storage.Model Storage.Proofs.
Import ListNotations.

(* 1 (core).  After `send T` (local storage, or generic storage whose commands succeed), in a clone with the
   same records and guid and an empty cache, `bring T'` with T' a sub-list of T -- through either kind of
   storage on the same directory, with or without --force, targets visited in any order, with duplicates,
   whatever the storage held before -- does not panic and makes every path of T' read its committed bytes,
   whatever its recheck method.  The workspace files of T' in the clone are absent, or what the committed
   version left (a copy, a now dangling link), or anything at all with --force. *)
Theorem send_bring_roundtrip :
  forall cf k1 k2 tmp r0 st T fsend f1 clone T' force f2,
    all_ok f1 = true -> all_ok f2 = true -> tmp || fixed_P9 cf = true ->
    (forall p, In p T -> exists b, committed r0 p = Some b) ->
    incl T' T ->
    r_guid clone = r_guid r0 -> r_recs clone = r_recs r0 -> r_cache clone = [] ->
    (force = true \/ forall p, In p T' -> ws_unmodified r0 clone p) ->
    snd (bring cf k2 tmp clone (fst (send cf k1 r0 st T fsend f1)) T' force f2) <> Panic /\
    forall p, In p T' ->
      ws_read (fst (bring cf k2 tmp clone (fst (send cf k1 r0 st T fsend f1)) T' force f2)) p = committed r0 p.
Proof. exact roundtrip. Qed.

(* 2.  Layout: whatever fails, a send writes only keys <guid of the sender>/<cache address of the current
   digest of one of its file targets>; a successful one puts every target there with its committed bytes;
   repositories with distinct guids never collide: what one sends changes no object of the other and no
   result of the other's brings. *)
Theorem storage_layout :
  forall cf k r st ts force fs g' a,
    sget (fst (send cf k r st ts force fs)) (g', a) <> sget st (g', a) ->
    g' = r_guid r /\ exists p x, In p ts /\ rget r p = Some x /\ a = cache_addr p (r_digest x).
Proof. exact send_layout. Qed.

Theorem sent_objects_are_stored :
  forall cf k r st ts force fs p b,
    all_ok fs = true -> (forall q, In q ts -> exists c, committed r q = Some c) -> In p ts -> committed r p = Some b ->
    exists a, addr_of r p = Some a /\ sget (fst (send cf k r st ts force fs)) (r_guid r, a) = Some b.
Proof. exact send_ok_stores. Qed.

Theorem distinct_guids_never_collide :
  forall cf k1 k2 tmp r1 r2 st ts1 ts2 force fsend fs1 fs2,
    r_guid r1 <> r_guid r2 ->
    (forall a, sget (fst (send cf k2 r2 st ts2 fsend fs2)) (r_guid r1, a) = sget st (r_guid r1, a)) /\
    bring cf k1 tmp r1 (fst (send cf k2 r2 st ts2 fsend fs2)) ts1 force fs1 = bring cf k1 tmp r1 st ts1 force fs1.
Proof. exact no_collision. Qed.

(* 3.  Repeating changes nothing (states equal pointwise), from ANY state: also when the local send stopped
   at a missing object, when the storage lacks objects, with --force, with duplicates. *)
Theorem send_idempotent :
  forall cf k r st ts force fs1 fs2 key,
    all_ok fs1 = true -> all_ok fs2 = true ->
    sget (fst (send cf k r (fst (send cf k r st ts force fs1)) ts force fs2)) key = sget (fst (send cf k r st ts force fs1)) key.
Proof. exact send_idem. Qed.

(* "sending again changes nothing" also for what a send cannot send: whatever fails, a send never REMOVES a
   stored object (it may replace it) -- for the repaired local storage, without --force, or through a generic
   storage.  On the unchanged tree `send --force` from a repository that lacks the cache object removes the
   stored copy and then fails (send_force_loses_object_refuted below). *)
Definition C06_send_never_removes (cf : cfg) : Prop :=
  forall k r st ts force fs key b,
    sget st key = Some b -> exists b', sget (fst (send cf k r st ts force fs)) key = Some b'.
Theorem send_never_removes : forall cf, fixed_send_force cf = true -> C06_send_never_removes cf.
Proof.
  intros cf H k r st ts force fs key b Hb.
  apply (send_present cf k r st ts force fs key b); [|exact Hb].
  left. rewrite H. now destruct force.
Qed.
Theorem send_without_force_never_removes :
  forall cf k r st ts fs key b, sget st key = Some b -> exists b', sget (fst (send cf k r st ts false fs)) key = Some b'.
Proof. intros cf k r st ts fs key b Hb. exact (send_present cf k r st ts false fs key b (or_introl eq_refl) Hb). Qed.

Theorem bring_idempotent :
  forall cf k tmp r st ts force fs1 fs2,
    all_ok fs1 = true -> all_ok fs2 = true -> tmp || fixed_P9 cf = true ->
    let r1 := fst (bring cf k tmp r st ts force fs1) in
    let r2 := fst (bring cf k tmp r1 st ts force fs2) in
    (forall a, cget (r_cache r2) a = cget (r_cache r1) a) /\ (forall p, wget (r_ws r2) p = wget (r_ws r1) p) /\
    r_recs r2 = r_recs r1.
Proof. exact bring_idem. Qed.

(* 4.  Every fault sequence.  A world is any number of repositories (clones share a guid) around one storage
   directory; a history is any list of clone / drop-the-cache / user delete / user write / send / bring steps,
   each transfer with its own kind, targets, order, --force, temporary-directory location and fault schedule.
   [ok_steps ok_upload] restricts the upload faults; the download faults are never restricted. *)
Definition structural_step (s : step) : bool :=
  match s with SNew _ _ _ | STrack _ _ _ _ => false | _ => true end.
Definition C06_no_wrong_object (allowed : step -> bool) (cf : cfg) : Prop :=
  forall (truth : guid -> cache) steps w,
    forallb allowed steps = true -> world_sound truth w -> world_sound truth (wrun cf w steps).

(* proved for the repaired fetch, for every history in which no UPLOAD command fails after writing half
   (Known class, boolean: transfer_step = structural_step + no_partial on the faults of every send) *)
Theorem failed_transfer_leaves_no_wrong_object :
  forall cf, fixed_P10 cf = true -> C06_no_wrong_object transfer_step cf.
Proof. intros cf H truth steps w Hs Hw. exact (wrun_sound truth cf steps w H Hs Hw). Qed.

(* one command: whatever the download commands do and wherever the temporary directory is *)
Theorem bring_admits_no_wrong_object :
  forall truth cf k tmp r st ts force fs,
    fixed_P10 cf = true -> agrees truth (r_cache r) -> storage_sound truth (r_guid r) st ->
    agrees truth (r_cache (fst (bring cf k tmp r st ts force fs))).
Proof. exact bring_sound. Qed.

(* ... and sound means: complete (the committed bytes) and fitting the address *)
Theorem sound_objects_fit_their_address :
  forall truth w, world_sound truth w -> (forall g, cas_ok (truth g)) ->
    forall i r, wrepo w i = Some r -> cas_ok (r_cache r).
Proof. intros truth w [Hr _] Hc i r H. exact (agrees_cas _ _ (Hc (r_guid r)) (Hr i r H)). Qed.

(* 5.  The result of bring does not depend on where the temporary directory is. *)
Definition C06_tmp_location_irrelevant (cf : cfg) : Prop :=
  forall k r st ts force fs, bring cf k true r st ts force fs = bring cf k false r st ts force fs.
Theorem tmp_location_irrelevant : forall cf, fixed_P9 cf = true -> C06_tmp_location_irrelevant cf.
Proof. intros cf H k r st ts force fs. exact (tmp_irrelevant cf k r st ts force fs H). Qed.

Check send_bring_roundtrip.
Check storage_layout.
Check failed_transfer_leaves_no_wrong_object : forall cf, fixed_P10 cf = true -> C06_no_wrong_object transfer_step cf.
Check tmp_location_irrelevant : forall cf, fixed_P9 cf = true -> C06_tmp_location_irrelevant cf.

(* ---- non-vacuity and witnesses -------------------------------------------------------------------------------- *)
Local Open Scope N_scope.
Definition A_TXT : path := [97; 46; 116; 120; 116].            (* a.txt *)
Definition B_TXT : path := [98; 46; 116; 120; 116].            (* b.txt *)
Definition ALPHA : bytes := [97; 108; 112; 104; 97; 10].       (* "alpha\n" *)
Definition BETA : bytes := [98; 101; 116; 97; 32; 98; 101; 116; 97; 10].
(* the origin: two tracked files (one rechecked as a symbolic link), guid 7 *)
Definition R0 : repo :=
  track (track {| r_guid := 7; r_algo := B3; r_recs := []; r_cache := []; r_ws := [] |} A_TXT Copy ALPHA) B_TXT Symlink BETA.
Definition CLONE : repo := {| r_guid := 7; r_algo := B3; r_recs := r_recs R0; r_cache := []; r_ws := [] |}.

Example hypotheses_met :
  (forall p, In p [A_TXT; B_TXT] -> exists b, committed R0 p = Some b) /\ incl [B_TXT] [A_TXT; B_TXT] /\
  r_guid CLONE = r_guid R0 /\ r_recs CLONE = r_recs R0 /\ r_cache CLONE = [] /\
  (forall p, In p [B_TXT] -> ws_unmodified R0 CLONE p).
Proof.
  refine (conj _ (conj _ (conj eq_refl (conj eq_refl (conj eq_refl _))))).
  - intros p [<-|[<-|[]]]; [exists ALPHA|exists BETA]; vm_compute; reflexivity.
  - intros p [<-|[]]. right; left; reflexivity.
  - intros p [<-|[]]. exact I.
Qed.

(* the round trip computed: local and generic, temporary directory on another file system, repaired tree *)
Example roundtrip_instance :
  ws_read (fst (bring all_fixed Generic false CLONE (fst (send all_fixed Local R0 [] [A_TXT; B_TXT] false [])) [B_TXT; A_TXT] false [])) B_TXT = Some BETA
  /\ ws_read (fst (bring all_fixed Local false CLONE (fst (send all_fixed Generic R0 [] [A_TXT; B_TXT] true [])) [A_TXT] false [])) A_TXT = Some ALPHA.
Proof. split; vm_compute; reflexivity. Qed.

(* the same on the unchanged tree with the temporary directory on the repository's file system *)
Example roundtrip_instance_as_is :
  ws_read (fst (bring as_is Local true CLONE (fst (send all_fixed Local R0 [] [A_TXT; B_TXT] false [])) [B_TXT; A_TXT] false [])) B_TXT = Some BETA.
Proof. vm_compute. reflexivity. Qed.

(* P9 (unchanged tree): TMPDIR on another file system -- bring panics and brings nothing; on the
   repository's file system it succeeds: the result depends on where the temporary directory is *)
Theorem exdev_refuted : ~ C06_tmp_location_irrelevant as_is.
Proof.
  intros H.
  specialize (H Local CLONE (fst (send as_is Local R0 [] [A_TXT] false [])) [A_TXT] false []).
  vm_compute in H. discriminate H.
Qed.
Example exdev_panics :
  snd (bring as_is Local false CLONE (fst (send as_is Local R0 [] [A_TXT] false [])) [A_TXT] false []) = Panic
  /\ ws_read (fst (bring as_is Local false CLONE (fst (send as_is Local R0 [] [A_TXT] false [])) [A_TXT] false [])) A_TXT = None.
Proof. split; vm_compute; reflexivity. Qed.

(* the witnesses of the fault theorems: origin 0 and its clone 1 around an empty storage *)
Definition W0 : world := {| repos := [(0, R0)]; stor := [] |}.
Definition TRUTH : guid -> cache := fun _ => r_cache R0.
Lemma W0_sound : world_sound TRUTH W0.
Proof.
  split.
  - intros i r. unfold wrepo, W0; cbn [repos get]. destruct (N.eqb 0 i); [|discriminate].
    intros H; injection H as <-. intros a b Hb; exact Hb.
  - intros g a b H; discriminate H.
Qed.
Definition ADDR_A : caddr := cache_addr A_TXT (digest_of B3 ALPHA).

(* P10 (unchanged tree): the download command writes half and fails: the half is moved to the cache address *)
Definition P10_STEPS : list step :=
  [SSend 0 Generic false [A_TXT] []; SClone 0 1; SBring 1 Generic true false [A_TXT] [FPartial]].
Theorem partial_download_refuted : ~ C06_no_wrong_object transfer_step as_is.
Proof.
  intros H. destruct (H TRUTH P10_STEPS W0 eq_refl W0_sound) as [Hr _].
  assert (E : wrepo (wrun as_is W0 P10_STEPS) 1 = Some (fst (bring as_is Generic true CLONE (fst (send as_is Generic R0 [] [A_TXT] false [])) [A_TXT] false [FPartial])))
    by (vm_compute; reflexivity).
  specialize (Hr 1 _ E ADDR_A [97; 108; 112] eq_refl). vm_compute in Hr. discriminate Hr.
Qed.
(* the same history on the repaired tree leaves the cache of the clone without that object *)
Example partial_download_fixed :
  cget (r_cache (fst (bring all_fixed Generic true CLONE (fst (send as_is Generic R0 [] [A_TXT] false [])) [A_TXT] false [FPartial]))) ADDR_A = None.
Proof. vm_compute. reflexivity. Qed.
(* the same address requested twice (two paths, one content): first download complete, second one partial;
   reported (by the first) and partial (by the second) -- why the repair also asks for every address once *)
Example duplicate_address_as_is :
  let r := track R0 [99; 46; 116; 120; 116] Copy ALPHA in        (* c.txt with the content of a.txt *)
  let cl := {| r_guid := 7; r_algo := B3; r_recs := r_recs r; r_cache := []; r_ws := [] |} in
  cget (r_cache (fst (bring as_is Generic true cl (fst (send as_is Generic r [] [A_TXT] false [])) [A_TXT; [99; 46; 116; 120; 116]] false [FOk; FPartial]))) ADDR_A
  = Some [97; 108; 112]
  /\ cget (r_cache (fst (bring all_fixed Generic true cl (fst (send as_is Generic r [] [A_TXT] false [])) [A_TXT; [99; 46; 116; 120; 116]] false [FOk; FPartial]))) ADDR_A
  = Some ALPHA.
Proof. split; vm_compute; reflexivity. Qed.

(* the class that remains after both repairs: an UPLOAD command that fails after writing half leaves the half
   in the storage; a later bring whose download succeeds takes it for the object (bring does not re-hash) *)
Definition UPLOAD_STEPS : list step :=
  [SSend 0 Generic false [A_TXT] [FPartial]; SClone 0 1; SBring 1 Generic true false [A_TXT] []].
Theorem partial_upload_refuted : ~ C06_no_wrong_object structural_step all_fixed.
Proof.
  intros H. destruct (H TRUTH UPLOAD_STEPS W0 eq_refl W0_sound) as [Hr _].
  assert (E : wrepo (wrun all_fixed W0 UPLOAD_STEPS) 1 = Some (fst (bring all_fixed Generic true CLONE (fst (send all_fixed Generic R0 [] [A_TXT] false [FPartial])) [A_TXT] false [])))
    by (vm_compute; reflexivity).
  specialize (Hr 1 _ E ADDR_A [97; 108; 112] eq_refl). vm_compute in Hr. discriminate Hr.
Qed.
Example known_class_is_boolean : forallb transfer_step UPLOAD_STEPS = false /\ forallb transfer_step P10_STEPS = true.
Proof. split; reflexivity. Qed.

(* a non-trivial history for theorem 4: faults of both kinds on the downloads, a failing upload, a repeated
   bring, the temporary directory on another file system; the clone ends with the one object it could get *)
Definition MIXED_STEPS : list step :=
  [SSend 0 Generic true [A_TXT; B_TXT] [FOk; FClean]; SClone 0 1; SBring 1 Generic false false [B_TXT; A_TXT] [FPartial; FPartial];
   SBring 1 Generic false true [A_TXT; B_TXT] [FOk; FClean]; SDropCache 0; SBring 0 Local true false [A_TXT; B_TXT] []].
Example mixed_history :
  forallb transfer_step MIXED_STEPS = true /\
  match wrepo (wrun all_fixed W0 MIXED_STEPS) 1 with
  | Some r => cget (r_cache r) ADDR_A = Some ALPHA /\ length (r_cache r) = 1%nat /\ ws_read r A_TXT = Some ALPHA
  | None => False
  end.
Proof. split; [reflexivity|]. vm_compute. repeat split; reflexivity. Qed.

(* layout instance: the key written is <guid 7>/<address of a.txt> *)
Example layout_instance :
  sget (fst (send as_is Local R0 [] [A_TXT] false [])) (7, ADDR_A) = Some ALPHA /\ sget (fst (send as_is Local R0 [] [A_TXT] false [])) (8, ADDR_A) = None.
Proof. split; vm_compute; reflexivity. Qed.

(* unchanged tree: the clone (empty cache) runs `send --force a.txt` to the local storage: the stored object is
   removed, then the copy fails; repaired, the object stays *)
Theorem send_force_loses_object_refuted : ~ C06_send_never_removes as_is.
Proof.
  intros H.
  destruct (H Local CLONE (fst (send as_is Local R0 [] [A_TXT] false [])) [A_TXT] true [] (7, ADDR_A) ALPHA eq_refl) as [b' Hb].
  vm_compute in Hb. discriminate Hb.
Qed.
Example send_force_fixed :
  sget (fst (send all_fixed Local CLONE (fst (send as_is Local R0 [] [A_TXT] false [])) [A_TXT] true [])) (7, ADDR_A) = Some ALPHA
  /\ snd (send all_fixed Local CLONE (fst (send as_is Local R0 [] [A_TXT] false [])) [A_TXT] true []) = Err.
Proof. split; vm_compute; reflexivity. Qed.

Print Assumptions send_bring_roundtrip.
Print Assumptions storage_layout.
Print Assumptions sent_objects_are_stored.
Print Assumptions distinct_guids_never_collide.
Print Assumptions send_idempotent.
Print Assumptions send_never_removes.
Print Assumptions send_without_force_never_removes.
Print Assumptions send_force_loses_object_refuted.
Print Assumptions bring_idempotent.
Print Assumptions failed_transfer_leaves_no_wrong_object.
Print Assumptions bring_admits_no_wrong_object.
Print Assumptions sound_objects_fit_their_address.
Print Assumptions tmp_location_irrelevant.
Print Assumptions exdev_refuted.
Print Assumptions partial_download_refuted.
Print Assumptions partial_upload_refuted.
