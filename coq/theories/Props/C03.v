(* C03 -- no xvc command destroys workspace data it has not saved.
   Over M-REPO (Repo/Model.v), for EVERY repository reachable by any history of user actions and
   track / carry-in / recheck commands (outside the class [relink]: a commit that renames a workspace
   link into the cache, open finding of C02), every unforced command and every workspace path:
   the bytes readable at the path before the command are readable there afterwards, or the path has a
   record whose digest names a cache object holding them -- exactly, or (text files, class [alias], P2)
   up to CR/LF bytes.  copy / move / untrack: Repo/Ext (Props/C19, C05) and the inventory oracle. *)
From Coq Require Import List Bool NArith.
From XV Require Import Base.Amap Base.Bytes Repo.Model Repo.Inv Repo.Restore Repo.Stamps Repo.Main Repo.Safe Repo.Fix Repo.FixProofs Repo.SafeFix.
Import ListNotations.

Theorem no_unsaved_data_destroyed r it p b :
  reachable_r r -> mon_item relink r it = false -> unforced_cmd it = true ->
  ws_read (fs r) p = Some b ->
  ws_read (fs (fst (do_item r it))) p = Some b \/
  exists e x d b', find_path (recs (fst (do_item r it))) p = Some (e, x) /\ r_digest x = Some d /\
                   obj_read (fs (fst (do_item r it))) (cache_addr p d) = Some b' /\
                   (b' = b \/ alias_pair b b' = true).
Proof. exact (unforced_keeps_or_saves_exact r it p b). Qed.

(* the same up to line breaks, without any class *)
Theorem no_unsaved_data_destroyed_modulo_line_breaks r it p b :
  reachable_r r -> mon_item relink r it = false -> unforced_cmd it = true ->
  ws_read (fs r) p = Some b ->
  ws_read (fs (fst (do_item r it))) p = Some b \/ saved (fst (do_item r it)) p b.
Proof. exact (unforced_keeps_or_saves r it p b). Qed.

(* the full statement (exact bytes, no class) is false of the faithful model: P2 *)
Theorem exact_bytes_refuted : ~ unforced_exact_full.
Proof. exact unforced_exact_refuted. Qed.

(* the same for the commands with the repair switches of Repo/Fix.v (P44 / P42, P41, P49, P43; with all switches off
   this is the model above: Props/C02.v model_with_switches_off), for EVERY value of the switches: the repository is
   reached outside K_x fx (relink only while P41 is not repaired; Props/C02.v), the command is unforced -- a track with
   an explicit method includes the recheck that ends it once P43 is repaired *)
Theorem no_unsaved_data_destroyed_x fx r it p b :
  reachable_x fx r -> K_item_x fx r it = false -> unforced_cmd it = true ->
  ws_read (fs r) p = Some b ->
  ws_read (fs (fst (do_item_x fx r it))) p = Some b \/
  exists e x d b', find_path (recs (fst (do_item_x fx r it))) p = Some (e, x) /\ r_digest x = Some d /\
                   obj_read (fs (fst (do_item_x fx r it))) (cache_addr p d) = Some b' /\
                   (b' = b \/ alias_pair b b' = true).
Proof. exact (unforced_keeps_or_saves_exact_x fx r it p b). Qed.

Theorem no_unsaved_data_destroyed_modulo_line_breaks_x fx r it p b :
  reachable_x fx r -> K_item_x fx r it = false -> unforced_cmd it = true ->
  ws_read (fs r) p = Some b ->
  ws_read (fs (fst (do_item_x fx r it))) p = Some b \/ saved (fst (do_item_x fx r it)) p b.
Proof. exact (unforced_keeps_or_saves_x fx r it p b). Qed.

Check no_unsaved_data_destroyed :
  forall r it p b, reachable_r r -> mon_item relink r it = false -> unforced_cmd it = true ->
  ws_read (fs r) p = Some b ->
  ws_read (fs (fst (do_item r it))) p = Some b \/
  exists e x d b', find_path (recs (fst (do_item r it))) p = Some (e, x) /\ r_digest x = Some d /\
                   obj_read (fs (fst (do_item r it))) (cache_addr p d) = Some b' /\
                   (b' = b \/ alias_pair b b' = true).

(* non-vacuity: a reachable repository with a modified tracked file and an untracked file; an unforced
   recheck with another method is refused for the modified file and leaves both files alone *)
Local Open Scope N_scope.
Definition A : path := [97; 46; 116].        (* a.t *)
Definition U : path := [117; 46; 116].       (* u.t *)
Definition T0 : track_opts := {| t_method := None; t_tob := None; t_no_commit := false; t_force := false |}.
Definition H0 : list item := [UWrite A [1; 2; 3]; UWrite U [9]; XTrack T0 [A]; UWrite A [4; 5]].
Definition R0 : repo := run_items (init_repo B3 Copy Auto) H0.
Definition K0 : item := XRecheck {| k_method := Some Symlink; k_force := false |} [A].
Example premises_hold :
  reachable_r R0 /\ mon_item relink R0 K0 = false /\ unforced_cmd K0 = true /\
  ws_read (fs R0) A = Some [4; 5] /\ ws_read (fs R0) U = Some [9] /\
  ws_read (fs (fst (do_item R0 K0))) A = Some [4; 5] /\ ws_read (fs (fst (do_item R0 K0))) U = Some [9].
Proof. split; [apply reachable_r_run; vm_compute; reflexivity|]. vm_compute. repeat split. Qed.

Print Assumptions no_unsaved_data_destroyed.
Print Assumptions no_unsaved_data_destroyed_modulo_line_breaks.
Print Assumptions exact_bytes_refuted.
Print Assumptions no_unsaved_data_destroyed_x.
Print Assumptions no_unsaved_data_destroyed_modulo_line_breaks_x.
