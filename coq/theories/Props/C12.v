(* C12 — Steps re-run exactly when something they depend on changed.
   Property theorems only: statement, [exact] of a lemma of Inval/Proofs.v, a [Check] pinning the
   statement, [Example]s (non-vacuity, *_refuted witnesses by vm_compute), [Print Assumptions].

   The model (Inval/Model.v) is parameterised by [variant]: (v_own_only, v_consult) = (false, false) is the
   code before the repair of P15, (true, true) after it; v_glob_content = false is the code before the repair of
   glob-member-touch (P73: GlobDep::diff_thorough compares the metadata digests too), true after it; [v_code] is
   what Gen/DiffTables.v, regenerated from /repo, says the code does now (two source facts, one executed table).
   [tho_same (msens v cfg)] is "the code's thorough comparison finds the record identical", [content_same] is
   "names and contents are what the record says" (the property's "unchanged"); they coincide outside the class
   Known_glob_touch, which is empty when v_glob_content v = true.  Every theorem quantifies over every schedule [order] of the step threads'
   check phases.  A step is "executed" when its number is in [o_exec] (the journal of the run). *)
From Coq Require Import List Bool NArith Arith.
From XV Require Import Gen.DiffTables Inval.Model Inval.Proofs Inval.Outcomes.
Import ListNotations.

(* ---- 1. steps marked never never execute: every variant, every schedule ------------------------------ *)
Theorem never_is_never v cfg recs world order i c :
  nth_error cfg i = Some c -> s_when c = WNever -> ~ In i (o_exec (run v cfg recs world order)).
Proof. exact (never_is_never_lemma v cfg recs world order i c). Qed.

(* ---- 2. a run in which some step did not end done records nothing ------------------------------------ *)
Theorem failed_run_records_nothing v cfg recs world order :
  forallb is_done (o_states (run v cfg recs world order)) = false ->
  o_records (run v cfg recs world order) = recs.
Proof. exact (failed_run_records_nothing_lemma v cfg recs world order). Qed.

(* ---- 3. a really changed dependency is acted on: every variant --------------------------------------
   [d] is a dependency of step [i] that no step's command writes; its recorded fingerprints differ from the
   world's (no record at all, or superficial AND content-level fingerprints differ: edits_visible; [tho_compare false]
   is the comparison of the content-level fingerprints alone).  If the thread
   of [i] ends in a terminal state, the command was executed, or [i] is broken because a step it depends on
   is broken, or because another of its dependencies cannot be inspected. *)
Theorem change_is_acted_on v cfg recs world i c d w order :
  nth_error cfg i = Some c -> In d (s_deps c) -> rc_never (rcond c) = false ->
  getN world d = Some w ->
  changed (sup_compare (getN recs d) w) = true -> changed (tho_compare false (getN recs d) w) = true ->
  (forall k ck, nth_error cfg k = Some ck -> ~ In d (map fst (s_effs ck))) ->
  let o := run v cfg recs world order in
  is_terminal (nth i (o_states o) LInit) = true ->
  In i (o_exec o) \/ nth i (o_states o) LInit = LBroken BDepSteps \/ nth i (o_states o) LInit = LBroken BMissingDep.
Proof.
  intros H1 H2 H3 H4 H5 H6 H7.
  exact (change_is_acted_on_lemma v cfg recs world i c d w H1 H2 H3 H4 H5 (tho_changed_mono _ _ _ H6) H7 order).
Qed.

(* ---- 4. execution propagates to dependent steps: variants whose thorough-not-changed branch consults the
        dependency steps (the repaired code) ---------------------------------------------------------------- *)
Definition propagates (v : variant) : Prop :=
  forall cfg recs world i c j order,
  nth_error cfg i = Some c -> rc_never (rcond c) = false -> In j (s_edges c) ->
  let o := run v cfg recs world order in
  is_terminal (nth i (o_states o) LInit) = true ->
  nth j (o_states o) LInit = LDone true ->
  In i (o_exec o) \/ nth i (o_states o) LInit = LBroken BDepSteps \/ nth i (o_states o) LInit = LBroken BMissingDep.

Theorem propagates_downstream v : v_consult v = true -> propagates v.
Proof. intros H cfg recs world i c j order H1 H2 H3. exact (propagates_downstream_lemma v cfg recs world i c j H H1 H2 H3 order). Qed.

(* ---- 5. always / no-dependency steps run: every variant ------------------------------------------------- *)
Theorem forced_steps_run v cfg recs world i c order :
  nth_error cfg i = Some c -> rc_always (rcond c) = true ->
  let o := run v cfg recs world order in
  is_terminal (nth i (o_states o) LInit) = true ->
  In i (o_exec o) \/ nth i (o_states o) LInit = LBroken BMissingDep.
Proof. intros H1 H2. exact (forced_runs_lemma v cfg recs world i c H1 H2 order). Qed.

(* ---- 6. steps unrelated to a change are not executed; a touch is not a change --------------------------
   Step [i] is neither always nor without dependencies; the thorough fingerprint of each of its dependencies
   equals the record (the superficial one may differ: touched); commands write dependencies of [i] only if
   [i] depends on their step.  Then [i] is executed only if a step it depends on was executed. *)
Definition unrelated_not_executed_at (v : variant) cfg recs world i c order : Prop :=
  nth_error cfg i = Some c -> rc_always (rcond c) = false ->
  (forall d, In d (s_deps c) -> tho_same (msens v cfg) recs world d = true) ->
  (forall k ck d, nth_error cfg k = Some ck -> In d (s_deps c) -> In d (map fst (s_effs ck)) -> In k (s_edges c)) ->
  In i (o_exec (run v cfg recs world order)) ->
  exists j, In j (s_edges c) /\ In j (o_exec (run v cfg recs world order)).
Definition C12_unrelated_full (v : variant) : Prop :=
  forall cfg recs world i c order, unrelated_not_executed_at v cfg recs world i c order.

Theorem unrelated_not_executed v : v_own_only v = true -> C12_unrelated_full v.
Proof. intros H cfg recs world i c order H1 H2 H3 H4. exact (unrelated_not_executed_lemma v cfg recs world i c H H1 H2 H3 H4 order). Qed.

Theorem touch_is_not_change v cfg recs world i c order :
  v_own_only v = true ->
  nth_error cfg i = Some c -> rc_always (rcond c) = false ->
  (forall d, In d (s_deps c) -> tho_same (msens v cfg) recs world d = true) ->
  (forall k ck d, nth_error cfg k = Some ck -> In d (s_deps c) -> In d (map fst (s_effs ck)) -> In k (s_edges c)) ->
  (forall j, In j (s_edges c) -> ~ In j (o_exec (run v cfg recs world order))) ->
  ~ In i (o_exec (run v cfg recs world order)).
Proof.
  intros H H1 H2 H3 H4 H5 Hi.
  destruct (unrelated_not_executed_lemma v cfg recs world i c H H1 H2 H3 H4 order Hi) as [j [Hj1 Hj2]].
  exact (H5 j Hj1 Hj2).
Qed.

(* the unrepaired code (every variant, in fact) outside the class Known_P15: no step is touch-only, or no step
   has a really changed dependency and no command writes dependencies *)
Theorem unrelated_not_executed_outside_P15 v cfg recs world i c order :
  Known_P15 (msens v cfg) cfg recs world = false -> unrelated_not_executed_at v cfg recs world i c order.
Proof. intros Hk H1 H2 H3 H4. exact (unrelated_outside_P15_lemma v cfg recs world i c H1 H2 H3 H4 Hk order). Qed.

(* ---- 7. after a fully successful run, a second run on the same world -----------------------------------------
   [effects_downstream]: commands write only dependencies of steps that depend on their step;
   [edits_visible]: a record whose superficial fingerprint equals the world's (or a command's output) has the same
   thorough fingerprint.  First: the records left by a run in which every step ended done agree with the world
   the run left (thorough fingerprints), for every dependency of every step not marked never. *)
Theorem successful_run_settles v cfg recs world i c d order :
  effects_downstream cfg -> edits_visible cfg recs world ->
  nth_error cfg i = Some c -> In d (s_deps c) -> rc_never (rcond c) = false ->
  let o := run v cfg recs world order in
  forallb is_done (o_states o) = true -> tho_same (msens v cfg) (o_records o) (o_world o) d = true.
Proof.
  intros He Hv Hc Hd Hn.
  exact (successful_run_settles_lemma v cfg recs world i c d Hc Hd Hn
           (fun k ck Hck X => He i c k ck d Hc Hck Hd X) (fun w Ho => Hv i c d w Hc Hd Ho) order).
Qed.

(* core: the second run executes a step only if it is always / without dependencies, or a step it depends on was
   executed in that run (so, by descent along the edges: only what is downstream of an always / no-dependency step) *)
Theorem rerun_on_unchanged_world v cfg recs world order1 order2 :
  effects_downstream cfg -> edits_visible cfg recs world ->
  let o1 := run v cfg recs world order1 in
  forallb is_done (o_states o1) = true ->
  v_own_only v = true \/ Known_P15 (msens v cfg) cfg (o_records o1) (o_world o1) = false ->
  let o2 := run v cfg (o_records o1) (o_world o1) order2 in
  forall i c, nth_error cfg i = Some c -> In i (o_exec o2) ->
              rc_always (rcond c) = true \/ exists j, In j (s_edges c) /\ In j (o_exec o2).
Proof. exact (rerun_lemma v cfg recs world order1 order2). Qed.

(* the first sentence of the property, literally, outside the class of pipelines in which a by-dependencies step
   depends on a step that can run at all *)
Theorem rerun_only_forced v cfg recs world order1 order2 :
  effects_downstream cfg -> edits_visible cfg recs world ->
  let o1 := run v cfg recs world order1 in
  forallb is_done (o_states o1) = true ->
  v_own_only v = true \/ Known_P15 (msens v cfg) cfg (o_records o1) (o_world o1) = false ->
  Known_downstream_edge cfg = false ->
  let o2 := run v cfg (o_records o1) (o_world o1) order2 in
  forall i c, nth_error cfg i = Some c -> In i (o_exec o2) -> rc_always (rcond c) = true.
Proof. exact (rerun_only_forced_lemma v cfg recs world order1 order2). Qed.

(* ---- 8. glob-member-touch (P73): "a touch is not a change" stated on names and contents ---------------------------
   Step [i] is neither always nor without dependencies; names and contents of each of its dependencies are what the
   record says (modification times may differ, also those of the members of a --glob dependency); commands write
   dependencies of [i] only if [i] depends on their step.  Then [i] is executed only if a step it depends on was. *)
Definition content_unchanged_not_executed_at (v : variant) cfg recs world i c order : Prop :=
  nth_error cfg i = Some c -> rc_always (rcond c) = false ->
  (forall d, In d (s_deps c) -> content_same recs world d = true) ->
  (forall k ck d, nth_error cfg k = Some ck -> In d (s_deps c) -> In d (map fst (s_effs ck)) -> In k (s_edges c)) ->
  In i (o_exec (run v cfg recs world order)) ->
  exists j, In j (s_edges c) /\ In j (o_exec (run v cfg recs world order)).
Definition C12_touch_full (v : variant) : Prop :=
  forall cfg recs world i c order, content_unchanged_not_executed_at v cfg recs world i c order.

(* the repaired code: no class excluded *)
Theorem C12_touch_full_fixed v : v_own_only v = true -> v_glob_content v = true -> C12_touch_full v.
Proof.
  intros Ho Hg cfg recs world i c order H1 H2 H3 H4.
  exact (content_unchanged_not_executed_lemma v cfg recs world i c Ho (glob_class_empty_when_fixed_lemma v cfg recs world Hg) H1 H2 H3 H4 order).
Qed.

(* every variant that restricts the thorough pass, outside the boolean class *)
Theorem touch_outside_glob_class v cfg recs world i c order :
  v_own_only v = true -> Known_glob_touch v cfg recs world = false ->
  content_unchanged_not_executed_at v cfg recs world i c order.
Proof. intros Ho Hk H1 H2 H3 H4. exact (content_unchanged_not_executed_lemma v cfg recs world i c Ho Hk H1 H2 H3 H4 order). Qed.

Theorem glob_class_empty_when_fixed v cfg recs world :
  v_glob_content v = true -> Known_glob_touch v cfg recs world = false.
Proof. exact (glob_class_empty_when_fixed_lemma v cfg recs world). Qed.

(* what the code compares is at least the content: the code-relative notion implies the content-level one, and they
   coincide outside the class *)
Theorem code_unchanged_iff_content_unchanged v cfg recs world d :
  Known_glob_touch v cfg recs world = false ->
  (tho_same (msens v cfg) recs world d = true <-> content_same recs world d = true).
Proof. intros Hk. exact (conj (tho_same_content _ recs world d) (content_to_tho v cfg recs world d Hk)). Qed.

(* the variant selected by the regenerated tables compares a --glob dependency as the executed table of
   GlobDep::diff_thorough / diff_superficial says *)
Theorem code_variant_is_glob_table r w :
  changed (tho_compare (negb (v_glob_content v_code)) (Some r) w) =
    diff_changed (glob_tho_kind (N.eqb (fst r) (fst w)) (N.eqb (fst r) (fst w)) (if N.eqb (snd r) (snd w) then GCsame else GCdiff)) /\
  changed (sup_compare (Some r) w) = diff_changed (glob_sup_kind (N.eqb (fst r) (fst w)) (N.eqb (fst r) (fst w))).
Proof. exact (conj (glob_table_is_tho_compare r w) (glob_table_is_sup_compare r w)). Qed.

(* ---- 9. all_outcomes (what the correspondence check compares the real runs with) is exactly the set of outcomes of
        the maximal schedules: [quiescent]: no thread can take a phase any more.  Phases of threads that are not
        enabled may occur anywhere in a schedule (they do nothing), so "every schedule" of 1-8 and "all_outcomes"
        speak about the same runs. ------------------------------------------------------------------------------ *)
Theorem all_outcomes_sound v cfg recs world o :
  In o (all_outcomes v cfg recs world) ->
  exists order, o = run v cfg recs world order /\ quiescent cfg (run_events v cfg recs (init_state world) order) = true.
Proof. exact (all_outcomes_sound_lemma v cfg recs world o). Qed.

Theorem all_outcomes_complete v cfg recs world order :
  quiescent cfg (run_events v cfg recs (init_state world) order) = true ->
  In (run v cfg recs world order) (all_outcomes v cfg recs world).
Proof. exact (all_outcomes_complete_lemma v cfg recs world order). Qed.

(* in particular every complete outcome (each thread reached a verdict) of any schedule *)
Theorem complete_outcome_in_all_outcomes v cfg recs world order :
  o_complete (run v cfg recs world order) = true -> In (run v cfg recs world order) (all_outcomes v cfg recs world).
Proof. exact (complete_outcome_in_all_lemma v cfg recs world order). Qed.

(* ---- the statements are pinned -------------------------------------------------------------------------- *)
Check never_is_never : forall v cfg recs world order i c,
  nth_error cfg i = Some c -> s_when c = WNever -> ~ In i (o_exec (run v cfg recs world order)).
Check failed_run_records_nothing : forall v cfg recs world order,
  forallb is_done (o_states (run v cfg recs world order)) = false -> o_records (run v cfg recs world order) = recs.
Check propagates_downstream : forall v, v_consult v = true -> propagates v.
Check unrelated_not_executed : forall v, v_own_only v = true -> C12_unrelated_full v.
Check C12_touch_full_fixed : forall v, v_own_only v = true -> v_glob_content v = true -> C12_touch_full v.
Check all_outcomes_complete : forall v cfg recs world order,
  quiescent cfg (run_events v cfg recs (init_state world) order) = true -> In (run v cfg recs world order) (all_outcomes v cfg recs world).
Check glob_class_empty_when_fixed : forall v cfg recs world, v_glob_content v = true -> Known_glob_touch v cfg recs world = false.

(* ---- witnesses ---------------------------------------------------------------------------------------------- *)
Definition mk (w : when3) (deps : list dep) (sdeps ideps : list step) (ok : bool) (effs : list (dep * wval)) : stepcfg :=
  {| s_when := w; s_deps := deps; s_globs := []; s_sdeps := sdeps; s_ideps := ideps; s_ok := ok; s_effs := effs |}.
(* a step whose dependencies are all --glob dependencies *)
Definition mkg (w : when3) (deps : list dep) (sdeps ideps : list step) (ok : bool) (effs : list (dep * wval)) : stepcfg :=
  {| s_when := w; s_deps := deps; s_globs := deps; s_sdeps := sdeps; s_ideps := ideps; s_ok := ok; s_effs := effs |}.

(* P15: steps A(file a), B(file b); a touched (superficial 10 -> 11), b edited (20/200 -> 21/201) *)
Definition cfgP15 : config := [mk WByDependencies [1%N] [] [] true []; mk WByDependencies [2%N] [] [] true []].
Definition recsP15 : list (dep * wval) := [(1, (10, 100)); (2, (20, 200))]%N.
Definition worldP15 : list (dep * wval) := [(1, (11, 100)); (2, (21, 201))]%N.

(* the unrepaired code: the executed set depends on the schedule *)
Example P15_order_a : o_exec (run v_unfixed cfgP15 recsP15 worldP15 [0; 1; 0; 1]) = [0; 1].
Proof. vm_compute. reflexivity. Qed.
Example P15_order_b : o_exec (run v_unfixed cfgP15 recsP15 worldP15 [0; 0; 1; 1]) = [1].
Proof. vm_compute. reflexivity. Qed.
Example P15_class : Known_P15 (msens v_unfixed cfgP15) cfgP15 recsP15 worldP15 = true.
Proof. vm_compute. reflexivity. Qed.

Theorem spurious_rerun_refuted : ~ C12_unrelated_full v_unfixed.
Proof.
  intros H.
  destruct (H cfgP15 recsP15 worldP15 0 (mk WByDependencies [1%N] [] [] true []) [0; 1; 0; 1]) as [j [Hj _]].
  - reflexivity.
  - reflexivity.
  - intros d [<- | []]. reflexivity.
  - intros k ck d Hk _ Hd. destruct k as [|[|k]]; cbn in Hk; [injection Hk as <-; cbn in Hd; destruct Hd | injection Hk as <-; cbn in Hd; destruct Hd | destruct k; discriminate Hk].
  - vm_compute. now left.
  - destruct Hj.
Qed.

(* the repaired code on the same input: every schedule executes B only (non-vacuity of 6: A is touched) *)
Example P15_fixed_all_schedules :
  map (fun o => o_exec o) (all_outcomes v_fixed cfgP15 recsP15 worldP15) = [[1]; [1]; [1]; [1]; [1]; [1]].
Proof. vm_compute. reflexivity. Qed.

(* a step with a touched dependency downstream of an always step: skipped by the unrepaired code (and by a
   repair that only restricts the thorough pass), executed by the repaired code *)
Definition cfgDown : config := [mk WAlways [] [] [] true []; mk WByDependencies [1%N] [0] [] true []].
Definition recsDown : list (dep * wval) := [(1, (10, 100))]%N.
Definition worldDown : list (dep * wval) := [(1, (11, 100))]%N.

Theorem propagates_downstream_refuted_unfixed : ~ propagates v_unfixed.
Proof.
  intros H.
  destruct (H cfgDown recsDown worldDown 1 (mk WByDependencies [1%N] [0] [] true []) 0 [0; 1; 1]) as [Hx | [Hx | Hx]];
    try reflexivity; try (now left); vm_compute in Hx; try discriminate Hx.
  destruct Hx as [Hx | []]. discriminate Hx.
Qed.

Theorem propagates_downstream_refuted_half_fix : ~ propagates {| v_own_only := true; v_consult := false; v_glob_content := true |}.
Proof.
  intros H.
  destruct (H cfgDown recsDown worldDown 1 (mk WByDependencies [1%N] [0] [] true []) 0 [0; 1; 1]) as [Hx | [Hx | Hx]];
    try reflexivity; try (now left); vm_compute in Hx; try discriminate Hx.
  destruct Hx as [Hx | []]. discriminate Hx.
Qed.

Example Down_fixed : o_exec (run v_fixed cfgDown recsDown worldDown [0; 1; 1]) = [0; 1].
Proof. vm_compute. reflexivity. Qed.

(* non-vacuity of 3 (change_is_acted_on): B's dependency 2 really changed; of 2: a failing step *)
Example acted_example :
  changed (sup_compare (getN recsP15 2%N) (21, 201)%N) = true /\ changed (tho_compare false (getN recsP15 2%N) (21, 201)%N) = true /\
  In 1 (o_exec (run v_unfixed cfgP15 recsP15 worldP15 [1; 0; 1; 0])).
Proof. vm_compute. repeat split; now left. Qed.

Definition cfgFail : config := [mk WByDependencies [2%N] [] [] false []; mk WByDependencies [1%N] [0] [] true []; mk WNever [3%N] [] [] true []].
Example failed_example :
  let o := run v_fixed cfgFail recsP15 worldP15 [0; 0; 1; 1; 2] in
  o_exec o = [0] /\ o_states o = [LBroken BExit; LBroken BDepSteps; LDone false] /\ o_records o = recsP15.
Proof. vm_compute. repeat split; reflexivity. Qed.


(* glob-member-touch: one step with a --glob dependency (number 1) whose member was touched: superficial fingerprint
   10 -> 11, names and contents 100 as recorded.  Before the repair the step is executed, after it it is not. *)
Definition v_glob_unfixed : variant := {| v_own_only := true; v_consult := true; v_glob_content := false |}.
Definition cfgGlob : config := [mkg WByDependencies [1%N] [] [] true []].
Definition recsGlob : list (dep * wval) := [(1, (10, 100))]%N.
Definition worldGlob : list (dep * wval) := [(1, (11, 100))]%N.

Theorem glob_touch_refuted : ~ C12_touch_full v_glob_unfixed.
Proof.
  intros H.
  destruct (H cfgGlob recsGlob worldGlob 0 (mkg WByDependencies [1%N] [] [] true []) [0; 0]) as [j [Hj _]].
  - reflexivity.
  - reflexivity.
  - intros d [<- | []]. reflexivity.
  - intros k ck d Hk _ Hd. destruct k as [|k]; cbn in Hk; [injection Hk as <-; cbn in Hd; destruct Hd | destruct k; discriminate Hk].
  - vm_compute. now left.
  - destruct Hj.
Qed.
Example glob_touch_class : Known_glob_touch v_glob_unfixed cfgGlob recsGlob worldGlob = true /\
                           Known_glob_touch v_fixed cfgGlob recsGlob worldGlob = false.
Proof. vm_compute. split; reflexivity. Qed.
(* every schedule: executed before the repair, not executed after it; a changed, an added or a removed member
   (content-level fingerprint 100 -> 101) is acted on by both *)
Example glob_touch_all_schedules :
  map (fun o => o_exec o) (all_outcomes v_glob_unfixed cfgGlob recsGlob worldGlob) = [[0]] /\
  map (fun o => o_exec o) (all_outcomes v_fixed cfgGlob recsGlob worldGlob) = [[]] /\
  map (fun o => o_exec o) (all_outcomes v_glob_unfixed cfgGlob recsGlob [(1, (11, 101))]%N) = [[0]] /\
  map (fun o => o_exec o) (all_outcomes v_fixed cfgGlob recsGlob [(1, (11, 101))]%N) = [[0]].
Proof. vm_compute. repeat split; reflexivity. Qed.
(* the same touch on a dependency that is not a --glob (a file): not executed by either (non-vacuity of the class) *)
Example file_touch_not_executed :
  map (fun o => o_exec o) (all_outcomes v_glob_unfixed [mk WByDependencies [1%N] [] [] true []] recsGlob worldGlob) = [[]] /\
  Known_glob_touch v_glob_unfixed [mk WByDependencies [1%N] [] [] true []] recsGlob worldGlob = false.
Proof. vm_compute. split; reflexivity. Qed.
(* after the repair the record keeps the fingerprints of the last change (as for a file): the touch stays visible
   superficially and the next run compares contents again without executing *)
Example glob_touch_fixed_records :
  let o := run v_fixed cfgGlob recsGlob worldGlob [0; 0] in
  o_exec o = [] /\ o_records o = recsGlob /\ o_states o = [LDone false].
Proof. vm_compute. repeat split; reflexivity. Qed.


(* non-vacuity of 9: a schedule with phases of threads that are not enabled (1 before 0 finished, repeated phases)
   is maximal and complete, its outcome is one of the two of all_outcomes; a schedule that stops early is not *)
Example outcomes_example :
  quiescent cfgDown (run_events v_fixed cfgDown recsDown (init_state worldDown) [1; 1; 0; 1; 0; 1; 1]) = true /\
  o_complete (run v_fixed cfgDown recsDown worldDown [1; 1; 0; 1; 0; 1; 1]) = true /\
  In (run v_fixed cfgDown recsDown worldDown [1; 1; 0; 1; 0; 1; 1]) (all_outcomes v_fixed cfgDown recsDown worldDown) /\
  quiescent cfgDown (run_events v_fixed cfgDown recsDown (init_state worldDown) [0; 1]) = false /\
  length (all_outcomes v_unfixed cfgP15 recsP15 worldP15) = 6.
Proof. vm_compute. repeat split; try reflexivity. now left. Qed.

(* the first sentence of the property read literally ("executes no step except those marked always or having
   no dependencies at all") is refuted, by design, downstream of such a step *)
Definition C12_rerun_full (v : variant) : Prop :=
  forall cfg recs world order i c,
  (forall k ck d, nth_error cfg k = Some ck -> In d (s_deps ck) -> content_same recs world d = true) ->
  nth_error cfg i = Some c -> In i (o_exec (run v cfg recs world order)) -> rc_always (rcond c) = true.
Definition cfgAlw : config := [mk WAlways [] [] [] true []; mk WByDependencies [] [0] [] true []].
Theorem rerun_full_refuted v : ~ C12_rerun_full v.
Proof.
  intros H. specialize (H cfgAlw [] [] [0; 1] 1 (mk WByDependencies [] [0] [] true [])).
  assert (X : rc_always (rcond (mk WByDependencies [] [0] [] true [])) = true).
  { apply H.
    - intros k ck d Hk Hd. destruct k as [|[|k]]; cbn in Hk; [injection Hk as <-; cbn in Hd; destruct Hd | injection Hk as <-; cbn in Hd; destruct Hd | destruct k; discriminate Hk].
    - reflexivity.
    - destruct v as [[] [] []]; vm_compute; right; now left. }
  discriminate X.
Qed.
Example rerun_class : Known_downstream_of_forced cfgAlw = true.
Proof. vm_compute. reflexivity. Qed.

(* non-vacuity of 7: first run of the P15 pipeline from empty records (both steps run, everything is recorded),
   second run on the world it left: nothing is executed, in every schedule, by both variants *)
Example rerun_example :
  let o1 := run v_unfixed cfgP15 [] worldP15 [0; 1; 0; 1] in
  o_exec o1 = [0; 1] /\ forallb is_done (o_states o1) = true /\ o_records o1 = worldP15 /\
  Known_P15 (msens v_unfixed cfgP15) cfgP15 (o_records o1) (o_world o1) = false /\ Known_downstream_edge cfgP15 = false /\
  map (fun o => o_exec o) (all_outcomes v_unfixed cfgP15 (o_records o1) (o_world o1)) = [[]; []] /\
  map (fun o => o_exec o) (all_outcomes v_fixed cfgP15 (o_records o1) (o_world o1)) = [[]; []].
Proof. vm_compute. repeat split; reflexivity. Qed.
Example rerun_hypotheses : effects_downstream cfgP15 /\ edits_visible cfgP15 [] worldP15.
Proof.
  split.
  - intros i c k ck d _ Hk _ Hd. destruct k as [|[|k]]; cbn in Hk;
      [injection Hk as <-; cbn in Hd; destruct Hd | injection Hk as <-; cbn in Hd; destruct Hd | destruct k; discriminate Hk].
  - intros i c d w _ _ _. exact I.
Qed.

Print Assumptions never_is_never.
Print Assumptions failed_run_records_nothing.
Print Assumptions change_is_acted_on.
Print Assumptions propagates_downstream.
Print Assumptions forced_steps_run.
Print Assumptions unrelated_not_executed.
Print Assumptions touch_is_not_change.
Print Assumptions unrelated_not_executed_outside_P15.
Print Assumptions successful_run_settles.
Print Assumptions rerun_on_unchanged_world.
Print Assumptions rerun_only_forced.
Print Assumptions spurious_rerun_refuted.
Print Assumptions propagates_downstream_refuted_unfixed.
Print Assumptions propagates_downstream_refuted_half_fix.
Print Assumptions rerun_full_refuted.
Print Assumptions C12_touch_full_fixed.
Print Assumptions touch_outside_glob_class.
Print Assumptions glob_class_empty_when_fixed.
Print Assumptions code_unchanged_iff_content_unchanged.
Print Assumptions code_variant_is_glob_table.
Print Assumptions glob_touch_refuted.
Print Assumptions all_outcomes_sound.
Print Assumptions all_outcomes_complete.
Print Assumptions complete_outcome_in_all_outcomes.
