(* C12 — Steps re-run exactly when something they depend on changed.
   Property theorems only: statement, [exact] of a lemma of Inval/Proofs.v, a [Check] pinning the
   statement, [Example]s (non-vacuity, *_refuted witnesses by vm_compute), [Print Assumptions].

   The model (Inval/Model.v) is parameterised by [variant]: (v_own_only, v_consult) = (false, false) is the
   code before the repair of P15, (true, true) after it; [v_code] is what Gen/DiffTables.v, regenerated from
   /repo, says the source does now.  Every theorem quantifies over every schedule [order] of the step threads'
   check phases.  A step is "executed" when its number is in [o_exec] (the journal of the run). *)
From Coq Require Import List Bool NArith Arith.
From XV Require Import Gen.DiffTables Inval.Model Inval.Proofs.
Import ListNotations.

(* ---- 1. steps marked never never execute: every variant, every schedule ------------------------------ *)
Theorem never_is_never v cfg recs world order i c :
  nth_error cfg i = Some c -> s_when c = WNever -> ~ In i (o_exec (run v cfg recs world order)).
Proof. exact (never_is_never_lemma v cfg recs world order i c). Qed.

(* ---- 2. a run in which some step did not end done records nothing ------------------------------------ *)
Theorem failed_run_records_nothing v cfg recs world order :
  forallb is_done (o_states (run v cfg recs world order)) = false ->
  o_records (run v cfg recs world order) = recs.
Proof. exact (failed_run_records_nothing_lemma v cfg recs world order). Qed.

(* ---- 3. a really changed dependency is acted on: every variant --------------------------------------
   [d] is a dependency of step [i] that no step's command writes; its recorded fingerprints differ from the
   world's (no record at all, or superficial AND thorough fingerprints differ: edits_visible).  If the thread
   of [i] ends in a terminal state, the command was executed, or [i] is broken because a step it depends on
   is broken, or because another of its dependencies cannot be inspected. *)
Theorem change_is_acted_on v cfg recs world i c d w order :
  nth_error cfg i = Some c -> In d (s_deps c) -> rc_never (rcond c) = false ->
  getN world d = Some w ->
  changed (sup_compare (getN recs d) w) = true -> changed (tho_compare (getN recs d) w) = true ->
  (forall k ck, nth_error cfg k = Some ck -> ~ In d (map fst (s_effs ck))) ->
  let o := run v cfg recs world order in
  is_terminal (nth i (o_states o) LInit) = true ->
  In i (o_exec o) \/ nth i (o_states o) LInit = LBroken BDepSteps \/ nth i (o_states o) LInit = LBroken BMissingDep.
Proof. intros H1 H2 H3 H4 H5 H6 H7. exact (change_is_acted_on_lemma v cfg recs world i c d w H1 H2 H3 H4 H5 H6 H7 order). Qed.

(* ---- 4. execution propagates to dependent steps: variants whose thorough-not-changed branch consults the
        dependency steps (the repaired code) ---------------------------------------------------------------- *)
Definition propagates (v : variant) : Prop :=
  forall cfg recs world i c j order,
  nth_error cfg i = Some c -> rc_never (rcond c) = false -> In j (s_edges c) ->
  let o := run v cfg recs world order in
  is_terminal (nth i (o_states o) LInit) = true ->
  nth j (o_states o) LInit = LDone true ->
  In i (o_exec o) \/ nth i (o_states o) LInit = LBroken BDepSteps \/ nth i (o_states o) LInit = LBroken BMissingDep.

Theorem propagates_downstream v : v_consult v = true -> propagates v.
Proof. intros H cfg recs world i c j order H1 H2 H3. exact (propagates_downstream_lemma v cfg recs world i c j H H1 H2 H3 order). Qed.

(* ---- 5. always / no-dependency steps run: every variant ------------------------------------------------- *)
Theorem forced_steps_run v cfg recs world i c order :
  nth_error cfg i = Some c -> rc_always (rcond c) = true ->
  let o := run v cfg recs world order in
  is_terminal (nth i (o_states o) LInit) = true ->
  In i (o_exec o) \/ nth i (o_states o) LInit = LBroken BMissingDep.
Proof. intros H1 H2. exact (forced_runs_lemma v cfg recs world i c H1 H2 order). Qed.

(* ---- 6. steps unrelated to a change are not executed; a touch is not a change --------------------------
   Step [i] is neither always nor without dependencies; the thorough fingerprint of each of its dependencies
   equals the record (the superficial one may differ: touched); commands write dependencies of [i] only if
   [i] depends on their step.  Then [i] is executed only if a step it depends on was executed. *)
Definition unrelated_not_executed_at (v : variant) cfg recs world i c order : Prop :=
  nth_error cfg i = Some c -> rc_always (rcond c) = false ->
  (forall d, In d (s_deps c) -> tho_same recs world d = true) ->
  (forall k ck d, nth_error cfg k = Some ck -> In d (s_deps c) -> In d (map fst (s_effs ck)) -> In k (s_edges c)) ->
  In i (o_exec (run v cfg recs world order)) ->
  exists j, In j (s_edges c) /\ In j (o_exec (run v cfg recs world order)).
Definition C12_unrelated_full (v : variant) : Prop :=
  forall cfg recs world i c order, unrelated_not_executed_at v cfg recs world i c order.

Theorem unrelated_not_executed v : v_own_only v = true -> C12_unrelated_full v.
Proof. intros H cfg recs world i c order H1 H2 H3 H4. exact (unrelated_not_executed_lemma v cfg recs world i c H H1 H2 H3 H4 order). Qed.

Theorem touch_is_not_change v cfg recs world i c order :
  v_own_only v = true ->
  nth_error cfg i = Some c -> rc_always (rcond c) = false ->
  (forall d, In d (s_deps c) -> tho_same recs world d = true) ->
  (forall k ck d, nth_error cfg k = Some ck -> In d (s_deps c) -> In d (map fst (s_effs ck)) -> In k (s_edges c)) ->
  (forall j, In j (s_edges c) -> ~ In j (o_exec (run v cfg recs world order))) ->
  ~ In i (o_exec (run v cfg recs world order)).
Proof.
  intros H H1 H2 H3 H4 H5 Hi.
  destruct (unrelated_not_executed_lemma v cfg recs world i c H H1 H2 H3 H4 order Hi) as [j [Hj1 Hj2]].
  exact (H5 j Hj1 Hj2).
Qed.

(* the unrepaired code (every variant, in fact) outside the class Known_P15: no step is touch-only, or no step
   has a really changed dependency and no command writes dependencies *)
Theorem unrelated_not_executed_outside_P15 v cfg recs world i c order :
  Known_P15 cfg recs world = false -> unrelated_not_executed_at v cfg recs world i c order.
Proof. intros Hk H1 H2 H3 H4. exact (unrelated_outside_P15_lemma v cfg recs world i c H1 H2 H3 H4 Hk order). Qed.

(* ---- 7. after a fully successful run, a second run on the same world -----------------------------------------
   [effects_downstream]: commands write only dependencies of steps that depend on their step;
   [edits_visible]: a record whose superficial fingerprint equals the world's (or a command's output) has the same
   thorough fingerprint.  First: the records left by a run in which every step ended done agree with the world
   the run left (thorough fingerprints), for every dependency of every step not marked never. *)
Theorem successful_run_settles v cfg recs world i c d order :
  effects_downstream cfg -> edits_visible cfg recs world ->
  nth_error cfg i = Some c -> In d (s_deps c) -> rc_never (rcond c) = false ->
  let o := run v cfg recs world order in
  forallb is_done (o_states o) = true -> tho_same (o_records o) (o_world o) d = true.
Proof.
  intros He Hv Hc Hd Hn.
  exact (successful_run_settles_lemma v cfg recs world i c d Hc Hd Hn
           (fun k ck Hck X => He i c k ck d Hc Hck Hd X) (fun w Ho => Hv i c d w Hc Hd Ho) order).
Qed.

(* core: the second run executes a step only if it is always / without dependencies, or a step it depends on was
   executed in that run (so, by descent along the edges: only what is downstream of an always / no-dependency step) *)
Theorem rerun_on_unchanged_world v cfg recs world order1 order2 :
  effects_downstream cfg -> edits_visible cfg recs world ->
  let o1 := run v cfg recs world order1 in
  forallb is_done (o_states o1) = true ->
  v_own_only v = true \/ Known_P15 cfg (o_records o1) (o_world o1) = false ->
  let o2 := run v cfg (o_records o1) (o_world o1) order2 in
  forall i c, nth_error cfg i = Some c -> In i (o_exec o2) ->
              rc_always (rcond c) = true \/ exists j, In j (s_edges c) /\ In j (o_exec o2).
Proof. exact (rerun_lemma v cfg recs world order1 order2). Qed.

(* the first sentence of the property, literally, outside the class of pipelines in which a by-dependencies step
   depends on a step that can run at all *)
Theorem rerun_only_forced v cfg recs world order1 order2 :
  effects_downstream cfg -> edits_visible cfg recs world ->
  let o1 := run v cfg recs world order1 in
  forallb is_done (o_states o1) = true ->
  v_own_only v = true \/ Known_P15 cfg (o_records o1) (o_world o1) = false ->
  Known_downstream_edge cfg = false ->
  let o2 := run v cfg (o_records o1) (o_world o1) order2 in
  forall i c, nth_error cfg i = Some c -> In i (o_exec o2) -> rc_always (rcond c) = true.
Proof. exact (rerun_only_forced_lemma v cfg recs world order1 order2). Qed.

(* ---- the statements are pinned -------------------------------------------------------------------------- *)
Check never_is_never : forall v cfg recs world order i c,
  nth_error cfg i = Some c -> s_when c = WNever -> ~ In i (o_exec (run v cfg recs world order)).
Check failed_run_records_nothing : forall v cfg recs world order,
  forallb is_done (o_states (run v cfg recs world order)) = false -> o_records (run v cfg recs world order) = recs.
Check propagates_downstream : forall v, v_consult v = true -> propagates v.
Check unrelated_not_executed : forall v, v_own_only v = true -> C12_unrelated_full v.

(* ---- witnesses ---------------------------------------------------------------------------------------------- *)
Definition mk (w : when3) (deps : list dep) (sdeps ideps : list step) (ok : bool) (effs : list (dep * wval)) : stepcfg :=
  {| s_when := w; s_deps := deps; s_sdeps := sdeps; s_ideps := ideps; s_ok := ok; s_effs := effs |}.

(* P15: steps A(file a), B(file b); a touched (superficial 10 -> 11), b edited (20/200 -> 21/201) *)
Definition cfgP15 : config := [mk WByDependencies [1%N] [] [] true []; mk WByDependencies [2%N] [] [] true []].
Definition recsP15 : list (dep * wval) := [(1, (10, 100)); (2, (20, 200))]%N.
Definition worldP15 : list (dep * wval) := [(1, (11, 100)); (2, (21, 201))]%N.

(* the unrepaired code: the executed set depends on the schedule *)
Example P15_order_a : o_exec (run v_unfixed cfgP15 recsP15 worldP15 [0; 1; 0; 1]) = [0; 1].
Proof. vm_compute. reflexivity. Qed.
Example P15_order_b : o_exec (run v_unfixed cfgP15 recsP15 worldP15 [0; 0; 1; 1]) = [1].
Proof. vm_compute. reflexivity. Qed.
Example P15_class : Known_P15 cfgP15 recsP15 worldP15 = true.
Proof. vm_compute. reflexivity. Qed.

Theorem spurious_rerun_refuted : ~ C12_unrelated_full v_unfixed.
Proof.
  intros H.
  destruct (H cfgP15 recsP15 worldP15 0 (mk WByDependencies [1%N] [] [] true []) [0; 1; 0; 1]) as [j [Hj _]].
  - reflexivity.
  - reflexivity.
  - intros d [<- | []]. reflexivity.
  - intros k ck d Hk _ Hd. destruct k as [|[|k]]; cbn in Hk; [injection Hk as <-; cbn in Hd; destruct Hd | injection Hk as <-; cbn in Hd; destruct Hd | destruct k; discriminate Hk].
  - vm_compute. now left.
  - destruct Hj.
Qed.

(* the repaired code on the same input: every schedule executes B only (non-vacuity of 6: A is touched) *)
Example P15_fixed_all_schedules :
  map (fun o => o_exec o) (all_outcomes v_fixed cfgP15 recsP15 worldP15) = [[1]; [1]; [1]; [1]; [1]; [1]].
Proof. vm_compute. reflexivity. Qed.

(* a step with a touched dependency downstream of an always step: skipped by the unrepaired code (and by a
   repair that only restricts the thorough pass), executed by the repaired code *)
Definition cfgDown : config := [mk WAlways [] [] [] true []; mk WByDependencies [1%N] [0] [] true []].
Definition recsDown : list (dep * wval) := [(1, (10, 100))]%N.
Definition worldDown : list (dep * wval) := [(1, (11, 100))]%N.

Theorem propagates_downstream_refuted_unfixed : ~ propagates v_unfixed.
Proof.
  intros H.
  destruct (H cfgDown recsDown worldDown 1 (mk WByDependencies [1%N] [0] [] true []) 0 [0; 1; 1]) as [Hx | [Hx | Hx]];
    try reflexivity; try (now left); vm_compute in Hx; try discriminate Hx.
  destruct Hx as [Hx | []]. discriminate Hx.
Qed.

Theorem propagates_downstream_refuted_half_fix : ~ propagates {| v_own_only := true; v_consult := false |}.
Proof.
  intros H.
  destruct (H cfgDown recsDown worldDown 1 (mk WByDependencies [1%N] [0] [] true []) 0 [0; 1; 1]) as [Hx | [Hx | Hx]];
    try reflexivity; try (now left); vm_compute in Hx; try discriminate Hx.
  destruct Hx as [Hx | []]. discriminate Hx.
Qed.

Example Down_fixed : o_exec (run v_fixed cfgDown recsDown worldDown [0; 1; 1]) = [0; 1].
Proof. vm_compute. reflexivity. Qed.

(* non-vacuity of 3 (change_is_acted_on): B's dependency 2 really changed; of 2: a failing step *)
Example acted_example :
  changed (sup_compare (getN recsP15 2%N) (21, 201)%N) = true /\ changed (tho_compare (getN recsP15 2%N) (21, 201)%N) = true /\
  In 1 (o_exec (run v_unfixed cfgP15 recsP15 worldP15 [1; 0; 1; 0])).
Proof. vm_compute. repeat split; now left. Qed.

Definition cfgFail : config := [mk WByDependencies [2%N] [] [] false []; mk WByDependencies [1%N] [0] [] true []; mk WNever [3%N] [] [] true []].
Example failed_example :
  let o := run v_fixed cfgFail recsP15 worldP15 [0; 0; 1; 1; 2] in
  o_exec o = [0] /\ o_states o = [LBroken BExit; LBroken BDepSteps; LDone false] /\ o_records o = recsP15.
Proof. vm_compute. repeat split; reflexivity. Qed.

(* the first sentence of the property read literally ("executes no step except those marked always or having
   no dependencies at all") is refuted, by design, downstream of such a step *)
Definition C12_rerun_full (v : variant) : Prop :=
  forall cfg recs world order i c,
  (forall k ck d, nth_error cfg k = Some ck -> In d (s_deps ck) -> tho_same recs world d = true) ->
  nth_error cfg i = Some c -> In i (o_exec (run v cfg recs world order)) -> rc_always (rcond c) = true.
Definition cfgAlw : config := [mk WAlways [] [] [] true []; mk WByDependencies [] [0] [] true []].
Theorem rerun_full_refuted v : ~ C12_rerun_full v.
Proof.
  intros H. specialize (H cfgAlw [] [] [0; 1] 1 (mk WByDependencies [] [0] [] true [])).
  assert (X : rc_always (rcond (mk WByDependencies [] [0] [] true [])) = true).
  { apply H.
    - intros k ck d Hk Hd. destruct k as [|[|k]]; cbn in Hk; [injection Hk as <-; cbn in Hd; destruct Hd | injection Hk as <-; cbn in Hd; destruct Hd | destruct k; discriminate Hk].
    - reflexivity.
    - destruct v as [[] []]; vm_compute; right; now left. }
  discriminate X.
Qed.
Example rerun_class : Known_downstream_of_forced cfgAlw = true.
Proof. vm_compute. reflexivity. Qed.

(* non-vacuity of 7: first run of the P15 pipeline from empty records (both steps run, everything is recorded),
   second run on the world it left: nothing is executed, in every schedule, by both variants *)
Example rerun_example :
  let o1 := run v_unfixed cfgP15 [] worldP15 [0; 1; 0; 1] in
  o_exec o1 = [0; 1] /\ forallb is_done (o_states o1) = true /\ o_records o1 = worldP15 /\
  Known_P15 cfgP15 (o_records o1) (o_world o1) = false /\ Known_downstream_edge cfgP15 = false /\
  map (fun o => o_exec o) (all_outcomes v_unfixed cfgP15 (o_records o1) (o_world o1)) = [[]; []] /\
  map (fun o => o_exec o) (all_outcomes v_fixed cfgP15 (o_records o1) (o_world o1)) = [[]; []].
Proof. vm_compute. repeat split; reflexivity. Qed.
Example rerun_hypotheses : effects_downstream cfgP15 /\ edits_visible cfgP15 [] worldP15.
Proof.
  split.
  - intros i c k ck d _ Hk _ Hd. destruct k as [|[|k]]; cbn in Hk;
      [injection Hk as <-; cbn in Hd; destruct Hd | injection Hk as <-; cbn in Hd; destruct Hd | destruct k; discriminate Hk].
  - intros i c d w _ _ _. exact I.
Qed.

Print Assumptions never_is_never.
Print Assumptions failed_run_records_nothing.
Print Assumptions change_is_acted_on.
Print Assumptions propagates_downstream.
Print Assumptions forced_steps_run.
Print Assumptions unrelated_not_executed.
Print Assumptions touch_is_not_change.
Print Assumptions unrelated_not_executed_outside_P15.
Print Assumptions successful_run_settles.
Print Assumptions rerun_on_unchanged_world.
Print Assumptions rerun_only_forced.
Print Assumptions spurious_rerun_refuted.
Print Assumptions propagates_downstream_refuted_unfixed.
Print Assumptions propagates_downstream_refuted_half_fix.
Print Assumptions rerun_full_refuted.
