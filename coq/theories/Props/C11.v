(* C11 — Pipeline steps run only after everything they depend on succeeded.
   Property theorems only (proofs are in Sched/Proofs.v). *)
From Coq Require Import List Bool NArith Lia.
From XV Require Import Base.Amap Gen.StepMachine Sched.Model Sched.Proofs.
Import ListNotations.
Local Open Scope N_scope.

Theorem cyclic_rejected cfg sch :
  acyclicb cfg = false -> exists r, run cfg sch = Rejected r.
Proof. exact (cyclic_rejected_lemma cfg sch). Qed.

Theorem handler_within_table cfg s sc t :
  match handler cfg s sc t with
  | HNext l _ => exists e, snd l = Some e /\ allowed (fst (loc t)) e = Some (fst l)
  | _ => True
  end.
Proof. exact (handler_within_table_lemma cfg s sc t). Qed.

Print Assumptions cyclic_rejected.
Print Assumptions handler_within_table.
