(* C11 — `xvc pipeline run` always terminates with a verdict for every step.
   Property theorems only (proofs in Sched/Proofs.v, Sched/Live.v).

   Reading guide.  [step_ex cfg s x = Some (s', b)]: thread id [x] (a step thread, the bulletin serving
   one step's channel, a child process) can take a turn in [s]; [b = false] marks a polling turn
   that changes nothing (dependency wait loop, pool-full loop, process wait loop).
   [progressb cfg s x]: the turn of [x] is enabled and is not such a stutter.
   [all_doneb s]: every step thread has returned after sending a terminal state and the bulletin has
   delivered everything.  [stuckb cfg s] = not all done and no thread id can make progress: this is
   the predicate the check uses to certify that a run that did not exit is a deadlock.

   Section C11 (the repaired tree): the repairs of P11, P12, P14 and P14b are in (switches), the repair
   of P13 is in OR no command writes more than a pipe buffer to stderr, process_pool_size > 0, pipe
   capacity > 0, and -- environment -- popen of every step command succeeds ([all_can_start]: the
   commands are run through `sh -c`).  No exclusion of comparison errors: a dependency that cannot be
   compared, superficially (P14) or thoroughly (P14b), breaks the step.
   Section C11_any_switch: the same theorems for ANY setting of fixed_P14 / fixed_P14b, outside the
   boolean class Known_thread_error (the statement that applies to a tree without the P14b repair). *)
From Coq Require Import List Bool NArith Lia.
From XV Require Import Base.Amap Gen.StepMachine Sched.Model Sched.Proofs Sched.Live.
Import ListNotations.
Local Open Scope N_scope.

Section C11.
Variable cfg : config.
Hypothesis pool_shared : fix_shared_pool cfg = true.
Hypothesis pool_atomic : fix_atomic_acquire cfg = true.
Hypothesis p12_repaired : fixed_P12 cfg = true.
Hypothesis p13_repaired_or_small_stderr : fixed_P13 cfg = true \/ Known_big_stderr cfg = false.
Hypothesis p14_repaired : fixed_P14 cfg = true.
Hypothesis p14b_repaired : fixed_P14b cfg = true.
Hypothesis commands_can_start : all_can_start cfg = true.
Hypothesis pool_positive : 0 < c_pool cfg.
Hypothesis cap_positive : 0 < c_cap cfg.

Let live : Live cfg :=
  live_fixed cfg pool_shared pool_atomic p12_repaired p13_repaired_or_small_stderr p14_repaired p14b_repaired
             commands_can_start pool_positive cap_positive.

(* 1. (core) no deadlock: in every reachable state of every schedule in which some step has no
      verdict yet, some thread can make progress *)
Theorem no_deadlock sch s :
  run cfg sch = Accepted s -> all_doneb s = false -> exists x, progressb cfg s x = true.
Proof. exact (no_deadlock_lemma cfg sch s live). Qed.

Theorem never_stuck sch s : run cfg sch = Accepted s -> stuckb cfg s = false.
Proof. exact (not_stuck_lemma cfg sch s live). Qed.

(* 2. every progress turn strictly decreases the measure (rank of the step states, phase, queued
      state messages, remaining work of the commands); a polling turn leaves the state unchanged *)
Theorem progress_decreases sch s x s' :
  run cfg sch = Accepted s -> step_ex cfg s x = Some (s', true) -> measure cfg s' < measure cfg s.
Proof. exact (progress_decreases_run cfg sch s x s' live). Qed.

Theorem stutter_keeps_state s x s' : step_ex cfg s x = Some (s', false) -> s' = s.
Proof. exact (stutter_keeps_state_lemma cfg s x s' pool_atomic). Qed.

(* 3. fair termination: under any schedule in which every thread id occurs in every window of K
      turns, the run is over after K * (measure of the initial state + 1) turns ... *)
Theorem fair_termination s0 K n sch :
  init cfg = Accepted s0 -> measure cfg s0 <= N.of_nat n ->
  fair K (all_tids cfg) sch -> (K * (n + 1) <= length sch)%nat ->
  all_doneb (run_sched cfg s0 sch) = true.
Proof. exact (fair_termination_init cfg s0 K n sch live). Qed.

(* ... no step thread ever ends without a verdict on the way ... *)
Theorem threads_end_only_with_verdict sch s i sc t :
  run cfg sch = Accepted s -> find_step (c_steps cfg) i = Some sc -> tget (thr s) i = Some t ->
  status t = TRun \/ (status t = TFin /\ is_terminal (loc t) = true).
Proof. exact (threads_end_only_with_verdict_lemma cfg sch s i sc t live). Qed.
End C11.

(* ... and when it is over every step is DoneByRunning, DoneWithoutRunning or Broken (any switches) *)
Theorem verdict_for_every_step cfg sch s i t :
  run cfg sch = Accepted s -> all_doneb s = true -> tget (thr s) i = Some t ->
  is_terminal (loc t) = true /\ chan t = [].
Proof. exact (all_done_verdicts_run cfg sch s i t). Qed.

(* the same for any setting of the P14 / P14b switches, outside the class Known_thread_error *)
Section C11_any_switch.
Variable cfg : config.
Hypothesis pool_shared : fix_shared_pool cfg = true.
Hypothesis pool_atomic : fix_atomic_acquire cfg = true.
Hypothesis p12_repaired : fixed_P12 cfg = true.
Hypothesis p13_repaired_or_small_stderr : fixed_P13 cfg = true \/ Known_big_stderr cfg = false.
Hypothesis no_thread_error : Known_thread_error cfg = false.
Hypothesis pool_positive : 0 < c_pool cfg.
Hypothesis cap_positive : 0 < c_cap cfg.

Let live : Live cfg :=
  Build_Live cfg pool_shared pool_atomic p12_repaired p13_repaired_or_small_stderr no_thread_error pool_positive cap_positive.

Theorem no_deadlock_outside_known_class sch s :
  run cfg sch = Accepted s -> all_doneb s = false -> exists x, progressb cfg s x = true.
Proof. exact (no_deadlock_lemma cfg sch s live). Qed.

Theorem never_stuck_outside_known_class sch s : run cfg sch = Accepted s -> stuckb cfg s = false.
Proof. exact (not_stuck_lemma cfg sch s live). Qed.

Theorem fair_termination_outside_known_class s0 K n sch :
  init cfg = Accepted s0 -> measure cfg s0 <= N.of_nat n ->
  fair K (all_tids cfg) sch -> (K * (n + 1) <= length sch)%nat ->
  all_doneb (run_sched cfg s0 sch) = true.
Proof. exact (fair_termination_init cfg s0 K n sch live). Qed.

Theorem threads_end_only_with_verdict_outside_known_class sch s i sc t :
  run cfg sch = Accepted s -> find_step (c_steps cfg) i = Some sc -> tget (thr s) i = Some t ->
  status t = TRun \/ (status t = TFin /\ is_terminal (loc t) = true).
Proof. exact (threads_end_only_with_verdict_lemma cfg sch s i sc t live). Qed.
End C11_any_switch.

(* the class is empty in the repaired tree (up to popen) *)
Theorem thread_error_class_empty_when_fixed cfg :
  fixed_P14 cfg = true -> fixed_P14b cfg = true -> all_can_start cfg = true -> Known_thread_error cfg = false.
Proof. exact (thread_error_fixed cfg). Qed.

(* the regenerated table (premise: the transition of the repair of P14b, CheckingThoroughDiffs
   -HasMissingDependencies-> Broken, is in the table of the tree that has the repair; the check passes
   fixed_P14b = table_P14b to the model on every run and compares both with the binary's behaviour) *)
Theorem handler_within_table cfg s sc t :
  (fixed_P14b cfg = true -> table_P14b = true) ->
  match handler cfg s sc t with
  | HNext l _ _ => exists e, snd l = Some e /\ allowed (fst (loc t)) e = Some (fst l)
  | _ => True
  end.
Proof. exact (handler_within_table_lemma cfg s sc t). Qed.

(* ---- the full statement, and what each repair fixed ------------------------------------------ *)
(* [repaired]: are all repairs of the scheduler in (P11 both halves, P12, P13, P14, P14b).  Environment:
   popen succeeds, pool and pipe capacity positive.  No class is excluded. *)
Definition C11_full (repaired : bool) : Prop :=
  forall cfg sch s, all_repaired cfg = repaired -> all_can_start cfg = true -> 0 < c_pool cfg -> 0 < c_cap cfg ->
  run cfg sch = Accepted s -> stuckb cfg s = false.

Theorem C11_full_fixed : C11_full true.
Proof. exact C11_full_fixed_lemma. Qed.

Definition mkstep i w deps outs pr :=
  {| s_id := i; s_when := w; s_deps := deps; s_outs := outs; s_proc := pr; s_sup := VChanged; s_thor := VChanged |}.
Definition mkstepv i w deps outs pr sup thor :=
  {| s_id := i; s_when := w; s_deps := deps; s_outs := outs; s_proc := pr; s_sup := sup; s_thor := thor |}.
Definition mkcfg steps ex pool a b c d e f :=
  {| c_steps := steps; c_exists := ex; c_pool := pool; c_cap := 65536;
     fix_shared_pool := a; fix_atomic_acquire := b; fixed_P12 := c; fixed_P13 := d; fixed_P14 := e;
     fixed_P14b := f; fixed_P16 := true |}.
Definition round_robin (cfg : config) (n : nat) : list tid := flat_map (fun _ => all_tids cfg) (seq 0 n).
Definition outcome (cfg : config) (n : nat) :=
  match run cfg (round_robin cfg n) with
  | Accepted s => Some (all_doneb s, stuckb cfg s, map (fun kv => fst (loc (snd kv))) (thr s))
  | Rejected _ => None
  end.

(* P12: `both` depends on `ok` (exit 0) and `bad` (exit 1) *)
Definition mixed := [mkstep 0 ByDeps [] [] (Exits 0 0 0); mkstep 1 ByDeps [] [] (Exits 1 0 0); mkstep 2 ByDeps [DStep 0; DStep 1] [] (Exits 0 0 0)].
Theorem deadlock_mixed_deps_refuted :
  outcome (mkcfg mixed [] 2 true true false true true true) 60 = Some (false, true, [DoneByRunning; Broken; WaitingDependencySteps]).
Proof. vm_compute. reflexivity. Qed.
Example mixed_deps_repaired :
  outcome (mkcfg mixed [] 2 true true true true true true) 60 = Some (true, false, [DoneByRunning; Broken; Broken]).
Proof. vm_compute. reflexivity. Qed.

(* P14: step 0 has a file dependency that cannot be checked, step 1 depends on it *)
Definition missing := [mkstepv 0 ByDeps [DPath 9] [] (Exits 0 0 0) VError VChanged; mkstep 1 ByDeps [DStep 0] [] (Exits 0 0 0)].
Theorem deadlock_dead_thread_refuted :
  outcome (mkcfg missing [] 2 true true true true false true) 60 = Some (false, true, [CheckingSuperficialDiffs; WaitingDependencySteps]).
Proof. vm_compute. reflexivity. Qed.
Example missing_dependency_repaired :
  outcome (mkcfg missing [] 2 true true true true true true) 60 = Some (true, false, [Broken; Broken]).
Proof. vm_compute. reflexivity. Qed.

(* P13: 200 kB on stderr *)
Definition bigerr := [mkstep 0 ByDeps [] [] (Exits 0 0 200000)].
Theorem deadlock_pipe_refuted :
  outcome (mkcfg bigerr [] 2 true true true false true true) 60 = Some (false, true, [Running]).
Proof. vm_compute. reflexivity. Qed.
Example big_stderr_in_class : Known_big_stderr (mkcfg bigerr [] 2 true true true false true true) = true.
Proof. vm_compute. reflexivity. Qed.
Example pipe_repaired :
  outcome (mkcfg bigerr [] 2 true true true true true true) 60 = Some (true, false, [DoneByRunning]).
Proof. vm_compute. reflexivity. Qed.
Example big_stdout_is_fine :
  outcome (mkcfg [mkstep 0 ByDeps [] [] (Exits 0 200000 1000)] [] 2 true true true false true true) 60 = Some (true, false, [DoneByRunning]).
Proof. vm_compute. reflexivity. Qed.

(* P14b: the thorough comparison of step 0 fails (a --lines / --regex dependency on a missing file, a
   directory given as --file); every other repair is in *)
Definition thor := [mkstepv 0 ByDeps [DPath 9] [] (Exits 0 0 0) VChanged VError; mkstep 1 ByDeps [DStep 0] [] (Exits 0 0 0)].
Theorem deadlock_thorough_error_refuted :
  outcome (mkcfg thor [] 2 true true true true true false) 60 = Some (false, true, [CheckingThoroughDiffs; WaitingDependencySteps]).
Proof. vm_compute. reflexivity. Qed.
Example thorough_error_in_class :
  (Known_thread_error (mkcfg thor [] 2 true true true true true false), Known_thread_error (mkcfg thor [] 2 true true true true true true)) = (true, false).
Proof. vm_compute. reflexivity. Qed.
Example thorough_error_repaired :
  outcome (mkcfg thor [] 2 true true true true true true) 60 = Some (true, false, [Broken; Broken]).
Proof. vm_compute. reflexivity. Qed.
(* an `always` step downstream of the broken step still runs *)
Example thorough_error_repaired_always :
  outcome (mkcfg [mkstepv 0 ByDeps [DPath 9] [] (Exits 0 0 0) VChanged VError; mkstep 1 Always [DStep 0] [] (Exits 0 0 0)] [] 2 true true true true true true) 60
  = Some (true, false, [Broken; DoneByRunning]).
Proof. vm_compute. reflexivity. Qed.

(* without one of the repairs the full statement fails (witness: P14b off) *)
Theorem C11_full_refuted : ~ C11_full false.
Proof.
  intros H.
  pose (cfg := mkcfg thor [] 2 true true true true true false).
  assert (E : exists s, run cfg (round_robin cfg 60) = Accepted s /\ stuckb cfg s = true).
  { eexists. split; vm_compute; reflexivity. }
  destruct E as [s [Hr Hs]].
  assert (Hf : stuckb cfg s = false).
  { apply (H cfg (round_robin cfg 60) s); [vm_compute; reflexivity|vm_compute; reflexivity|vm_compute; reflexivity|vm_compute; reflexivity|exact Hr]. }
  rewrite Hf in Hs. discriminate.
Qed.

(* the environment assumption is needed: a command that cannot be started ends its thread without a verdict *)
Example popen_failure_no_verdict :
  outcome (mkcfg [mkstep 0 ByDeps [] [] CannotStart; mkstep 1 ByDeps [DStep 0] [] (Exits 0 0 0)] [] 2 true true true true true true) 60
  = Some (false, true, [Running; WaitingDependencySteps]).
Proof. vm_compute. reflexivity. Qed.

(* the assumption process_pool_size > 0 is needed: with a pool of 0 every command waits for ever *)
Example pool_zero_waits_for_ever :
  outcome (mkcfg mixed [] 0 true true true true true true) 60 = Some (false, true, [WaitingToRun; WaitingToRun; WaitingDependencySteps]).
Proof. vm_compute. reflexivity. Qed.

(* non-vacuity of the hypotheses: a configuration that satisfies all of them and has all the
   features (failing step, mixed dependencies, always, pool smaller than the number of steps,
   more than a pipe buffer on stdout, a superficial and a thorough comparison error) *)
Definition cfg_live : config :=
  mkcfg [mkstep 0 ByDeps [] [5] (Exits 0 70000 100); mkstep 1 ByDeps [] [] (Exits 1 0 0);
         mkstep 2 ByDeps [DStep 1; DPath 5] [] (Exits 0 0 0); mkstep 3 Always [DStep 2; DStep 0] [] (Exits 0 10 10);
         mkstepv 4 ByDeps [DPath 8] [] (Exits 0 0 0) VError VChanged;
         mkstepv 5 ByDeps [DPath 9] [] (Exits 0 0 0) VChanged VError; mkstep 6 Always [DStep 5] [] (Exits 0 0 0)]
        [] 1 true true true false true true.
Example cfg_live_meets_hypotheses :
  (fix_shared_pool cfg_live, fix_atomic_acquire cfg_live, fixed_P12 cfg_live, Known_big_stderr cfg_live, fixed_P14 cfg_live, fixed_P14b cfg_live,
   all_can_start cfg_live, Known_thread_error cfg_live, N.ltb 0 (c_pool cfg_live), N.ltb 0 (c_cap cfg_live))
  = (true, true, true, false, true, true, true, false, true, true).
Proof. vm_compute. reflexivity. Qed.
Example cfg_live_outcome :
  outcome cfg_live 200 = Some (true, false, [DoneByRunning; Broken; Broken; DoneByRunning; Broken; Broken; DoneByRunning]).
Proof. vm_compute. reflexivity. Qed.
Example cfg_live_measure : match init cfg_live with Accepted s0 => N.leb (measure cfg_live s0) 141000 | _ => false end = true.
Proof. vm_compute. reflexivity. Qed.

Check no_deadlock :
  forall cfg, fix_shared_pool cfg = true -> fix_atomic_acquire cfg = true -> fixed_P12 cfg = true ->
  fixed_P13 cfg = true \/ Known_big_stderr cfg = false ->
  fixed_P14 cfg = true -> fixed_P14b cfg = true -> all_can_start cfg = true ->
  0 < c_pool cfg -> 0 < c_cap cfg ->
  forall sch s, run cfg sch = Accepted s -> all_doneb s = false -> exists x, progressb cfg s x = true.
Check fair_termination :
  forall cfg, fix_shared_pool cfg = true -> fix_atomic_acquire cfg = true -> fixed_P12 cfg = true ->
  fixed_P13 cfg = true \/ Known_big_stderr cfg = false ->
  fixed_P14 cfg = true -> fixed_P14b cfg = true -> all_can_start cfg = true ->
  0 < c_pool cfg -> 0 < c_cap cfg ->
  forall s0 K n sch, init cfg = Accepted s0 -> measure cfg s0 <= N.of_nat n ->
  fair K (all_tids cfg) sch -> (K * (n + 1) <= length sch)%nat -> all_doneb (run_sched cfg s0 sch) = true.
Check verdict_for_every_step :
  forall cfg sch s i t, run cfg sch = Accepted s -> all_doneb s = true -> tget (thr s) i = Some t ->
  is_terminal (loc t) = true /\ chan t = [].
Check no_deadlock_outside_known_class :
  forall cfg, fix_shared_pool cfg = true -> fix_atomic_acquire cfg = true -> fixed_P12 cfg = true ->
  fixed_P13 cfg = true \/ Known_big_stderr cfg = false -> Known_thread_error cfg = false ->
  0 < c_pool cfg -> 0 < c_cap cfg ->
  forall sch s, run cfg sch = Accepted s -> all_doneb s = false -> exists x, progressb cfg s x = true.
Check C11_full_fixed :
  forall cfg sch s, all_repaired cfg = true -> all_can_start cfg = true -> 0 < c_pool cfg -> 0 < c_cap cfg ->
  run cfg sch = Accepted s -> stuckb cfg s = false.
Check C11_full_refuted : ~ C11_full false.

Print Assumptions no_deadlock.
Print Assumptions never_stuck.
Print Assumptions progress_decreases.
Print Assumptions stutter_keeps_state.
Print Assumptions fair_termination.
Print Assumptions threads_end_only_with_verdict.
Print Assumptions verdict_for_every_step.
Print Assumptions no_deadlock_outside_known_class.
Print Assumptions never_stuck_outside_known_class.
Print Assumptions fair_termination_outside_known_class.
Print Assumptions threads_end_only_with_verdict_outside_known_class.
Print Assumptions thread_error_class_empty_when_fixed.
Print Assumptions C11_full_fixed.
Print Assumptions handler_within_table.
Print Assumptions deadlock_mixed_deps_refuted.
Print Assumptions deadlock_dead_thread_refuted.
Print Assumptions deadlock_pipe_refuted.
Print Assumptions deadlock_thorough_error_refuted.
Print Assumptions C11_full_refuted.
