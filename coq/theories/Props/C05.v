(* C05 — removal never deletes content that other tracked paths still need.
   Model: Repo/Ext.v (remove_cmd, untrack_cmd, cache_remove, materialise over Repo/Model.v); proofs: Repo/ExtProofs.v.
   [refers x a]: some version of record x (its whole digest history, with the extension of its CURRENT path) is
   stored at cache address a.  [is_target (select r targets) e]: entity e is selected by the command's targets.
   [holds f a c]: the object at a is a regular file with bytes c.  [obj_present f a]: there is an object at a. *)
From Coq Require Import List Bool NArith.
From XV Require Import Base.Amap Base.Bytes Repo.Model Repo.Inv Repo.Ext Repo.ExtProofs Repo.ExtReach Repo.ExtDRO.
Import ListNotations.
Local Open Scope N_scope.

(* ---- 1. remove --from-cache, every version option (current / --all-versions / --only-version) ---------------------- *)
(* records and workspace are untouched (rm_rel: objects only disappear, inodes keep their bytes); without --force
   an object disappears only if EVERY entity that refers to it is a target; an ambiguous --only-version prefix
   returns Err and the repository unchanged (second theorem) *)
Theorem remove_respects_referrers fl o targets r r' oc :
  remove_cmd fl o targets r = (r', oc) ->
  recs (base r') = recs (base r) /\ dirs r' = dirs r /\ rm_rel (xfs r) (xfs r') /\
  (rm_force o = false ->
   (forall a, obj_present (xfs r) a -> ~ obj_present (xfs r') a ->
      forall e x, In (e, x) (recs (base r)) -> refers x a = true -> is_target (select r targets) e = true) /\
   (forall e x d c, In (e, x) (recs (base r)) -> is_target (select r targets) e = false -> In d (r_hist x) ->
      holds (xfs r) (cache_addr (r_path x) d) c -> holds (xfs r') (cache_addr (r_path x) d) c)).
Proof. exact (remove_cmd_spec fl o targets r r' oc). Qed.
Print rm_rel.

Theorem remove_ambiguous_version_refused fl any ds f targets r :
  (1 < length (flat_map (fun ex => filter (version_matches any ds) (addrs_of (snd ex))) (select r targets)))%nat ->
  remove_cmd fl {| rm_versions := VOnly any ds; rm_force := f |} targets r = (r, Err).
Proof. exact (remove_ambiguous fl any ds f targets r). Qed.

(* ---- 2. + 3. untrack ------------------------------------------------------------------------------------------------------ *)
(* objects: as for remove (there is no --force).  The other paths keep their records and every recorded version
   that was in the cache (others_stay_restorable).  When the command succeeds, no record with a target's path is
   left, and every target that was in the workspace in one of the shapes of [mat_pre] — a symlink to its current
   object, a hard link to its current object (re-materialised only by the repair of P7), a private writable file
   — ends as a private, writable, regular file with the same bytes [private_file]. *)
Theorem untrack_materialises fl targets r r' oc :
  wf_fs (xfs r) -> objs_bounded (xfs r) -> wf_recs (base r) ->
  untrack_cmd fl targets r = (r', oc) ->
  let tg := select r targets in
  (forall a, obj_present (xfs r) a -> ~ obj_present (xfs r') a ->
     forall e x, In (e, x) (recs (base r)) -> refers x a = true -> is_target tg e = true) /\
  (forall a en, oget (xfs r') a = Some en -> oget (xfs r) a = Some en) /\
  (forall e x, In (e, x) (recs (base r)) -> is_target tg e = false ->
     In (e, x) (recs (base r')) /\
     forall d c, In d (r_hist x) -> holds (xfs r) (cache_addr (r_path x) d) c -> holds (xfs r') (cache_addr (r_path x) d) c) /\
  (oc = Ok -> forall e x, In (e, x) tg ->
     (forall k v, In (k, v) (recs (base r')) -> r_path v <> r_path x) /\
     forall c, mat_pre fl (xfs r) x c -> private_file (xfs r') (r_path x) c).
Proof. exact (untrack_cmd_spec fl targets r r' oc). Qed.
Print mat_pre.
Print private_file.

(* ... for every reachable repository (xreach: Repo/ExtReach.v, by induction over the history; see Props/C19.v) *)
Theorem untrack_materialises_reachable fl targets r r' oc :
  xreach fl r -> untrack_cmd fl targets r = (r', oc) ->
  let tg := select r targets in
  (forall a, obj_present (xfs r) a -> ~ obj_present (xfs r') a ->
     forall e x, In (e, x) (recs (base r)) -> refers x a = true -> is_target tg e = true) /\
  (forall a en, oget (xfs r') a = Some en -> oget (xfs r) a = Some en) /\
  (forall e x, In (e, x) (recs (base r)) -> is_target tg e = false ->
     In (e, x) (recs (base r')) /\
     forall d c, In d (r_hist x) -> holds (xfs r) (cache_addr (r_path x) d) c -> holds (xfs r') (cache_addr (r_path x) d) c) /\
  (oc = Ok -> forall e x, In (e, x) tg ->
     (forall k v, In (k, v) (recs (base r')) -> r_path v <> r_path x) /\
     forall c, mat_pre fl (xfs r) x c -> private_file (xfs r') (r_path x) c).
Proof. exact (untrack_reachable fl targets r r' oc). Qed.

(* "still restorable": an object that [holds] bytes c is materialised with exactly c by every recheck method
   at a path where nothing (or something resolvable) is in the way *)
Theorem others_stay_restorable f p a m c :
  wf_fs f -> holds f a c -> (ws_exists f p = true \/ wget f p = None) ->
  exists f', recheck_from_cache f p a m = (f', Ok) /\ ws_read f' p = Some c.
Proof. exact (restorable f p a m c). Qed.

(* ---- 4. the directories of the cache files that stay (finding P50 of C02, repaired in XvcCachePath::remove) ------------------ *)
(* [DRO f] (Repo/Inv.v): the directory of every cache object is read-only.  XvcCachePath::remove makes the directory
   writable to delete the file; when the directory is empty afterwards it is removed, otherwise -- it holds the same
   content under another extension -- the repaired code (switch fixed_P50, read from core/src/types/xvcpath.rs on every
   run) sets it read-only again.  With the switch on, remove --from-cache and untrack keep DRO for EVERY repository state,
   option set and target list; the code before the repair does not (removal_leaves_directory_writable_refuted). *)
Definition C02_removal_keeps_directories_readonly (fl : flags) : Prop :=
  forall r, DRO (xfs r) ->
    (forall o targets, DRO (xfs (fst (remove_cmd fl o targets r)))) /\
    (forall targets, DRO (xfs (fst (untrack_cmd fl targets r)))).
Print DRO.

Theorem remove_keeps_directories_readonly fl o targets r :
  fixed_P50 fl = true -> DRO (xfs r) -> DRO (xfs (fst (remove_cmd fl o targets r))).
Proof. exact (remove_cmd_DRO fl o targets r). Qed.
Theorem untrack_keeps_directories_readonly fl targets r :
  fixed_P50 fl = true -> DRO (xfs r) -> DRO (xfs (fst (untrack_cmd fl targets r))).
Proof. exact (untrack_cmd_DRO fl targets r). Qed.
Theorem removal_keeps_directories_readonly_fixed fl : fixed_P50 fl = true -> C02_removal_keeps_directories_readonly fl.
Proof.
  exact (fun P r D => conj (fun o targets => remove_cmd_DRO fl o targets r P D) (fun targets => untrack_cmd_DRO fl targets r P D)).
Qed.

(* one XvcCachePath::remove, both values of the switch: only a deletion that leaves a sibling (another extension of the
   same digest) in the directory, without the repair, can leave a directory writable *)
Theorem cache_remove_keeps_directories_readonly p50 f a :
  K_sibling_left p50 f a = false -> DRO f -> DRO (cache_remove p50 f a).
Proof. exact (cache_remove_DRO_outside p50 f a). Qed.
Theorem K_sibling_left_class_empty_when_fixed f a : K_sibling_left true f a = false.
Proof. exact (K_sibling_left_empty_when_fixed_lemma f a). Qed.
Print K_sibling_left.

(* the witness: a.txt and b.dat with equal content (one digest directory, 0.txt next to 0.dat); removing the cache file of
   b.dat (or untracking b.dat) leaves the directory of 0.txt writable in the code before the repair *)
Definition h_p50 : list xitem :=
  [XBase (UWrite s_a_txt s_hello); XBase (XTrack t_plain [s_a_txt]);
   XBase (UWrite s_b_dat s_hello); XBase (XTrack t_plain [s_b_dat])].
Definition rm_cur : remove_opts := {| rm_versions := VCurrent; rm_force := false |}.
Definition a_hello_txt : caddr := cache_addr s_a_txt (digest_of B3 Auto s_hello).
Definition a_hello_dat : caddr := cache_addr s_b_dat (digest_of B3 Auto s_hello).
Definition p50_after (fl : flags) (it : xitem) : fsys := xfs (fst (do_xitem fl (run_xitems fl r0 h_p50) it)).

Theorem removal_leaves_directory_writable_refuted : ~ C02_removal_keeps_directories_readonly as_is.
Proof.
  intros F. destruct (F (run_xitems as_is r0 h_p50)) as [R _]; [apply DRO_b_sound; vm_compute; reflexivity|].
  specialize (R rm_cur [s_b_dat] a_hello_txt).
  assert (O : oget (xfs (fst (remove_cmd as_is rm_cur [s_b_dat] (run_xitems as_is r0 h_p50)))) a_hello_txt <> None)
    by (vm_compute; discriminate).
  specialize (R O). vm_compute in R. discriminate R.
Qed.
Example p50_witness_as_is :           (* both commands: 0.txt stays, its directory is writable; the sibling is the class *)
  DRO_b (xfs (run_xitems as_is r0 h_p50)) = true /\
  a_digest a_hello_txt = a_digest a_hello_dat /\ length (objs (xfs (run_xitems as_is r0 h_p50))) = 2%nat /\
  (forall it, In it [XRemove rm_cur [s_b_dat]; XUntrack [s_b_dat]] ->
     snd (do_xitem as_is (run_xitems as_is r0 h_p50) it) = Ok /\
     obj_exists (p50_after as_is it) a_hello_txt = true /\ obj_exists (p50_after as_is it) a_hello_dat = false /\
     dget (p50_after as_is it) (a_digest a_hello_txt) = Some true /\ DRO_b (p50_after as_is it) = false) /\
  K_sibling_left false (xfs (run_xitems as_is r0 h_p50)) a_hello_dat = true.
Proof.
  split; [vm_compute; reflexivity|]. split; [vm_compute; reflexivity|]. split; [vm_compute; reflexivity|].
  split; [|vm_compute; reflexivity].
  intros it [<-|[<-|[]]]; vm_compute; repeat split; reflexivity.
Qed.
Example p50_witness_fixed :           (* the repaired code: the directory of 0.txt is read-only again; the last file takes its directory with it *)
  DRO_b (xfs (run_xitems all_fixed r0 h_p50)) = true /\ fixed_P50 all_fixed = true /\
  (forall it, In it [XRemove rm_cur [s_b_dat]; XUntrack [s_b_dat]] ->
     snd (do_xitem all_fixed (run_xitems all_fixed r0 h_p50) it) = Ok /\
     obj_exists (p50_after all_fixed it) a_hello_txt = true /\ obj_exists (p50_after all_fixed it) a_hello_dat = false /\
     dget (p50_after all_fixed it) (a_digest a_hello_txt) = Some false /\ DRO_b (p50_after all_fixed it) = true) /\
  dget (p50_after all_fixed (XRemove rm_cur [s_a_txt; s_b_dat])) (a_digest a_hello_txt) = None.
Proof.
  split; [vm_compute; reflexivity|]. split; [reflexivity|]. split; [|vm_compute; reflexivity].
  intros it [<-|[<-|[]]]; vm_compute; repeat split; reflexivity.
Qed.

(* ---- 4b. the same over WHOLE histories (Repo/ExtDRO.v) ------------------------------------------------------------------- *)
(* every command of the extended model keeps DRO: copy and move unconditionally (copy_cache_file_for_path, the repair of
   P3, leaves the directory of the sibling object it creates read-only; the recheck of the destinations and the renames
   touch only the workspace), remove and untrack with the repair of P50, the base commands (user actions, track,
   carry-in, recheck) outside the known classes and when they do not panic.  Hence after EVERY history [h] of clean steps
   ([xhist_ok]: the side conditions of [xreach], no panicking base command) from an initialised repository the directory
   of every cache object is read-only -- any length, any interleaving of the ten kinds of steps, any option sets. *)
Theorem copy_keeps_directories_readonly fl o src dst r : DRO (xfs r) -> DRO (xfs (fst (copy_cmd3 fl o src dst r))).
Proof. exact (copy_cmd_DRO fl o src dst r). Qed.
Theorem move_keeps_directories_readonly fl o src dst r : DRO (xfs r) -> DRO (xfs (fst (move_cmd45 fl o src dst r))).
Proof. exact (move_cmd_DRO fl o src dst r). Qed.
Theorem step_keeps_directories_readonly fl r it :
  fixed_P50 fl = true -> INV (base r) -> xclean r it = true -> base_panics fl r it = false ->
  DRO (xfs r) -> DRO (xfs (fst (do_xitem fl r it))).
Proof. exact (xstep_DRO fl r it). Qed.
Theorem history_keeps_directories_readonly fl a m t h :
  fixed_P50 fl = true -> xhist_ok fl (xinit a m t) h = true -> DRO (xfs (run_xitems fl (xinit a m t) h)).
Proof. exact (xhistory_DRO fl a m t h). Qed.
Print xhist_ok. Print base_panics.
(* the premises are satisfiable by a history that uses all five kinds of steps and shares a digest directory between two
   extensions (copy a.txt to c.dat creates 0.dat next to 0.txt); and the conclusion fails on the same history without
   the repair of P50 (so the hypothesis on the switch is needed) *)
Definition cp_plain : copy_opts := {| c_as := None; c_cforce := false; c_no_recheck := false; c_name_only := false |}.
Definition mv_plain : move_opts := {| m_as := None; m_no_recheck := false |}.
Definition s_c_dat : bytes := [99; 46; 100; 97; 116].
Definition s_d_dat : bytes := [100; 46; 100; 97; 116].
Definition h_all_kinds : list xitem :=
  [XBase (UWrite s_a_txt s_hello); XBase (XTrack t_plain [s_a_txt]); XCopy cp_plain s_a_txt s_c_dat;
   XMove mv_plain s_c_dat s_d_dat; XRemove rm_cur [s_d_dat]; XUntrack [s_d_dat]].
Example history_premises_hold :
  xhist_ok all_fixed r0 h_all_kinds = true /\ xhist_ok as_is r0 h_all_kinds = true /\
  DRO_b (xfs (run_xitems all_fixed r0 h_all_kinds)) = true /\
  length (objs (xfs (run_xitems all_fixed r0 (firstn 4 h_all_kinds)))) = 2%nat /\
  length (objs (xfs (run_xitems all_fixed r0 h_all_kinds))) = 1%nat.
Proof. vm_compute. repeat split; reflexivity. Qed.

(* ---- examples ------------------------------------------------------------------------------------------------------------------ *)
(* a.txt has two versions (hello, other); b.txt (symlink) holds "hello" = the OLD version of a.txt; c.txt (hard link)
   holds "other" = the current version of a.txt *)
Definition h_share : list xitem :=
  [XBase (UWrite s_a_txt s_hello); XBase (XTrack t_plain [s_a_txt]);
   XBase (UWrite s_a_txt s_other); XBase (XTrack t_plain [s_a_txt]);
   XBase (UWrite s_b_txt s_hello); XBase (XTrack (t_with Symlink) [s_b_txt]);
   XBase (UWrite s_c_txt s_other); XBase (XTrack (t_with Hardlink) [s_c_txt])].
Definition r_share : xrepo := run_xitems all_fixed r0 h_share.
Definition rm_all : remove_opts := {| rm_versions := VAll; rm_force := false |}.
Definition rm_all_forced : remove_opts := {| rm_versions := VAll; rm_force := true |}.

Example reachable_example : xreach all_fixed r_share.
Proof. apply (xrun_reach all_fixed h_share r0); [apply xr_init|vm_compute; reflexivity]. Qed.
Example remove_example :       (* both versions of a.txt are needed by others: nothing is deleted; with --force both go *)
  length (objs (xfs r_share)) = 2%nat /\
  length (objs (xfs (fst (remove_cmd all_fixed rm_all [s_a_txt] r_share)))) = 2%nat /\
  length (objs (xfs (fst (remove_cmd all_fixed rm_all_forced [s_a_txt] r_share)))) = 0%nat /\
  length (objs (xfs (fst (remove_cmd all_fixed rm_all [s_a_txt; s_b_txt] r_share)))) = 1%nat.
Proof. vm_compute. repeat split; reflexivity. Qed.
Example remove_ambiguous_example :
  remove_cmd all_fixed {| rm_versions := VOnly true []; rm_force := false |} [s_a_txt] r_share = (r_share, Err).
Proof. vm_compute. reflexivity. Qed.
Example untrack_example :      (* the symlink and the hard link end as private writable files, objects stay for a.txt *)
  let '(r', oc) := untrack_cmd all_fixed [s_b_txt; s_c_txt] r_share in
  oc = Ok /\ length (objs (xfs r')) = 2%nat /\ length (recs (base r')) = 1%nat /\
  (exists j n, wget (xfs r') s_b_txt = Some (EFile j) /\ iget (xfs r') j = Some n /\ i_w n = true /\ i_bytes n = s_hello) /\
  (exists j n, wget (xfs r') s_c_txt = Some (EFile j) /\ iget (xfs r') j = Some n /\ i_w n = true /\ i_bytes n = s_other).
Proof. vm_compute. repeat split; try reflexivity; do 2 eexists; repeat split; reflexivity. Qed.
Example mat_pre_example :      (* the hypotheses of untrack_materialises hold for the symlinked b.txt *)
  exists e x, In (e, x) (select r_share [s_b_txt]) /\ mat_pre all_fixed (xfs r_share) x s_hello.
Proof.
  do 2 eexists. split; [vm_compute; left; reflexivity|].
  unfold mat_pre. vm_compute. eexists. split; [reflexivity|]. split; [reflexivity|].
  exists 1. eexists. repeat split; reflexivity.
Qed.

(* ---- the known classes (code as it is: flags as_is) -------------------------------------------------------------------------- *)
Definition C05_full : Prop :=
  forall fl (h : list xitem) targets,
    let r := run_xitems fl r0 h in
    let '(r', oc) := untrack_cmd fl targets r in
    forall e x c, In (e, x) (select r targets) -> ws_read (xfs r) (r_path x) = Some c ->
      oc = Ok /\ private_file (xfs r') (r_path x) c.

(* P7: two hard-linked tracked files with equal content; untrack of one leaves it a read-only hard
   link to the shared cache object *)
Definition h_p7 : list xitem :=
  [XBase (UWrite s_a_txt s_hello); XBase (XTrack (t_with Hardlink) [s_a_txt]);
   XBase (UWrite s_b_txt s_hello); XBase (XTrack (t_with Hardlink) [s_b_txt])].
Theorem untrack_hardlink_refuted :
  let r := run_xitems as_is r0 h_p7 in
  let '(r', oc) := do_xitem as_is r (XUntrack [s_a_txt]) in
  oc = Ok /\ find_path (recs (base r')) s_a_txt = None /\
  exists i n, wget (xfs r') s_a_txt = Some (EFile i) /\
              oget (xfs r') (cache_addr s_b_txt (digest_of B3 Auto s_hello)) = Some (EFile i) /\
              iget (xfs r') i = Some n /\ i_w n = false.
Proof. vm_compute. split; [reflexivity|]. split; [reflexivity|]. do 2 eexists. repeat split; reflexivity. Qed.
Example untrack_hardlink_fixed :
  let r := run_xitems all_fixed r0 h_p7 in
  let '(r', oc) := do_xitem all_fixed r (XUntrack [s_a_txt]) in
  oc = Ok /\ exists i n, wget (xfs r') s_a_txt = Some (EFile i) /\ iget (xfs r') i = Some n /\ i_w n = true /\
                         oget (xfs r') (cache_addr s_b_txt (digest_of B3 Auto s_hello)) = Some (EFile 1).
Proof. vm_compute. split; [reflexivity|]. do 2 eexists. repeat split; reflexivity. Qed.

(* P8: a target that is not in the workspace: panic, nothing untracked *)
Definition h_p8 : list xitem :=
  [XBase (UWrite s_a_txt s_hello); XBase (XTrack t_plain [s_a_txt]);
   XBase (UWrite s_b_txt s_other); XBase (XTrack t_plain [s_b_txt]); XBase (UDelete s_a_txt)].
Theorem untrack_missing_panics_refuted :
  let r := run_xitems as_is r0 h_p8 in
  let '(r', oc) := do_xitem as_is r (XUntrack [s_a_txt; s_b_txt]) in
  oc = Panic /\ (exists ex, find_path (recs (base r')) s_a_txt = Some ex) /\ (exists ex, find_path (recs (base r')) s_b_txt = Some ex).
Proof. vm_compute. split; [reflexivity|]. split; eexists; reflexivity. Qed.
Example untrack_missing_fixed :
  let r := run_xitems all_fixed r0 h_p8 in
  let '(r', oc) := do_xitem all_fixed r (XUntrack [s_a_txt; s_b_txt]) in
  oc = Ok /\ recs (base r') = [] /\ objs (xfs r') = [] /\ ws_read (xfs r') s_b_txt = Some s_other.
Proof. vm_compute. repeat split; reflexivity. Qed.

(* a directory record (made by copy into a new directory) among the targets: panic *)
Definition s_d_a_txt : bytes := [100; 47; 97; 46; 116; 120; 116].    (* d/a.txt *)
Definition s_d_dir : bytes := [100; 47].                              (* d/ *)
Definition s_n_dir : bytes := [110; 47].                              (* n/ *)
Definition h_dir : list xitem :=
  [XBase (UWrite s_d_a_txt s_hello); XBase (XTrack t_plain [s_d_a_txt]); XCopy c_plain s_d_dir s_n_dir].
Theorem untrack_directory_record_refuted :
  let r := run_xitems as_is r0 h_dir in
  dirs r <> [] /\ snd (do_xitem as_is r (XUntrack [s_n_dir])) = Panic /\ fst (do_xitem as_is r (XUntrack [s_n_dir])) = r.
Proof. vm_compute. repeat split; try reflexivity. discriminate. Qed.

Theorem C05_full_refuted : ~ C05_full.
Proof.
  intros F. specialize (F as_is h_p8 [s_a_txt; s_b_txt]). cbv zeta in F.
  destruct (untrack_cmd as_is [s_a_txt; s_b_txt] (run_xitems as_is r0 h_p8)) as [r' oc] eqn:E.
  assert (OC : oc = Panic) by (vm_compute in E; injection E as _ <-; reflexivity).
  assert (B : existsb (fun ex : N * frec => N.eqb (fst ex) 3 &&
                 match ws_read (xfs (run_xitems as_is r0 h_p8)) (r_path (snd ex)) with Some c => beqb c s_other | None => false end)
                (select (run_xitems as_is r0 h_p8) [s_a_txt; s_b_txt]) = true) by (vm_compute; reflexivity).
  assert (X : exists x, In (3, x) (select (run_xitems as_is r0 h_p8) [s_a_txt; s_b_txt]) /\
                        ws_read (xfs (run_xitems as_is r0 h_p8)) (r_path x) = Some s_other).
  { apply existsb_exists in B. destruct B as ([e x] & I & C). apply andb_true_iff in C. destruct C as (C1 & C2).
    cbn [fst snd] in C1, C2. apply N.eqb_eq in C1. subst e. exists x. split; [exact I|].
    destruct (ws_read (xfs (run_xitems as_is r0 h_p8)) (r_path x)) as [c|]; [|discriminate].
    destruct (beqb_spec c s_other) as [EQ|NE]; [rewrite EQ; reflexivity|discriminate C2]. }
  destruct X as (x & I & R). destruct (F 3 x s_other I R) as [OK _]. rewrite OC in OK. discriminate OK.
Qed.

(* a stale symlink: `copy --force --no-recheck` onto a symlinked tracked path changes its recorded digest and leaves
   the old link in the workspace; untrack then writes the RECORDED content over what the path showed *)
Definition c_force_nr : copy_opts := {| c_as := None; c_cforce := true; c_no_recheck := true; c_name_only := false |}.
Definition h_stale : list xitem :=
  [XBase (UWrite s_a_txt s_hello); XBase (XTrack (t_with Symlink) [s_a_txt]);
   XBase (UWrite s_b_txt s_other); XBase (XTrack t_plain [s_b_txt]); XCopy c_force_nr s_b_txt s_a_txt].
Theorem untrack_stale_link_refuted :
  let r := run_xitems all_fixed r0 h_stale in
  ws_read (xfs r) s_a_txt = Some s_hello /\
  let '(r', oc) := do_xitem all_fixed r (XUntrack [s_a_txt]) in oc = Ok /\ ws_read (xfs r') s_a_txt = Some s_other.
Proof. vm_compute. repeat split; reflexivity. Qed.

Print Assumptions remove_respects_referrers.
Print Assumptions remove_ambiguous_version_refused.
Print Assumptions untrack_materialises.
Print Assumptions untrack_materialises_reachable.
Print Assumptions others_stay_restorable.
Print Assumptions untrack_hardlink_refuted.
Print Assumptions untrack_missing_panics_refuted.
Print Assumptions untrack_directory_record_refuted.
Print Assumptions C05_full_refuted.
Print Assumptions untrack_stale_link_refuted.
Print Assumptions remove_keeps_directories_readonly.
Print Assumptions untrack_keeps_directories_readonly.
Print Assumptions removal_keeps_directories_readonly_fixed.
Print Assumptions cache_remove_keeps_directories_readonly.
Print Assumptions K_sibling_left_class_empty_when_fixed.
Print Assumptions removal_leaves_directory_writable_refuted.
Print Assumptions copy_keeps_directories_readonly.
Print Assumptions move_keeps_directories_readonly.
Print Assumptions step_keeps_directories_readonly.
Print Assumptions history_keeps_directories_readonly.
