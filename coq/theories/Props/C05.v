(* C05 — removal never deletes content that other tracked paths still need. *)
From Coq Require Import List Bool NArith.
From XV Require Import Base.Amap Base.Bytes Repo.Model Repo.Ext Repo.ExtProofs.
Import ListNotations.

(* P7: two hard-linked tracked files with equal content; untrack of one leaves it a read-only hard
   link to the shared cache object *)
Definition h_p7 : list xitem :=
  [XBase (UWrite s_a_txt s_hello); XBase (XTrack (t_with Hardlink) [s_a_txt]);
   XBase (UWrite s_b_txt s_hello); XBase (XTrack (t_with Hardlink) [s_b_txt])].
Theorem untrack_hardlink_refuted :
  let r := run_xitems as_is r0 h_p7 in
  let '(r', oc) := do_xitem as_is r (XUntrack [s_a_txt]) in
  oc = Ok /\ find_path (recs (base r')) s_a_txt = None /\
  exists i n, wget (xfs r') s_a_txt = Some (EFile i) /\
              oget (xfs r') (cache_addr s_b_txt (digest_of B3 Auto s_hello)) = Some (EFile i) /\
              iget (xfs r') i = Some n /\ i_w n = false.
Proof. vm_compute. split; [reflexivity|]. split; [reflexivity|]. do 2 eexists. repeat split; reflexivity. Qed.

(* P8: a target that is not in the workspace: panic, nothing untracked *)
Definition h_p8 : list xitem :=
  [XBase (UWrite s_a_txt s_hello); XBase (XTrack t_plain [s_a_txt]); XBase (UDelete s_a_txt)].
Theorem untrack_missing_panics_refuted :
  let r := run_xitems as_is r0 h_p8 in
  let '(r', oc) := do_xitem as_is r (XUntrack [s_a_txt]) in
  oc = Panic /\ exists ex, find_path (recs (base r')) s_a_txt = Some ex.
Proof. vm_compute. split; [reflexivity|]. eexists; reflexivity. Qed.
Print Assumptions untrack_hardlink_refuted.
Print Assumptions untrack_missing_panics_refuted.
