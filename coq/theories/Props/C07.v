(* C07 — a killed xvc command never corrupts the repository or loses data.
   Property theorems only: statement, [exact] of a lemma of Crash/Proofs.v / Crash/EffectsOk.v, [Check]
   pins, [Example]s (non-vacuity, *_refuted witnesses by vm_compute), [Print Assumptions].

   Model: Crash/Model.v.  A command is the list of atomic file-system effects the code issues in
   serial mode; a kill is a prefix length n; [crashed n (effects fixed chunk f c) f] is what is on disk.
   [fixed] = false is the unchanged tree (fs::write under the final name), [fixed] = true the tree with
   repo-patches/58-fix-P22-atomic-event-file.  [run_items fixed chunk h] is the file system reached by
   the history h of user writes / deletes and completed commands from `xvc init`. *)
From Coq Require Import List Bool NArith Lia.
From XV Require Import Base.Amap Base.Bytes Crash.Model Crash.Proofs Crash.EffectsOk.
Import ListNotations.

(* 1. crash_prefix_safe (core).  For EVERY reachable file system, EVERY command of the modelled set
      (track, carry-in, recheck with every option, store-only commands), EVERY crash point n, both
      ways of writing event files:
      (a) with the fix, the crashed repository loads (every listed event / counter file is complete);
      (b) every object that was in the cache (every committed version) is still there, intact;
      (c) every byte string a regular workspace file held is still held by a workspace file or an object;
      (d) every object in the cache holds exactly the bytes its address names (no partial object).
      For recheck, (c) needs the regular files among the targets to hold committed bytes: otherwise
      `recheck --force` destroys them even when it is not interrupted (the subject of C03). *)
Theorem crash_prefix_safe fixed chunk (h : list item) (c : command) (n : nat) :
  let f := run_items fixed chunk h in
  cmd_pre true f c ->
  let f' := crashed n (effects fixed chunk f c) f in
  (fixed = true -> loads f' = true) /\
  (forall v, obj_holds f v = true -> obj_holds f' v = true) /\
  (forall p b w s, fget f (LWs p) = Some (NData b w s) ->
     obj_holds f' b = true \/ exists q w' s', fget f' (LWs q) = Some (NData b w' s')) /\
  objects_intact f' = true.
Proof. exact (crash_prefix_safe_reachable fixed chunk h c n). Qed.

(* 2. the cache part holds for every command without any hypothesis (recheck --force included) *)
Theorem crash_prefix_keeps_cache fixed chunk (h : list item) (c : command) (n : nat) :
  let f := run_items fixed chunk h in
  let f' := crashed n (effects fixed chunk f c) f in
  (fixed = true -> loads f' = true) /\
  (forall v, obj_holds f v = true -> obj_holds f' v = true) /\
  objects_intact f' = true.
Proof. exact (crash_prefix_keeps_cache_reachable fixed chunk h c n). Qed.

(* 3. generic form: ANY effect list that obeys the discipline (content enters the cache only by a
      rename of a file with exactly those bytes, objects are never written, removed or renamed away,
      data is written only into files the command itself created, a workspace file is unlinked only
      when its bytes are in the cache) is safe at every prefix.  Independent of any command. *)
Theorem disciplined_effects_safe strict f l n :
  objects_intact f = true -> all_ok strict f [] l = true ->
  let f' := crashed n l f in
  objects_intact f' = true /\
  (forall c, obj_holds f c = true -> obj_holds f' c = true) /\
  (strict = true -> forall p b w s, fget f (LWs p) = Some (NData b w s) ->
     obj_holds f' b = true \/ exists q w' s', fget f' (LWs q) = Some (NData b w' s')).
Proof. exact (disciplined_prefix_safe strict f l n). Qed.

(* 4. store_saves_prefix_consistent (partial): a command that only saves stores (pipeline new /
      step new / ...), with the fix: at every prefix the repository loads and nothing in the cache
      or the workspace changes.  NOT proved in general: that each store is either entirely the old
      or entirely the new one (checked on the instance [stores_old_or_new_example] below). *)
Theorem store_saves_prefix_consistent_partial chunk (h : list item) saves ec (n : nat) :
  let f := run_items true chunk h in
  let f' := crashed n (effects true chunk f (StoresOnly saves ec)) f in
  loads f' = true /\
  (forall v, obj_holds f v = true -> obj_holds f' v = true) /\
  (forall p b w s, fget f (LWs p) = Some (NData b w s) ->
     obj_holds f' b = true \/ exists q w' s', fget f' (LWs q) = Some (NData b w' s')).
Proof. exact (store_saves_prefix_lemma chunk h saves ec n). Qed.

(* 5. every reachable file system is well formed, and with the fix it loads *)
Theorem reachable_wf fixed chunk (h : list item) :
  objects_intact (run_items fixed chunk h) = true /\ ws_wf (run_items fixed chunk h).
Proof. exact (reachable_wf_lemma fixed chunk h). Qed.

Theorem reachable_loads chunk (h : list item) : loads (run_items true chunk h) = true.
Proof. exact (run_items_loads chunk h). Qed.

(* ---- the statements are pinned --------------------------------------------------------------------- *)
Check crash_prefix_safe :
  forall fixed chunk (h : list item) (c : command) (n : nat),
  let f := run_items fixed chunk h in
  cmd_pre true f c ->
  let f' := crashed n (effects fixed chunk f c) f in
  (fixed = true -> loads f' = true) /\
  (forall v, obj_holds f v = true -> obj_holds f' v = true) /\
  (forall p b w s, fget f (LWs p) = Some (NData b w s) ->
     obj_holds f' b = true \/ exists q w' s', fget f' (LWs q) = Some (NData b w' s')) /\
  objects_intact f' = true.
Check crash_prefix_keeps_cache :
  forall fixed chunk (h : list item) (c : command) (n : nat),
  let f := run_items fixed chunk h in
  let f' := crashed n (effects fixed chunk f c) f in
  (fixed = true -> loads f' = true) /\
  (forall v, obj_holds f v = true -> obj_holds f' v = true) /\
  objects_intact f' = true.

(* ---- full statements the faithful model refutes, with their witnesses ------------------------------- *)
Open Scope N.
Definition big : N := 1073741824.
Definition fresh2 fx : fsys := run_items fx big [UWrite 1 [97;10]; UWrite 2 [98;10]].
Definition track12 : command := Track None [1;2].
(* a 3-file repository with history: 1 has two committed versions, then 1 and 3 are edited, 4 is new *)
Definition hist3 : list item :=
  [UWrite 1 [97;10]; UWrite 2 [98;10]; UWrite 3 [99;10]; Xvc (Track None [1;2;3]);
   UWrite 1 [97;50;10]; Xvc (CarryIn [1]); UWrite 1 [97;51;10]; UWrite 3 [99;50;10]; UWrite 4 [100;10]].
Definition repo3 fx : fsys := run_items fx big hist3.

(* (a) at full strength: every crashed repository loads, on the tree as it is *)
Definition C07_loads_full : Prop :=
  forall fixed chunk h c n, let f := run_items fixed chunk h in
  loads (crashed n (effects fixed chunk f c) f) = true.
(* P22: the kill before the write(2) into the first event file leaves a listed, empty file *)
Example torn_event_file_refuted :
  loads (fresh2 false) = true /\
  loads (crashed 1 (effects false big (fresh2 false) track12) (fresh2 false)) = false /\
  K_torn_event_file 1 (effects false big (fresh2 false) track12) = true.
Proof. vm_compute. repeat split. Qed.
Theorem C07_loads_full_refuted : ~ C07_loads_full.
Proof.
  intros H. specialize (H false big [UWrite 1 [97;10]; UWrite 2 [98;10]] track12 1%nat).
  vm_compute in H. discriminate.
Qed.

(* re-running at full strength: re-running the interrupted command and then recheck gives the
   observable state of the uninterrupted run, for every crash point *)
Definition C07_rerun_full : Prop :=
  forall fixed chunk h c ps n, let f := run_items fixed chunk h in
  converges_at fixed chunk f c ps n = true.

(* P23 (track): kill at the entry of the rename of file 1 into the cache (index 15, with the fix:
   5 saves of 3 calls, 3 .gitignore calls... see the effect list): the records name a digest that has
   no object, a re-run skips the path (metadata unchanged), it is never committed *)
Example track_crash_not_recommitted_refuted :
  let f := fresh2 true in let l := effects true big f track12 in
  nth_error l 20 = Some (Rename (LWs 1) (LObj [97;10])) /\
  converges_at true big f track12 [1;2] 20 = false /\
  K_crash_between_records_and_content 20 l = true /\
  K_torn_event_file 20 l = false /\ K_crash_during_workspace_copy 20 l = false /\ K_partial_record_set 20 l = false /\
  (* after the re-run: recorded, not in the cache *)
  let g := rerun true big track12 [1;2] (crashed 20 l f) in
  rec_digest g 1 = Some [97;10] /\ obj_holds g [97;10] = false.
Proof. vm_compute. repeat split. Qed.
Theorem C07_rerun_full_refuted : ~ C07_rerun_full.
Proof.
  intros H. specialize (H true big [UWrite 1 [97;10]; UWrite 2 [98;10]] track12 [1;2] 20%nat).
  vm_compute in H. discriminate.
Qed.

(* P23 (carry-in): content first, records second: kill after the rename of the edited file 1 and
   before the digest store is saved: the new version is an object no record names; the re-run
   sees a missing file, and recheck restores the OLD version *)
Example carry_in_crash_orphans_new_version_refuted :
  let f := repo3 true in let c := CarryIn [1;2;3] in let l := effects true big f c in
  exists n, converges_at true big f c [1;2;3] n = false /\
            K_crash_between_records_and_content n l = true /\
            K_crash_during_workspace_copy n l = false /\ K_torn_event_file n l = false /\
            let g := rerun true big c [1;2;3] (crashed n l f) in
            obs_ws g 1 = OFile [97;50;10] true /\ obj_holds g [97;51;10] = true /\ rec_digest g 1 = Some [97;50;10].
Proof. exists 3%nat. vm_compute. repeat split. Qed.

(* P29: kill inside the copy of the object back to the workspace: an empty read-only file, which
   the re-run of track commits as a new version *)
Example workspace_copy_crash_refuted :
  let f := fresh2 true in let l := effects true big f track12 in
  exists n, nth_error l n = Some (CopyChunk (LObj [97;10]) (LWs 1) big) /\
            obs_ws (crashed n l f) 1 = OFile [] false /\
            converges_at true big f track12 [1;2] n = false /\
            K_crash_during_workspace_copy n l = true /\
            rec_digest (rerun true big track12 [1;2] (crashed n l f)) 1 = Some [].
Proof. exists 25%nat. vm_compute. repeat split. Qed.

(* P30: kill between the saves of two record stores: a path with a path record and no metadata
   record; track, carry-in and recheck then stop before any effect (they panic), so nothing repairs it *)
Example partial_record_set_refuted :
  let f := fresh2 true in let l := effects true big f track12 in
  let g := crashed 3 l f in
  K_partial_record_set 3 l = true /\ loads g = true /\
  partial_records g [1;2] = true /\
  effects true big g track12 = [] /\ effects true big g (Recheck None false [1;2]) = [] /\
  converges_at true big f track12 [1;2] 3 = false.
Proof. vm_compute. repeat split. Qed.

(* P31: kill between the rename into the cache and the chmod that protects the object: the object
   stays writable, and the hard link recheck makes of it in the workspace is writable too *)
Example object_left_writable_refuted :
  let f := fresh2 true in let c := Track (Some MHardlink) [1;2] in let l := effects true big f c in
  exists n, nth_error l n = Some (Chmod (LObj [97;10]) false) /\
            K_object_left_writable n l = true /\
            converges_at true big f c [1;2] n = false /\
            let g := rerun true big c [1;2] (crashed n l f) in
            obs_ws g 1 = OFile [97;10] true /\ obj_mode g [97;10] = Some (true, true) /\
            obs_ws (run_cmd true big f c) 1 = OFile [97;10] false.
Proof. exists 21%nat. vm_compute. repeat split. Qed.

(* the C03 boundary of clause (c): `recheck --force` over an edited, uncommitted file loses its bytes
   (also without any kill); this is why crash_prefix_safe asks for cmd_pre *)
Example recheck_force_uncommitted_refuted :
  let f := repo3 true in let c := Recheck None true [1] in
  all_ok true f [] (effects true big f c) = false /\
  bytes_kept f (run_cmd true big f c) = false /\
  all_ok false f [] (effects true big f c) = true.
Proof. vm_compute. repeat split. Qed.

(* ---- non-vacuity and bounded sweeps ------------------------------------------------------------------ *)
(* the hypotheses of crash_prefix_safe are met by non-trivial states, and the executable twins of the
   clauses hold at EVERY crash point of these commands; outside the four known classes the crashed
   repository loads and re-running converges (bounded check: these instances only) *)
Definition sweep fx (f : fsys) (c : command) (ps : list path) : bool :=
  let l := effects fx big f c in
  forallb (fun n =>
    let g := crashed n l f in
    objects_intact g && objects_kept f g && bytes_kept f g
    && (negb fx || loads g)
    && (K_any n l || (loads g && converges_at fx big f c ps n)))
    (seq 0 (S (length l))).

Example sweeps_hold :
  sweep false (fresh2 false) track12 [1;2] = true /\
  sweep true (fresh2 true) track12 [1;2] = true /\
  sweep false (repo3 false) (Track None [1;2;3;4]) [1;2;3;4] = true /\
  sweep true (repo3 true) (Track (Some MSymlink) [1;2;3;4]) [1;2;3;4] = true /\
  sweep true (repo3 true) (Track (Some MHardlink) [4;1]) [1;2;3;4] = true /\
  sweep false (repo3 false) (CarryIn [1;2;3]) [1;2;3] = true /\
  sweep true (repo3 true) (CarryIn [3;2;1]) [1;2;3] = true /\
  sweep true (run_items true big [UWrite 1 [97;10]; UWrite 2 [98;10]; UWrite 3 [99;10]; Xvc (Track None [1;2;3]); UDelete 1; UDelete 3])
        (Recheck None false [1;2;3]) [1;2;3] = true /\
  sweep true (run_items true big [UWrite 1 [97;10]; UWrite 2 [98;10]; Xvc (Track None [1;2]); UDelete 1])
        (Recheck (Some MSymlink) false [1;2]) [1;2] = true /\
  sweep true (run_items true big [UWrite 1 [97;10]; UWrite 2 [98;10]; Xvc (Track None [1;2])])
        (Recheck (Some MHardlink) true [1;2]) [1;2] = true /\
  sweep true (run_items true 2 [UWrite 1 [97;98;99;100;10]; Xvc (Track None [1]); UDelete 1])
        (Recheck None false [1]) [1] = true.
Proof. vm_compute. repeat split. Qed.

Example cmd_pre_met :
  cmd_pre true (run_items true big [UWrite 1 [97;10]; UWrite 2 [98;10]; Xvc (Track None [1;2]); UDelete 1])
          (Recheck (Some MSymlink) true [1;2]).
Proof.
  split; [apply run_items_wf|].
  intros _ p b w st [<-|[<-|[]]]; vm_compute; intros E; try discriminate.
  injection E as <- _ _. reflexivity.
Qed.

(* store-only commands: every store is entirely old or entirely new at every prefix (instance) *)
Example stores_old_or_new_example :
  let f := repo3 true in
  let c := StoresOnly [(SOther 1, [{| ev_p := 9; ev_v := VOther 1 |}]); (SOther 2, [{| ev_p := 9; ev_v := VOther 2 |}])] (Some 7) in
  let l := effects true big f c in
  forallb (fun n => let g := crashed n l f in
     forallb (fun s => (Nat.eqb (length (store_events g s)) (length (store_events f s))
                        || Nat.eqb (length (store_events g s)) (length (store_events (run_cmd true big f c) s))))
             [SOther 1; SOther 2; SPath; SDigest]) (seq 0 (S (length l))) = true
  /\ length l = 9%nat.
Proof. vm_compute. split; reflexivity. Qed.

Print Assumptions crash_prefix_safe.
Print Assumptions crash_prefix_keeps_cache.
Print Assumptions disciplined_effects_safe.
Print Assumptions store_saves_prefix_consistent_partial.
Print Assumptions reachable_wf.
Print Assumptions reachable_loads.
Print Assumptions C07_loads_full_refuted.
Print Assumptions C07_rerun_full_refuted.
