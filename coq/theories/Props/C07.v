(* C07 — a killed xvc command never corrupts the repository or loses data.
   Property theorems only: statement, [exact] of a lemma of Crash/Proofs.v / Crash/EffectsOk.v / Crash/Converge.v, [Check]
   pins, [Example]s (non-vacuity, *_refuted witnesses by vm_compute), [Print Assumptions].

   Model: Crash/Model.v.  A command is the list of atomic file-system effects the code issues in
   serial mode; a kill is a prefix length n; [crashed n (effects fixed chunk f c) f] is what is on disk.
   [fixed] = false is the unchanged tree (fs::write under the final name), [fixed] = true the tree with
   repo-patches/58-fix-P22-atomic-event-file.  [run_items fixed chunk h] is the file system reached by
   the history h of user writes / deletes and completed commands from `xvc init`. *)
From Coq Require Import List Bool NArith Lia.
From XV Require Import Base.Amap Base.Bytes Crash.Model Crash.Proofs Crash.EffectsOk Crash.Converge.
Import ListNotations.

(* 1. crash_prefix_safe (core).  For EVERY reachable file system, EVERY command of the modelled set
      (track, carry-in, recheck with every option, store-only commands), EVERY crash point n, both
      ways of writing event files:
      (a) with the fix, the crashed repository loads (every listed event / counter file is complete);
      (b) every object that was in the cache (every committed version) is still there, intact;
      (c) every byte string a regular workspace file held is still held by a workspace file or an object;
      (d) every object in the cache holds exactly the bytes its address names (no partial object).
      For recheck, (c) needs the regular files among the targets to hold committed bytes: otherwise
      `recheck --force` destroys them even when it is not interrupted (the subject of C03). *)
Theorem crash_prefix_safe fixed chunk (h : list item) (c : command) (n : nat) :
  let f := run_items fixed chunk h in
  cmd_pre true f c ->
  let f' := crashed n (effects fixed chunk f c) f in
  (fixed = true -> loads f' = true) /\
  (forall v, obj_holds f v = true -> obj_holds f' v = true) /\
  (forall p b w s, fget f (LWs p) = Some (NData b w s) ->
     obj_holds f' b = true \/ exists q w' s', fget f' (LWs q) = Some (NData b w' s')) /\
  objects_intact f' = true.
Proof. exact (crash_prefix_safe_reachable fixed chunk h c n). Qed.

(* 2. the cache part holds for every command without any hypothesis (recheck --force included) *)
Theorem crash_prefix_keeps_cache fixed chunk (h : list item) (c : command) (n : nat) :
  let f := run_items fixed chunk h in
  let f' := crashed n (effects fixed chunk f c) f in
  (fixed = true -> loads f' = true) /\
  (forall v, obj_holds f v = true -> obj_holds f' v = true) /\
  objects_intact f' = true.
Proof. exact (crash_prefix_keeps_cache_reachable fixed chunk h c n). Qed.

(* 3. generic form: ANY effect list that obeys the discipline (content enters the cache only by a
      rename of a file with exactly those bytes, objects are never written, removed or renamed away,
      data is written only into files the command itself created, a workspace file is unlinked only
      when its bytes are in the cache) is safe at every prefix.  Independent of any command. *)
Theorem disciplined_effects_safe strict f l n :
  objects_intact f = true -> all_ok strict f [] l = true ->
  let f' := crashed n l f in
  objects_intact f' = true /\
  (forall c, obj_holds f c = true -> obj_holds f' c = true) /\
  (strict = true -> forall p b w s, fget f (LWs p) = Some (NData b w s) ->
     obj_holds f' b = true \/ exists q w' s', fget f' (LWs q) = Some (NData b w' s')).
Proof. exact (disciplined_prefix_safe strict f l n). Qed.

(* 4. store_saves_prefix_consistent: a command that only saves stores (pipeline new / step new / ...),
      each store saved once, with the fix: at EVERY prefix the repository loads, every store directory
      (the files the sorted listing shows; temporary files are not listed) is either entirely the old one
      or entirely the one of the completed command, the same for the entity counter directory, and nothing
      outside the store / counter directories changes (cache and workspace are untouched). *)
Theorem store_saves_prefix_consistent chunk (h : list item) saves ec (n : nat) :
  NoDup (map fst saves) ->
  let f := run_items true chunk h in
  let c := StoresOnly saves ec in
  let f' := crashed n (effects true chunk f c) f in
  let F := run_cmd true chunk f c in
  loads f' = true /\
  (forall s, store_dir f' s = store_dir f s \/ store_dir f' s = store_dir F s) /\
  (ec_dir f' = ec_dir f \/ ec_dir f' = ec_dir F) /\
  (forall x, is_meta_loc x = false -> fget f' x = fget f x).
Proof. exact (store_saves_prefix_consistent_lemma chunk h saves ec n). Qed.

(* 5. every reachable file system is well formed, and with the fix it loads *)
Theorem reachable_wf fixed chunk (h : list item) :
  objects_intact (run_items fixed chunk h) = true /\ ws_wf (run_items fixed chunk h).
Proof. exact (reachable_wf_lemma fixed chunk h). Qed.

Theorem reachable_loads chunk (h : list item) : loads (run_items true chunk h) = true.
Proof. exact (run_items_loads chunk h). Qed.

(* 6. crash_rerun_converges, for recheck: for EVERY reachable file system, `xvc file recheck` with every
      option (--recheck-method, --force, any targets), EVERY crash point n outside the class
      K_crash_during_workspace_copy (the other three classes are not needed: recheck moves nothing into
      the cache and saves one store), with the fix of P22 and a copy chunk size > 0 (2^30 in std::fs::copy):
      re-running the interrupted command and then `xvc file recheck` over ANY path list [obs] leaves, for
      every observed path, the same workspace view (content, write bit, link target), the same recorded
      version and method, the same restorable version and the same object permissions as the
      uninterrupted run followed by the same recheck. *)
Theorem crash_rerun_converges_recheck chunk (h : list item) m force ps obs (n : nat) :
  chunk <> 0%N ->
  let f := run_items true chunk h in
  let c := Recheck m force ps in
  K_crash_during_workspace_copy n (effects true chunk f c) = false ->
  converges_at true chunk f c obs n = true.
Proof. exact (crash_rerun_converges_recheck_lemma chunk h m force ps obs n). Qed.

(* 7. crash_rerun_converges (partial): over ALL commands of the modelled set, what is proved:
      recheck at every crash point outside K_crash_during_workspace_copy (theorem 6); track, carry-in and
      the store-only commands only at the crash point before the first effect.
      MISSING: track and carry-in at the other crash points.  The statement "outside the four classes"
      is REFUTED for them (C07_rerun_outside_classes_refuted below: when the bytes to commit are already
      in the cache no rename happens, so K_crash_between_records_and_content does not fire although the
      order of effects is P23's); it holds on the swept instances with the widened class
      K_crash_between_records_and_replacement (sweeps_wide_hold), and is not proved in general. *)
Theorem crash_rerun_converges_partial chunk (h : list item) (c : command) obs (n : nat) :
  chunk <> 0%N ->
  let f := run_items true chunk h in
  rerun_proved c n (effects true chunk f c) = true ->
  converges_at true chunk f c obs n = true.
Proof. exact (crash_rerun_converges_partial_lemma chunk h c obs n). Qed.

(* ---- the statements are pinned --------------------------------------------------------------------- *)
Check crash_prefix_safe :
  forall fixed chunk (h : list item) (c : command) (n : nat),
  let f := run_items fixed chunk h in
  cmd_pre true f c ->
  let f' := crashed n (effects fixed chunk f c) f in
  (fixed = true -> loads f' = true) /\
  (forall v, obj_holds f v = true -> obj_holds f' v = true) /\
  (forall p b w s, fget f (LWs p) = Some (NData b w s) ->
     obj_holds f' b = true \/ exists q w' s', fget f' (LWs q) = Some (NData b w' s')) /\
  objects_intact f' = true.
Check crash_prefix_keeps_cache :
  forall fixed chunk (h : list item) (c : command) (n : nat),
  let f := run_items fixed chunk h in
  let f' := crashed n (effects fixed chunk f c) f in
  (fixed = true -> loads f' = true) /\
  (forall v, obj_holds f v = true -> obj_holds f' v = true) /\
  objects_intact f' = true.
Check crash_rerun_converges_recheck :
  forall chunk (h : list item) m force ps obs (n : nat),
  chunk <> 0%N ->
  let f := run_items true chunk h in
  let c := Recheck m force ps in
  K_crash_during_workspace_copy n (effects true chunk f c) = false ->
  converges_at true chunk f c obs n = true.
Check store_saves_prefix_consistent :
  forall chunk (h : list item) saves ec (n : nat),
  NoDup (map fst saves) ->
  let f := run_items true chunk h in
  let c := StoresOnly saves ec in
  let f' := crashed n (effects true chunk f c) f in
  let F := run_cmd true chunk f c in
  loads f' = true /\
  (forall s, store_dir f' s = store_dir f s \/ store_dir f' s = store_dir F s) /\
  (ec_dir f' = ec_dir f \/ ec_dir f' = ec_dir F) /\
  (forall x, is_meta_loc x = false -> fget f' x = fget f x).

(* ---- full statements the faithful model refutes, with their witnesses ------------------------------- *)
Open Scope N.
Definition big : N := 1073741824.
Definition fresh2 fx : fsys := run_items fx big [UWrite 1 [97;10]; UWrite 2 [98;10]].
Definition track12 : command := Track None [1;2].
(* a 3-file repository with history: 1 has two committed versions, then 1 and 3 are edited, 4 is new *)
Definition hist3 : list item :=
  [UWrite 1 [97;10]; UWrite 2 [98;10]; UWrite 3 [99;10]; Xvc (Track None [1;2;3]);
   UWrite 1 [97;50;10]; Xvc (CarryIn [1]); UWrite 1 [97;51;10]; UWrite 3 [99;50;10]; UWrite 4 [100;10]].
Definition repo3 fx : fsys := run_items fx big hist3.

(* (a) at full strength: every crashed repository loads, on the tree as it is *)
Definition C07_loads_full : Prop :=
  forall fixed chunk h c n, let f := run_items fixed chunk h in
  loads (crashed n (effects fixed chunk f c) f) = true.
(* P22: the kill before the write(2) into the first event file leaves a listed, empty file *)
Example torn_event_file_refuted :
  loads (fresh2 false) = true /\
  loads (crashed 1 (effects false big (fresh2 false) track12) (fresh2 false)) = false /\
  K_torn_event_file 1 (effects false big (fresh2 false) track12) = true.
Proof. vm_compute. repeat split. Qed.
Theorem C07_loads_full_refuted : ~ C07_loads_full.
Proof.
  intros H. specialize (H false big [UWrite 1 [97;10]; UWrite 2 [98;10]] track12 1%nat).
  vm_compute in H. discriminate.
Qed.

(* re-running at full strength: re-running the interrupted command and then recheck gives the
   observable state of the uninterrupted run, for every crash point *)
Definition C07_rerun_full : Prop :=
  forall fixed chunk h c ps n, let f := run_items fixed chunk h in
  converges_at fixed chunk f c ps n = true.

(* P23 (track): kill at the entry of the rename of file 1 into the cache (index 15, with the fix:
   5 saves of 3 calls, 3 .gitignore calls... see the effect list): the records name a digest that has
   no object, a re-run skips the path (metadata unchanged), it is never committed *)
Example track_crash_not_recommitted_refuted :
  let f := fresh2 true in let l := effects true big f track12 in
  nth_error l 20 = Some (Rename (LWs 1) (LObj [97;10])) /\
  converges_at true big f track12 [1;2] 20 = false /\
  K_crash_between_records_and_content 20 l = true /\
  K_torn_event_file 20 l = false /\ K_crash_during_workspace_copy 20 l = false /\ K_partial_record_set 20 l = false /\
  (* after the re-run: recorded, not in the cache *)
  let g := rerun true big track12 [1;2] (crashed 20 l f) in
  rec_digest g 1 = Some [97;10] /\ obj_holds g [97;10] = false.
Proof. vm_compute. repeat split. Qed.
Theorem C07_rerun_full_refuted : ~ C07_rerun_full.
Proof.
  intros H. specialize (H true big [UWrite 1 [97;10]; UWrite 2 [98;10]] track12 [1;2] 20%nat).
  vm_compute in H. discriminate.
Qed.

(* P23 (carry-in): content first, records second: kill after the rename of the edited file 1 and
   before the digest store is saved: the new version is an object no record names; the re-run
   sees a missing file, and recheck restores the OLD version *)
Example carry_in_crash_orphans_new_version_refuted :
  let f := repo3 true in let c := CarryIn [1;2;3] in let l := effects true big f c in
  exists n, converges_at true big f c [1;2;3] n = false /\
            K_crash_between_records_and_content n l = true /\
            K_crash_during_workspace_copy n l = false /\ K_torn_event_file n l = false /\
            let g := rerun true big c [1;2;3] (crashed n l f) in
            obs_ws g 1 = OFile [97;50;10] true /\ obj_holds g [97;51;10] = true /\ rec_digest g 1 = Some [97;50;10].
Proof. exists 3%nat. vm_compute. repeat split. Qed.

(* P29: kill inside the copy of the object back to the workspace: an empty read-only file, which
   the re-run of track commits as a new version *)
Example workspace_copy_crash_refuted :
  let f := fresh2 true in let l := effects true big f track12 in
  exists n, nth_error l n = Some (CopyChunk (LObj [97;10]) (LWs 1) big) /\
            obs_ws (crashed n l f) 1 = OFile [] false /\
            converges_at true big f track12 [1;2] n = false /\
            K_crash_during_workspace_copy n l = true /\
            rec_digest (rerun true big track12 [1;2] (crashed n l f)) 1 = Some [].
Proof. exists 25%nat. vm_compute. repeat split. Qed.

(* P30: kill between the saves of two record stores: a path with a path record and no metadata
   record; track, carry-in and recheck then stop before any effect (they panic), so nothing repairs it *)
Example partial_record_set_refuted :
  let f := fresh2 true in let l := effects true big f track12 in
  let g := crashed 3 l f in
  K_partial_record_set 3 l = true /\ loads g = true /\
  partial_records g [1;2] = true /\
  effects true big g track12 = [] /\ effects true big g (Recheck None false [1;2]) = [] /\
  converges_at true big f track12 [1;2] 3 = false.
Proof. vm_compute. repeat split. Qed.

(* P31: kill between the rename into the cache and the chmod that protects the object: the object
   stays writable, and the hard link recheck makes of it in the workspace is writable too *)
Example object_left_writable_refuted :
  let f := fresh2 true in let c := Track (Some MHardlink) [1;2] in let l := effects true big f c in
  exists n, nth_error l n = Some (Chmod (LObj [97;10]) false) /\
            K_object_left_writable n l = true /\
            converges_at true big f c [1;2] n = false /\
            let g := rerun true big c [1;2] (crashed n l f) in
            obs_ws g 1 = OFile [97;10] true /\ obj_mode g [97;10] = Some (true, true) /\
            obs_ws (run_cmd true big f c) 1 = OFile [97;10] false.
Proof. exists 21%nat. vm_compute. repeat split. Qed.

(* re-running OUTSIDE the four classes, for every command of the modelled set: refuted for carry-in and
   track when the bytes to commit are already in the cache (they equal an older version or another
   file): move_to_cache is skipped, no rename into the cache happens, the class
   K_crash_between_records_and_content (defined by that rename) does not fire, but the order of effects
   is the same as in P23 *)
Definition C07_rerun_outside_classes : Prop :=
  forall chunk h c ps n, chunk <> 0 ->
  let f := run_items true chunk h in let l := effects true chunk f c in
  K_crash_between_records_and_content n l = false -> K_crash_during_workspace_copy n l = false ->
  K_partial_record_set n l = false -> K_object_left_writable n l = false ->
  converges_at true chunk f c ps n = true.

(* carry-in: file 1 is edited to the bytes of file 2 (in the cache).  Kill after the unlink of the
   workspace file and before the records are saved: the re-run sees a missing file and stops, recheck
   restores the OLD version; the new bytes survive in the cache only because file 2 has them *)
Definition cached1 : list item := [UWrite 1 [97;10]; UWrite 2 [98;10]; Xvc (Track None [1;2]); UWrite 1 [98;10]].
Example carry_in_cached_content_refuted :
  let f := run_items true big cached1 in let c := CarryIn [1] in let l := effects true big f c in
  nth_error l 0 = Some (Unlink (LWs 1)) /\
  K_any 1 l = false /\ converges_at true big f c [1;2] 1 = false /\
  K_crash_between_records_and_replacement 1 l = true /\
  let g := rerun true big c [1;2] (crashed 1 l f) in
  obs_ws g 1 = OFile [97;10] true /\ rec_digest g 1 = Some [97;10] /\
  rec_digest (run_cmd true big f c) 1 = Some [98;10].
Proof. vm_compute. repeat split. Qed.
Theorem C07_rerun_outside_classes_refuted : ~ C07_rerun_outside_classes.
Proof.
  intros H. specialize (H big cached1 (CarryIn [1]) [1;2] 1%nat).
  assert (E : big <> 0) by discriminate. specialize (H E).
  vm_compute in H. specialize (H eq_refl eq_refl eq_refl eq_refl). discriminate.
Qed.

(* track --recheck-method hardlink: the edited file 1 holds cached bytes.  Kill after the five record saves and
   before the workspace file is replaced: the re-run skips the path (metadata unchanged), recheck finds
   nothing missing, the file stays a regular writable file; the uninterrupted run leaves a hard link *)
Example track_cached_content_refuted :
  let f := run_items true big [UWrite 1 [97;10]; UWrite 2 [98;10]; Xvc (Track (Some MHardlink) [1;2]); UWrite 1 [98;10]] in
  let c := Track (Some MHardlink) [1] in let l := effects true big f c in
  exists n, nth_error l n = Some (Unlink (LWs 1)) /\
            K_any n l = false /\ converges_at true big f c [1;2] n = false /\
            K_crash_between_records_and_replacement n l = true /\
            obs_ws (rerun true big c [1;2] (crashed n l f)) 1 = OFile [98;10] true /\
            obs_ws (run_cmd true big f c) 1 = OFile [98;10] false.
Proof. exists 6%nat. vm_compute. repeat split. Qed.

(* the C03 boundary of clause (c): `recheck --force` over an edited, uncommitted file loses its bytes
   (also without any kill); this is why crash_prefix_safe asks for cmd_pre *)
Example recheck_force_uncommitted_refuted :
  let f := repo3 true in let c := Recheck None true [1] in
  all_ok true f [] (effects true big f c) = false /\
  bytes_kept f (run_cmd true big f c) = false /\
  all_ok false f [] (effects true big f c) = true.
Proof. vm_compute. repeat split. Qed.

(* ---- non-vacuity and bounded sweeps ------------------------------------------------------------------ *)
(* the hypotheses of crash_prefix_safe are met by non-trivial states, and the executable twins of the
   clauses hold at EVERY crash point of these commands; outside the four known classes the crashed
   repository loads and re-running converges (for recheck this is crash_rerun_converges_recheck; for
   track and carry-in a bounded check of these instances only, in which no content is already cached) *)
Definition sweep fx (f : fsys) (c : command) (ps : list path) : bool :=
  let l := effects fx big f c in
  forallb (fun n =>
    let g := crashed n l f in
    objects_intact g && objects_kept f g && bytes_kept f g
    && (negb fx || loads g)
    && (K_any n l || (loads g && converges_at fx big f c ps n)))
    (seq 0 (S (length l))).

Example sweeps_hold :
  sweep false (fresh2 false) track12 [1;2] = true /\
  sweep true (fresh2 true) track12 [1;2] = true /\
  sweep false (repo3 false) (Track None [1;2;3;4]) [1;2;3;4] = true /\
  sweep true (repo3 true) (Track (Some MSymlink) [1;2;3;4]) [1;2;3;4] = true /\
  sweep true (repo3 true) (Track (Some MHardlink) [4;1]) [1;2;3;4] = true /\
  sweep false (repo3 false) (CarryIn [1;2;3]) [1;2;3] = true /\
  sweep true (repo3 true) (CarryIn [3;2;1]) [1;2;3] = true /\
  sweep true (run_items true big [UWrite 1 [97;10]; UWrite 2 [98;10]; UWrite 3 [99;10]; Xvc (Track None [1;2;3]); UDelete 1; UDelete 3])
        (Recheck None false [1;2;3]) [1;2;3] = true /\
  sweep true (run_items true big [UWrite 1 [97;10]; UWrite 2 [98;10]; Xvc (Track None [1;2]); UDelete 1])
        (Recheck (Some MSymlink) false [1;2]) [1;2] = true /\
  sweep true (run_items true big [UWrite 1 [97;10]; UWrite 2 [98;10]; Xvc (Track None [1;2])])
        (Recheck (Some MHardlink) true [1;2]) [1;2] = true /\
  sweep true (run_items true 2 [UWrite 1 [97;98;99;100;10]; Xvc (Track None [1]); UDelete 1])
        (Recheck None false [1]) [1] = true.
Proof. vm_compute. repeat split. Qed.

(* with the widened P23 class also the instances with already-cached content converge (bounded check) *)
Definition sweep_wide (f : fsys) (c : command) (ps : list path) : bool :=
  let l := effects true big f c in
  forallb (fun n => K_any n l || K_crash_between_records_and_replacement n l || converges_at true big f c ps n)
          (seq 0 (S (length l))).
Definition cached_hist m : list item :=
  [UWrite 1 [97;10]; UWrite 2 [98;10]; UWrite 3 [99;10]; Xvc (Track (Some m) [1;2;3]);
   UWrite 1 [98;10]; UWrite 2 [100;10]; UWrite 4 [97;10]].
Example sweeps_wide_hold :
  forallb (fun m => sweep_wide (run_items true big (cached_hist m)) (CarryIn [1;2;3]) [1;2;3;4]
                    && sweep_wide (run_items true big (cached_hist m)) (Track None [1;4]) [1;2;3;4]
                    && sweep_wide (run_items true big (cached_hist m)) (Track (Some MSymlink) [4;1;2]) [1;2;3;4])
          [MCopy; MHardlink; MSymlink] = true.
Proof. vm_compute. reflexivity. Qed.

(* the hypotheses of crash_rerun_converges_recheck are met in the middle of a run: file 1 was deleted,
   file 2 is a copy; recheck as symlink is killed after it removed file 2 and before it links it *)
Example crash_rerun_converges_recheck_met :
  let f := run_items true big [UWrite 1 [97;10]; UWrite 2 [98;10]; Xvc (Track None [1;2]); UDelete 1] in
  let c := Recheck (Some MSymlink) false [1;2] in let l := effects true big f c in
  big <> 0 /\ length l = 6%nat /\ nth_error l 2 = Some (Symlink [98;10] (LWs 2)) /\
  K_crash_during_workspace_copy 2 l = false /\
  obs_ws f 2 = OFile [98;10] true /\ obs_ws (crashed 2 l f) 2 = ONone /\ obs_ws (run_cmd true big f c) 2 = OLink [98;10] /\
  converges_at true big f c [1;2] 2 = true /\
  (* and the excluded class is not empty: a copy killed between two chunks *)
  let f2 := run_items true 2 [UWrite 1 [97;98;99;100;10]; Xvc (Track None [1]); UDelete 1] in
  let l2 := effects true 2 f2 (Recheck None false [1]) in
  K_crash_during_workspace_copy 3 l2 = true /\ converges_at true 2 f2 (Recheck None false [1]) [1] 3 = false.
Proof. vm_compute. repeat split; discriminate. Qed.

Example cmd_pre_met :
  cmd_pre true (run_items true big [UWrite 1 [97;10]; UWrite 2 [98;10]; Xvc (Track None [1;2]); UDelete 1])
          (Recheck (Some MSymlink) true [1;2]).
Proof.
  split; [apply run_items_wf|].
  intros _ p b w st [<-|[<-|[]]]; vm_compute; intros E; try discriminate.
  injection E as <- _ _. reflexivity.
Qed.

(* store-only commands: every store is entirely old or entirely new at every prefix (instance) *)
Example stores_old_or_new_example :
  let f := repo3 true in
  let c := StoresOnly [(SOther 1, [{| ev_p := 9; ev_v := VOther 1 |}]); (SOther 2, [{| ev_p := 9; ev_v := VOther 2 |}])] (Some 7) in
  let l := effects true big f c in
  forallb (fun n => let g := crashed n l f in
     forallb (fun s => (Nat.eqb (length (store_events g s)) (length (store_events f s))
                        || Nat.eqb (length (store_events g s)) (length (store_events (run_cmd true big f c) s))))
             [SOther 1; SOther 2; SPath; SDigest]) (seq 0 (S (length l))) = true
  /\ length l = 9%nat.
Proof. vm_compute. split; reflexivity. Qed.
Example store_saves_hypothesis_met :
  NoDup (map fst [(SOther 1, [{| ev_p := 9; ev_v := VOther 1 |}]); (SOther 2, [{| ev_p := 9; ev_v := VOther 2 |}])]).
Proof. cbn. repeat constructor; cbn; intuition discriminate. Qed.
(* and the hypothesis is needed: a store saved twice by one command passes through a third state *)
Example store_saved_twice_refuted :
  let f := repo3 true in
  let c := StoresOnly [(SOther 1, [{| ev_p := 9; ev_v := VOther 1 |}]); (SOther 1, [{| ev_p := 9; ev_v := VOther 2 |}])] None in
  let g := crashed 3 (effects true big f c) f in
  length (store_events f (SOther 1)) = 0%nat /\ length (store_events g (SOther 1)) = 1%nat /\
  length (store_events (run_cmd true big f c) (SOther 1)) = 2%nat.
Proof. vm_compute. repeat split. Qed.

Print Assumptions crash_prefix_safe.
Print Assumptions crash_prefix_keeps_cache.
Print Assumptions disciplined_effects_safe.
Print Assumptions store_saves_prefix_consistent.
Print Assumptions crash_rerun_converges_recheck.
Print Assumptions crash_rerun_converges_partial.
Print Assumptions reachable_wf.
Print Assumptions reachable_loads.
Print Assumptions C07_loads_full_refuted.
Print Assumptions C07_rerun_full_refuted.
Print Assumptions C07_rerun_outside_classes_refuted.
