(* C13 — Concurrent step commands never exceed the configured process pool.
   Property theorems only (proofs in Sched/Proofs.v).  [count_running s] is the number of steps whose
   command process is alive in state [s]; [fix_shared_pool] / [fix_atomic_acquire] are the two halves
   of the repair of P11 (both are in the current tree, commit b7ee5068: the check passes
   `fix=11...` to the extracted model and validates every real trace against it). *)
From Coq Require Import List Bool NArith Lia.
From XV Require Import Base.Amap Gen.StepMachine Sched.Model Sched.Proofs.
Import ListNotations.
Local Open Scope N_scope.

(* 1. (core) for every pipeline, every behaviour of the commands, every schedule and every
      reachable state: at most process_pool_size commands are running *)
Theorem pool_respected cfg sch s :
  fix_shared_pool cfg = true -> fix_atomic_acquire cfg = true ->
  run cfg sch = Accepted s -> N.of_nat (count_running s) <= c_pool cfg.
Proof. exact (pool_respected_lemma cfg sch s). Qed.

(* 2. with a pool of 1 two commands are never alive together: process lifetimes are totally
      ordered; that this order extends the dependency graph is [started_after_dependencies] *)
Theorem pool1_sequential cfg sch s i j ti tj :
  fix_shared_pool cfg = true -> fix_atomic_acquire cfg = true -> c_pool cfg = 1 ->
  run cfg sch = Accepted s -> tget (thr s) i = Some ti -> tget (thr s) j = Some tj ->
  is_running (proc ti) = true -> is_running (proc tj) = true -> i = j.
Proof. exact (pool1_exclusive_lemma cfg sch s i j ti tj). Qed.

Theorem pool1_order_extends_graph cfg sch s i j sc ti :
  run cfg sch = Accepted s ->
  find_step (c_steps cfg) i = Some sc -> In j (deps_of cfg sc) ->
  tget (thr s) i = Some ti -> started (proc ti) = true ->
  exists tj, tget (thr s) j = Some tj /\ is_running (proc tj) = false /\
             (is_done (loc tj) = true \/ (s_when sc = Always /\ is_terminal (loc tj) = true)).
Proof. exact (started_after_dependencies_lemma cfg sch s i j sc ti). Qed.

(* the regenerated table (premise: the transition of the repair of P14b is in the table of the tree
   that has the repair; checked on every run) *)
Theorem handler_within_table cfg s sc t :
  (fixed_P14b cfg = true -> table_P14b = true) ->
  match handler cfg s sc t with
  | HNext l _ _ => exists e, snd l = Some e /\ allowed (fst (loc t)) e = Some (fst l)
  | _ => True
  end.
Proof. exact (handler_within_table_lemma cfg s sc t). Qed.

(* ---- the full statement (no assumption on the switches) and what each half of the repair fixed -- *)
Definition C13_full : Prop :=
  forall cfg sch s, run cfg sch = Accepted s -> N.of_nat (count_running s) <= c_pool cfg.

Definition mkstep i w deps outs pr :=
  {| s_id := i; s_when := w; s_deps := deps; s_outs := outs; s_proc := pr; s_sup := VChanged; s_thor := VChanged |}.
Definition mkcfg steps ex pool a b c d e f g :=
  {| c_steps := steps; c_exists := ex; c_pool := pool; c_cap := 65536;
     fix_shared_pool := a; fix_atomic_acquire := b; fixed_P12 := c; fixed_P13 := d; fixed_P14 := e;
     fixed_P14b := f; fixed_P16 := g |}.
Definition round_robin (cfg : config) (n : nat) : list tid := flat_map (fun _ => all_tids cfg) (seq 0 n).
Definition steps_only (cfg : config) (n : nat) : list tid := flat_map (fun _ => map Step (step_ids cfg)) (seq 0 n).
Definition three := [mkstep 0 ByDeps [] [] (Exits 0 0 0); mkstep 1 ByDeps [] [] (Exits 0 0 0); mkstep 2 ByDeps [] [] (Exits 0 0 0)].

(* the tree before b7ee5068: one counter per step thread *)
Definition cfg_per_thread := mkcfg three [] 1 false false true true true true true.
(* one shared counter, but test (WaitingToRun) and decrement (Running) in different iterations *)
Definition cfg_separate := mkcfg three [] 1 true false true true true true true.
Definition cfg_fixed (pool : N) := mkcfg three [] pool true true true true true true true.

Definition max_running (cfg : config) (sch : list tid) : option nat :=
  match init cfg with
  | Accepted s0 => let '(_, mx, _) := run_obs cfg s0 sch 0%nat true in Some mx
  | Rejected _ => None
  end.

Theorem pool_refuted_per_thread_counter :
  exists sch s, run cfg_per_thread sch = Accepted s /\ c_pool cfg_per_thread < N.of_nat (count_running s).
Proof. exists (steps_only cfg_per_thread 20). eexists. split; [vm_compute; reflexivity|]. vm_compute. reflexivity. Qed.

Theorem pool_refuted_separate_test_and_decrement :
  exists sch s, run cfg_separate sch = Accepted s /\ c_pool cfg_separate < N.of_nat (count_running s).
Proof. exists (steps_only cfg_separate 20). eexists. split; [vm_compute; reflexivity|]. vm_compute. reflexivity. Qed.

Theorem C13_full_refuted : ~ C13_full.
Proof.
  intros H. destruct pool_refuted_per_thread_counter as [sch [s [Hr Hlt]]].
  specialize (H _ _ _ Hr). apply N.lt_nge in Hlt. contradiction.
Qed.

(* non-vacuity: under the same schedules the repaired model reaches, and never exceeds, the pool *)
Example fixed_pool1 : max_running (cfg_fixed 1) (steps_only (cfg_fixed 1) 20) = Some 1%nat.
Proof. vm_compute. reflexivity. Qed.
Example fixed_pool2 : max_running (cfg_fixed 2) (steps_only (cfg_fixed 2) 20) = Some 2%nat.
Proof. vm_compute. reflexivity. Qed.
Example old_pool1 : max_running cfg_per_thread (steps_only cfg_per_thread 20) = Some 3%nat.
Proof. vm_compute. reflexivity. Qed.
Example fixed_pool1_completes :
  match run (cfg_fixed 1) (round_robin (cfg_fixed 1) 60) with
  | Accepted s => all_doneb s = true /\ map (fun kv => fst (loc (snd kv))) (thr s) = [DoneByRunning; DoneByRunning; DoneByRunning]
  | Rejected _ => False
  end.
Proof. vm_compute. split; reflexivity. Qed.

Check pool_respected :
  forall cfg sch s, fix_shared_pool cfg = true -> fix_atomic_acquire cfg = true ->
  run cfg sch = Accepted s -> N.of_nat (count_running s) <= c_pool cfg.
Check pool1_sequential :
  forall cfg sch s i j ti tj,
  fix_shared_pool cfg = true -> fix_atomic_acquire cfg = true -> c_pool cfg = 1 ->
  run cfg sch = Accepted s -> tget (thr s) i = Some ti -> tget (thr s) j = Some tj ->
  is_running (proc ti) = true -> is_running (proc tj) = true -> i = j.
Check C13_full_refuted : ~ C13_full.

Print Assumptions pool_respected.
Print Assumptions pool1_sequential.
Print Assumptions pool1_order_extends_graph.
Print Assumptions handler_within_table.
Print Assumptions pool_refuted_per_thread_counter.
Print Assumptions pool_refuted_separate_test_and_decrement.
Print Assumptions C13_full_refuted.
