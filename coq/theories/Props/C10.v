(* C10 — Pipeline steps run only after everything they depend on succeeded.
   Property theorems only: statement, [exact] of a lemma of Sched/Proofs.v, [Check] pins, Examples
   (non-vacuity, refutation witnesses by vm_compute), [Print Assumptions].

   Reading guide.  [run cfg sch] is the model of `xvc pipeline run` for the pipeline / command
   behaviour [cfg] under the thread schedule [sch] (ANY list of thread ids; ids that are not enabled
   are skipped): [Rejected] before any thread starts, or [Accepted s] with the state reached.
   [deps_of cfg sc] are the neighbours of step [sc] in the dependency graph the code builds
   (explicit step dependencies + dependencies_to_path); [edges cfg] is that graph.
   [started (proc t)]: the step's command has been started (it may have ended since). *)
From Coq Require Import List Bool NArith Lia.
From XV Require Import Base.Amap Gen.StepMachine Sched.Model Sched.Proofs.
Import ListNotations.
Local Open Scope N_scope.

(* 1. (core) In every reachable state of every schedule: if the command of step i has been started,
      then every step j it depends on in the graph has a verdict, its command is not running, and
      the verdict is "done" (executed successfully or up to date) -- or i is marked `always` and j
      merely has finished.  Holds for every setting of the repair switches. *)
Theorem started_after_dependencies cfg sch s i j sc ti :
  run cfg sch = Accepted s ->
  find_step (c_steps cfg) i = Some sc -> In j (deps_of cfg sc) ->
  tget (thr s) i = Some ti -> started (proc ti) = true ->
  exists tj, tget (thr s) j = Some tj /\ is_running (proc tj) = false /\
             (is_done (loc tj) = true \/ (s_when sc = Always /\ is_terminal (loc tj) = true)).
Proof. exact (started_after_dependencies_lemma cfg sch s i j sc ti). Qed.

(* ... and a verdict never changes afterwards (so the dependency HAD finished when i started) *)
Theorem verdicts_are_final cfg sch s k sch' :
  run cfg sch = Accepted s -> is_terminal (loc_of s k) = true ->
  loc_of (run_sched cfg s sch') k = loc_of s k.
Proof. exact (verdicts_are_final_lemma cfg sch s k sch'). Qed.

(* 2. A step downstream of a broken step is never executed unless it is marked `always`:
      in every continuation of the run its process stays NotStarted. *)
Theorem downstream_of_failed_never_starts cfg sch s i j sc :
  run cfg sch = Accepted s ->
  find_step (c_steps cfg) i = Some sc -> In j (deps_of cfg sc) ->
  is_broken (loc_of s j) = true -> s_when sc <> Always ->
  forall sch' ti, tget (thr (run_sched cfg s sch')) i = Some ti -> proc ti = NotStarted.
Proof. exact (downstream_of_failed_never_starts_lemma cfg sch s i j sc). Qed.

(* 3. Cyclic graphs are rejected before any thread exists; an accepted graph has no cycle. *)
Theorem cyclic_rejected cfg sch :
  acyclicb cfg = false -> exists r, run cfg sch = Rejected r.
Proof. exact (cyclic_rejected_lemma cfg sch). Qed.

Theorem accepted_no_cycle cfg sch s :
  run cfg sch = Accepted s -> forall i, ~ path (edges cfg) i i.
Proof. intros H. exact (accepted_no_cycle_lemma cfg (run_accepted_acyclic cfg sch s H)). Qed.

(* 4. The graph covers the declared reads: explicit step dependencies, and every file-like
      dependency (file, regex, param, lines, sqlite: one path) on a declared output. *)
Theorem explicit_dependencies_are_edges cfg r j :
  In r (c_steps cfg) -> In (DStep j) (s_deps r) -> In (s_id r, j) (edges cfg).
Proof. exact (explicit_edge cfg r j). Qed.

Theorem edges_cover_declared_reads cfg r p d o :
  In r (c_steps cfg) -> In p (c_steps cfg) -> In d (s_deps r) -> In o (s_outs p) ->
  file_like d = true -> sem_reads d o = true -> In (s_id r, s_id p) (edges cfg).
Proof. exact (edges_cover_declared_reads_lemma cfg r p d o). Qed.

(* The full statement of C10 over the SEMANTIC reading relation (a glob reads every declared output
   it matches, whether or not the file exists yet). *)
Definition C10_body (cfg : config) : Prop :=
  forall sch s r p d o tr,
  run cfg sch = Accepted s ->
  In r (c_steps cfg) -> In p (c_steps cfg) -> In d (s_deps r) -> In o (s_outs p) -> sem_reads d o = true ->
  tget (thr s) (s_id r) = Some tr -> started (proc tr) = true ->
  exists tp, tget (thr s) (s_id p) = Some tp /\ is_running (proc tp) = false /\
             (is_done (loc tp) = true \/ (s_when r = Always /\ is_terminal (loc tp) = true)).
(* [p16]: is the repair of P16 in (dependencies_to_path matches the glob pattern against the declared
   output path instead of asking whether a matching file exists / was recorded) *)
Definition C10_full (p16 : bool) : Prop := forall cfg, fixed_P16 cfg = p16 -> C10_body cfg.

(* 5. With the repair of P16 the graph covers ALL declared semantic reads (every dependency kind) ... *)
Theorem edges_cover_all_declared_reads cfg r p d o :
  fixed_P16 cfg = true ->
  In r (c_steps cfg) -> In p (c_steps cfg) -> In d (s_deps r) -> In o (s_outs p) ->
  sem_reads d o = true -> In (s_id r, s_id p) (edges cfg).
Proof. exact (edges_cover_all_reads_fixed_lemma cfg r p d o). Qed.

(* ... and the full statement holds unconditionally *)
Theorem C10_full_fixed : C10_full true.
Proof. exact (fun cfg Hfx sch s r p d o tr => C10_full_fixed_lemma cfg sch s r p d o tr Hfx). Qed.

(* for every setting of the switch: outside the boolean class Known_glob_on_absent_output (finding P16;
   the class is empty when the repair is in: [glob_class_empty_when_fixed]) *)
Theorem C10_outside_known_class cfg : Known_glob_on_absent_output cfg = false -> C10_body cfg.
Proof. exact (fun Hk sch s r p d o tr => C10_semantic_lemma cfg sch s r p d o tr Hk). Qed.

Theorem glob_class_empty_when_fixed cfg : fixed_P16 cfg = true -> Known_glob_on_absent_output cfg = false.
Proof. exact (glob_class_fixed cfg). Qed.

(* the regenerated table: every transition of the handler model is one the state_machine! macro allows
   (the transition of the repair of P14b is in the table of the tree that has the repair: the check
   passes fixed_P14b = table_P14b to the model and compares both with the behaviour of the binary) *)
Theorem handler_within_table cfg s sc t :
  (fixed_P14b cfg = true -> table_P14b = true) ->
  match handler cfg s sc t with
  | HNext l _ _ => exists e, snd l = Some e /\ allowed (fst (loc t)) e = Some (fst l)
  | _ => True
  end.
Proof. exact (handler_within_table_lemma cfg s sc t). Qed.

(* ---- witnesses ------------------------------------------------------------------------------ *)
Definition mkstep i w deps outs pr :=
  {| s_id := i; s_when := w; s_deps := deps; s_outs := outs; s_proc := pr; s_sup := VChanged; s_thor := VChanged |}.
Definition mkcfg steps ex pool a b c d e f g :=
  {| c_steps := steps; c_exists := ex; c_pool := pool; c_cap := 65536;
     fix_shared_pool := a; fix_atomic_acquire := b; fixed_P12 := c; fixed_P13 := d; fixed_P14 := e;
     fixed_P14b := f; fixed_P16 := g |}.
Definition round_robin (cfg : config) (n : nat) : list tid := flat_map (fun _ => all_tids cfg) (seq 0 n).
Definition steps_only (cfg : config) (n : nat) : list tid := flat_map (fun _ => map Step (step_ids cfg)) (seq 0 n).

(* P16: producer 0 declares output path 1 (absent), consumer 1 has a glob matching it *)
Definition p16_steps := [mkstep 0 ByDeps [] [1] (Exits 0 0 0); mkstep 1 ByDeps [DGlob [1]] [] (Exits 0 0 0)].
Definition cfg_p16 : config := mkcfg p16_steps [] 2 true true true true true true false.
Definition cfg_p16_fixed : config := mkcfg p16_steps [] 2 true true true true true true true.

Example p16_in_class : Known_glob_on_absent_output cfg_p16 = true.
Proof. vm_compute. reflexivity. Qed.

Example p16_no_edge : edges cfg_p16 = [].
Proof. vm_compute. reflexivity. Qed.

(* both commands are running at the same time although the consumer reads the producer's output *)
Theorem glob_absent_output_refuted : ~ C10_full false.
Proof.
  intros H.
  pose (s := run_sched cfg_p16 (init_state cfg_p16) (steps_only cfg_p16 20)).
  destruct (tget (thr s) 1) as [tr|] eqn:Htr; [|vm_compute in Htr; discriminate].
  vm_compute in Htr. inversion Htr; subst tr; clear Htr.
  edestruct (H cfg_p16 eq_refl (steps_only cfg_p16 20) s
              (mkstep 1 ByDeps [DGlob [1]] [] (Exits 0 0 0)) (mkstep 0 ByDeps [] [1] (Exits 0 0 0)) (DGlob [1]) 1)
    as [tp [Htp [Hr _]]].
  - vm_compute. reflexivity.
  - vm_compute. auto.
  - vm_compute. auto.
  - vm_compute. auto.
  - vm_compute. auto.
  - vm_compute. reflexivity.
  - vm_compute. reflexivity.
  - vm_compute. reflexivity.
  - vm_compute in Htp. inversion Htp; subst tp. vm_compute in Hr. discriminate.
Qed.

(* with the output present when the run starts the edge exists *)
Example glob_present_output_edge :
  edges (mkcfg p16_steps [1] 2 true true true true true true false) = [(1, 0)].
Proof. vm_compute. reflexivity. Qed.

(* with the repair the edge exists although the output is absent, the consumer starts only after the
   producer is done, and the same schedule that refutes the unrepaired model is harmless *)
Example p16_fixed_edge : edges cfg_p16_fixed = [(1, 0)] /\ Known_glob_on_absent_output cfg_p16_fixed = false.
Proof. vm_compute. split; reflexivity. Qed.
Example p16_fixed_waits :
  let s := run_sched cfg_p16_fixed (init_state cfg_p16_fixed) (steps_only cfg_p16_fixed 20) in
  (deps_okb cfg_p16_fixed s, map (fun kv => (fst (loc (snd kv)), started (proc (snd kv)))) (thr s))
  = (true, [(Running, true); (WaitingDependencySteps, false)]).
Proof. vm_compute. reflexivity. Qed.
Example p16_fixed_completes :
  match run cfg_p16_fixed (round_robin cfg_p16_fixed 60) with
  | Accepted s => (all_doneb s, map (fun kv => fst (loc (snd kv))) (thr s)) = (true, [DoneByRunning; DoneByRunning])
  | Rejected _ => False
  end.
Proof. vm_compute. reflexivity. Qed.
(* glob-items: the recorded list is empty on a first run; repaired: the pattern decides; a cycle
   through such an edge is now rejected *)
Example p16_glob_items :
  (edges (mkcfg [mkstep 0 ByDeps [] [1] (Exits 0 0 0); mkstep 1 ByDeps [DGlobItems [1] []] [] (Exits 0 0 0)] [] 2 true true true true true true false),
   edges (mkcfg [mkstep 0 ByDeps [] [1] (Exits 0 0 0); mkstep 1 ByDeps [DGlobItems [1] []] [] (Exits 0 0 0)] [] 2 true true true true true true true))
  = ([], [(1, 0)]).
Proof. vm_compute. reflexivity. Qed.
Example p16_cycle_through_glob :
  let steps := [mkstep 0 ByDeps [DStep 1] [1] (Exits 0 0 0); mkstep 1 ByDeps [DGlob [1]] [] (Exits 0 0 0)] in
  (match run (mkcfg steps [] 2 true true true true true true false) [] with Accepted _ => true | _ => false end,
   run (mkcfg steps [] 2 true true true true true true true) []) = (true, Rejected Cycle).
Proof. vm_compute. reflexivity. Qed.

(* non-vacuity: a chain 2 -> 1 -> 0 with a failing middle step and an `always` tail, run to the end
   by a round-robin schedule: 0 done by running, 1 broken, 2 ran (always) after both had finished *)
Definition cfg_chain : config :=
  mkcfg [mkstep 0 ByDeps [] [5] (Exits 0 10 0); mkstep 1 ByDeps [DPath 5] [] (Exits 1 0 0); mkstep 2 Always [DStep 1; DStep 0] [] (Exits 0 0 0)]
        [] 1 true true true true true true true.

Example chain_runs :
  match run cfg_chain (round_robin cfg_chain 60) with
  | Accepted s => (all_doneb s, deps_okb cfg_chain s,
                   map (fun kv => (fst kv, fst (loc (snd kv)), started (proc (snd kv)))) (thr s))
                  = (true, true, [(0, DoneByRunning, true); (1, Broken, true); (2, DoneByRunning, true)])
  | Rejected _ => False
  end.
Proof. vm_compute. reflexivity. Qed.

Example chain_edges : edges cfg_chain = [(1, 0); (2, 1); (2, 0)].
Proof. vm_compute. reflexivity. Qed.

(* downstream of a failed step: with `by_dependencies` on step 2 it never starts *)
Example downstream_not_started :
  let cfg := mkcfg [mkstep 0 ByDeps [] [] (Exits 1 0 0); mkstep 1 ByDeps [DStep 0] [] (Exits 0 0 0)] [] 2 true true true true true true true in
  match run cfg (round_robin cfg 60) with
  | Accepted s => (all_doneb s, map (fun kv => (fst (loc (snd kv)), started (proc (snd kv)))) (thr s)) = (true, [(Broken, true); (Broken, false)])
  | Rejected _ => False
  end.
Proof. vm_compute. reflexivity. Qed.

Example cycle_is_rejected :
  run (mkcfg [mkstep 0 ByDeps [DStep 1] [] (Exits 0 0 0); mkstep 1 ByDeps [DPath 7] [] (Exits 0 0 0); mkstep 2 ByDeps [] [7] (Exits 0 0 0) ;
              mkstep 3 ByDeps [DStep 0] [7] (Exits 0 0 0)] [] 2 true true true true true true true) [Step 0; Step 1] = Rejected Cycle.
Proof. vm_compute. reflexivity. Qed.

(* ---- the statements are pinned ------------------------------------------------------------- *)
Check started_after_dependencies :
  forall cfg sch s i j sc ti, run cfg sch = Accepted s ->
  find_step (c_steps cfg) i = Some sc -> In j (deps_of cfg sc) ->
  tget (thr s) i = Some ti -> started (proc ti) = true ->
  exists tj, tget (thr s) j = Some tj /\ is_running (proc tj) = false /\
             (is_done (loc tj) = true \/ (s_when sc = Always /\ is_terminal (loc tj) = true)).
Check downstream_of_failed_never_starts :
  forall cfg sch s i j sc, run cfg sch = Accepted s ->
  find_step (c_steps cfg) i = Some sc -> In j (deps_of cfg sc) ->
  is_broken (loc_of s j) = true -> s_when sc <> Always ->
  forall sch' ti, tget (thr (run_sched cfg s sch')) i = Some ti -> proc ti = NotStarted.
Check cyclic_rejected : forall cfg sch, acyclicb cfg = false -> exists r, run cfg sch = Rejected r.
Check C10_outside_known_class : forall cfg, Known_glob_on_absent_output cfg = false -> C10_body cfg.
Check C10_full_fixed : forall cfg, fixed_P16 cfg = true -> C10_body cfg.
Check edges_cover_all_declared_reads :
  forall cfg r p d o, fixed_P16 cfg = true ->
  In r (c_steps cfg) -> In p (c_steps cfg) -> In d (s_deps r) -> In o (s_outs p) ->
  sem_reads d o = true -> In (s_id r, s_id p) (edges cfg).
Check glob_absent_output_refuted : ~ (forall cfg, fixed_P16 cfg = false -> C10_body cfg).

Print Assumptions started_after_dependencies.
Print Assumptions verdicts_are_final.
Print Assumptions downstream_of_failed_never_starts.
Print Assumptions cyclic_rejected.
Print Assumptions accepted_no_cycle.
Print Assumptions explicit_dependencies_are_edges.
Print Assumptions edges_cover_declared_reads.
Print Assumptions C10_outside_known_class.
Print Assumptions edges_cover_all_declared_reads.
Print Assumptions C10_full_fixed.
Print Assumptions glob_class_empty_when_fixed.
Print Assumptions handler_within_table.
Print Assumptions glob_absent_output_refuted.
