(* C09 -- ignore rules pick the same files on every run and act only below their directory.
   Property theorems only: statement, [exact] of a lemma of Walker/Proofs.v, Walker/Special.v or
   Glob/Proofs.v, a [Check] pinning the statement, [Example]s showing the hypotheses are met by
   non-trivial concrete trees (and the _refuted witnesses, by vm_compute with the transliterated
   fast-glob matcher), [Print Assumptions].

   [fixed_P17 = true] is the code with the locality test in IgnoreRules::check
   (repo-patches/51-fix-P17-ignore-locality.diff), [fixed_P17 = false] the code without it.
   [fixed_P35 = true] (argument f35) is the code in which IgnoreRules::check consults the global ignore
   patterns first (repo-patches/78-fix-P35-global-ignore-final.diff), [false] the code without it.
   [fixed_P36 = true] (argument f36) is Pattern::new dropping the last character, not the last byte
   (repo-patches/79-fix-P36-pattern-multibyte-last-char.diff).  The check derives all three switches from
   [fixed_P37 = true] (argument f37) is the code in which the walkers ask about a directory with
   IgnoreRules::check_dir, so that a directory-only line (`build/`) ignores the directory itself
   (repo-patches/87-fix-P37-dir-pattern-ignores-the-directory.diff); [false] the code without it.  The check
   derives all four switches from the behaviour of the code on every run (vlib/c09.py probe_switches).
   Every walker theorem holds for EVERY matcher [gm]; the witnesses use [glob_matches]. *)
From Coq Require Import List Bool NArith Permutation Lia.
From XV Require Import Glob.Match Glob.Pattern Glob.Proofs Walker.Model Walker.Proofs Walker.Special Walker.DirLine Gen.CommonIgnore.
(* (Glob/LastComponent.v and Glob/DirComponent.v, the proofs about the matcher, are used through Walker/Special.v and
   Walker/DirLine.v) *)
Import ListNotations.
Open Scope N_scope.

(* ---- concrete trees for the Examples ------------------------------------------------------------------- *)
(* a/{foo.tmp,x.txt}  b/{.xvcignore = "foo.tmp", foo.tmp}  c/{foo.tmp} *)
Definition ex1_ch : list (name * tree) := [
    ([97] (* a *), Dir (None) [
      ([102; 111; 111; 46; 116; 109; 112] (* foo.tmp *), File);
      ([120; 46; 116; 120; 116] (* x.txt *), File)]);
    ([98] (* b *), Dir (Some [102; 111; 111; 46; 116; 109; 112; 10]) [
      ([46; 120; 118; 99; 105; 103; 110; 111; 114; 101] (* .xvcignore *), File);
      ([102; 111; 111; 46; 116; 109; 112] (* foo.tmp *), File)]);
    ([99] (* c *), Dir (None) [
      ([102; 111; 111; 46; 116; 109; 112] (* foo.tmp *), File)])].
(* a1/x/y.txt  a[1]/{.xvcignore = "x/y.txt", x/y.txt} *)
Definition ex2_ch : list (name * tree) := [
    ([97; 49] (* a1 *), Dir (None) [
      ([120] (* x *), Dir (None) [
        ([121; 46; 116; 120; 116] (* y.txt *), File)])]);
    ([97; 91; 49; 93] (* a[1] *), Dir (Some [120; 47; 121; 46; 116; 120; 116; 10]) [
      ([46; 120; 118; 99; 105; 103; 110; 111; 114; 101] (* .xvcignore *), File);
      ([120] (* x *), Dir (None) [
        ([121; 46; 116; 120; 116] (* y.txt *), File)])])].
(* .xvcignore = "!.git" at the root, a/{.git/HEAD, u.txt}, .xvc/config.toml *)
Definition ex3_ch : list (name * tree) := [
    ([46; 120; 118; 99; 105; 103; 110; 111; 114; 101] (* .xvcignore *), File);
    ([97] (* a *), Dir (None) [
      ([46; 103; 105; 116] (* .git *), Dir (None) [
        ([72; 69; 65; 68] (* HEAD *), File)]);
      ([117; 46; 116; 120; 116] (* u.txt *), File)]);
    ([46; 120; 118; 99] (* .xvc *), Dir (None) [
      ([99; 111; 110; 102; 105; 103; 46; 116; 111; 109; 108] (* config.toml *), File)])].
Definition ex3_ign : option bytes := Some [33; 46; 103; 105; 116; 10].
Definition s_a : bytes := [97].   (* 'a' *)
Definition s_b : bytes := [98].   (* 'b' *)
Definition s_c : bytes := [99].   (* 'c' *)
Definition s_foo : bytes := [102; 111; 111; 46; 116; 109; 112].   (* 'foo.tmp' *)
Definition s_a1 : bytes := [97; 49].   (* 'a1' *)
Definition s_a_1_ : bytes := [97; 91; 49; 93].   (* 'a[1]' *)
Definition s_x : bytes := [120].   (* 'x' *)
Definition s_y : bytes := [121; 46; 116; 120; 116].   (* 'y.txt' *)
Definition s_git : bytes := [46; 103; 105; 116].   (* '.git' *)
Definition s_xvc : bytes := [46; 120; 118; 99].   (* '.xvc' *)
Definition s_head : bytes := [72; 69; 65; 68].   (* 'HEAD' *)
Definition l_foo : bytes := [102; 111; 111; 46; 116; 109; 112].   (* 'foo.tmp' *)
Definition l_xy : bytes := [120; 47; 121; 46; 116; 120; 116].   (* 'x/y.txt' *)
(* ex1 without the files that the line of b/.xvcignore could reach outside b *)
Definition ex4_ch : list (name * tree) :=
  [(s_a, Dir None [([120; 46; 116; 120; 116], File)]);
   (s_b, Dir (Some [102; 111; 111; 46; 116; 109; 112; 10]) [([46; 120; 118; 99; 105; 103; 110; 111; 114; 101], File); (s_foo, File)]);
   (s_c, Dir None [])].

(* .xvcignore = "donn\u00e9es/\u00e9" at the root, donn\u00e9es/{\u00e9, x.txt} *)
Definition s_donnees : bytes := [100; 111; 110; 110; 195; 169; 101; 115].   (* 'donn\u00e9es' *)
Definition s_e_acute : bytes := [195; 169].   (* '\u00e9' *)
Definition l_donnees_e : bytes := [100; 111; 110; 110; 195; 169; 101; 115; 47; 195; 169].   (* 'donn\u00e9es/\u00e9' *)
Definition ex5_ign : option bytes := Some (l_donnees_e ++ [10]).
Definition ex5_ch : list (name * tree) :=
  [([46; 120; 118; 99; 105; 103; 110; 111; 114; 101], File);
   (s_donnees, Dir None [(s_e_acute, File); ([120; 46; 116; 120; 116], File)])].

(* .xvcignore = "build/\n!*.keep\n" at the root, build/{x.keep, y.bin, sub/z.keep}, keep/build/q.keep   (finding P37) *)
Definition s_build : bytes := [98; 117; 105; 108; 100].   (* 'build' *)
Definition s_xkeep : bytes := [120; 46; 107; 101; 101; 112].   (* 'x.keep' *)
Definition s_ybin : bytes := [121; 46; 98; 105; 110].   (* 'y.bin' *)
Definition s_sub : bytes := [115; 117; 98].   (* 'sub' *)
Definition s_zkeep : bytes := [122; 46; 107; 101; 101; 112].   (* 'z.keep' *)
Definition s_keep : bytes := [107; 101; 101; 112].   (* 'keep' *)
Definition s_qkeep : bytes := [113; 46; 107; 101; 101; 112].   (* 'q.keep' *)
Definition s_ign : bytes := [46; 120; 118; 99; 105; 103; 110; 111; 114; 101].   (* '.xvcignore' *)
Definition ex6_ign : option bytes := Some [98; 117; 105; 108; 100; 47; 10; 33; 42; 46; 107; 101; 101; 112; 10].   (* 'build/\n!*.keep\n' *)
Definition ex6_ch : list (name * tree) :=
  [(s_ign, File);
   (s_build, Dir None [(s_xkeep, File); (s_ybin, File); (s_sub, Dir None [(s_zkeep, File)])]);
   (s_keep, Dir None [(s_build, Dir None [(s_qkeep, File)])])].
(* the same with the line "!build/" added: the directory itself is re-included *)
Definition ex7_ign : option bytes := Some [98; 117; 105; 108; 100; 47; 10; 33; 42; 46; 107; 101; 101; 112; 10; 33; 98; 117; 105; 108; 100; 47; 10].   (* 'build/\n!*.keep\n!build/\n' *)
(* the line in a nested file: keep/.xvcignore = "build/", root .xvcignore = "!*.keep" *)
Definition ex8_ign : option bytes := Some [33; 42; 46; 107; 101; 101; 112; 10].   (* '!*.keep\n' *)
Definition ex8_ch : list (name * tree) :=
  [(s_ign, File);
   (s_build, Dir None [(s_xkeep, File)]);
   (s_keep, Dir (Some [98; 117; 105; 108; 100; 47; 10]) [(s_ign, File); (s_sub, Dir None [(s_build, Dir None [(s_qkeep, File)])])])].

(* thread 0 takes every step (queue position k at its first pop), then both threads leave *)
Definition sched_one (k : nat) : list (nat * nat) := (O, k) :: repeat (O, O) 40 ++ [(1%nat, O)].

(* ---- 0. the regenerated tables are the ones the model is about ----------------------------------------- *)
Example gen_tables_supported :
  common_ignore_supported && xvc_dir_supported && xvcignore_filename_supported && max_threads_supported
  && callers_use_common_ignore = true.
Proof. reflexivity. Qed.
Example gen_threads_positive : (1 <= max_threads_parallel_walk)%nat.
Proof. vm_compute. lia. Qed.
Example gen_common_rules :
  map (fun pat => (p_glob pat, p_src pat, p_white pat)) (r_ign (global_rules common_ignore_patterns))
  = [(c_star :: c_star :: c_slash :: xvc_dir_name, SGlobal, false); (c_star :: c_star :: c_slash :: git_dir_name, SGlobal, false)]
  /\ r_white (global_rules common_ignore_patterns) = [].
Proof. exact common_rules_shape. Qed.

(* ---- 1. locality of a pattern ------------------------------------------------------------------------------ *)
(* A pattern read from the ignore file of directory D (not the root) hits the path string of q only if
   q is properly below D. *)
Definition C09_pattern_local (fixed : bool) : Prop :=
  forall gm pat D ign q,
    In pat (dir_patterns D ign) -> D <> [] -> forallb good_name D = true -> q <> [] -> forallb good_name q = true ->
    pat_hits gm fixed (render q) pat = true -> exists r, q = D ++ r /\ r <> [].

Theorem pattern_local : C09_pattern_local true.
Proof. exact pattern_local_lemma. Qed.

(* without the locality test: "foo.tmp" of b/.xvcignore hits /a/foo.tmp (P17) *)
Theorem pattern_local_refuted : ~ C09_pattern_local false.
Proof.
  intros H.
  destruct (H glob_matches (pattern_new (SFile s_b) l_foo) [s_b] (Some (l_foo ++ [10])) [s_a; s_foo]) as (r & E & _);
    [vm_compute; left; reflexivity|discriminate|reflexivity|discriminate|reflexivity|vm_compute; reflexivity|].
  discriminate.
Qed.

(* without the locality test even a relative pattern leaks when the directory name has glob
   metacharacters: "x/y.txt" of a[1]/.xvcignore is the glob /a[1]/**/x/y.txt, which hits /a1/x/y.txt *)
Theorem metachar_dir_refuted :
  exists pat, In pat (dir_patterns [s_a_1_] (Some (l_xy ++ [10]))) /\ p_rel pat <> None /\
              pat_hits glob_matches false (render [s_a1; s_x; s_y]) pat = true /\
              pat_hits glob_matches true (render [s_a1; s_x; s_y]) pat = false.
Proof.
  exists (pattern_new (SFile s_a_1_) l_xy).
  split; [vm_compute; left; reflexivity|]. split; [vm_compute; discriminate|]. split; vm_compute; reflexivity.
Qed.

(* the basis of [pattern_local]: the explicit prefix test of the fix, on strings *)
Theorem applies_only_below pat dir s :
  p_src pat = SFile dir -> trim_slashes dir <> [] -> applies pat s = true ->
  exists rest, trim_start_by is_sep s = trim_slashes dir ++ c_slash :: rest.
Proof. exact (applies_local pat dir s). Qed.

(* ---- 2. walk_parallel: every schedule, every number of threads ---------------------------------------------- *)
(* [walk_deterministic gm fixed f35 f37 globals ign ch] (Walker/Proofs.v): for every number of threads n >= 1 and
   every schedule, if the run reaches a final configuration (all threads have left), its output is a
   permutation of spec_walk and has no duplicates. *)
Definition C09_full : Prop :=
  forall gm fixed f35 f37 globals ign ch, wf_tree (Dir ign ch) = true -> walk_deterministic gm fixed f35 f37 globals ign ch.

Theorem par_walk_deterministic gm f35 f37 globals ign ch :
  wf_tree (Dir ign ch) = true -> walk_deterministic gm true f35 f37 globals ign ch.
Proof.
  exact (fun Hwf => par_walk_deterministic_lemma gm true f35 f37 globals ign ch Hwf (local_of_fixed gm true f37 ign ch Hwf eq_refl)).
Qed.

(* the code as it is (no locality test): the same holds for every tree outside the known class *)
Theorem par_walk_deterministic_outside_P17 gm fixed f35 f37 globals ign ch :
  wf_tree (Dir ign ch) = true -> known_P17 gm f37 (Dir ign ch) = false -> walk_deterministic gm fixed f35 f37 globals ign ch.
Proof.
  exact (fun Hwf Hk => par_walk_deterministic_lemma gm fixed f35 f37 globals ign ch Hwf (local_of_not_known gm fixed f37 ign ch Hk)).
Qed.

(* ... and fails inside it: two schedules of the same tree with different results *)
Theorem par_walk_nondeterministic_refuted f37 :
  let c1 := par_walk glob_matches false false f37 2 common_ignore_patterns None ex1_ch (sched_one 0) in
  let c2 := par_walk glob_matches false false f37 2 common_ignore_patterns None ex1_ch (sched_one 1) in
  final c1 = true /\ final c2 = true /\ length (c_out c1) <> length (c_out c2) /\
  length (c_out c2) <> length (spec_walk glob_matches false false f37 common_ignore_patterns None ex1_ch).
Proof. destruct f37; vm_compute; repeat split; discriminate. Qed.

Theorem C09_full_refuted_P17 : ~ C09_full.
Proof.
  intros H.
  destruct (H glob_matches false false false common_ignore_patterns None ex1_ch eq_refl 2%nat (sched_one 1)) as [Hp _];
    [repeat constructor|vm_compute; reflexivity|].
  apply Permutation_length in Hp. vm_compute in Hp. discriminate Hp.
Qed.

(* ---- 3. walk_serial -------------------------------------------------------------------------------------------- *)
Theorem serial_eq_spec gm f35 f37 globals ign ch :
  wf_tree (Dir ign ch) = true ->
  exists out, serial_walk gm true f35 f37 (S (dir_count (Dir ign ch))) globals ign ch = Some out /\
              Permutation out (spec_walk gm true f35 f37 globals ign ch) /\ NoDup out.
Proof.
  exact (fun Hwf => serial_eq_spec_lemma gm true f35 f37 globals ign ch Hwf (local_of_fixed gm true f37 ign ch Hwf eq_refl)).
Qed.

Theorem serial_eq_spec_outside_P17 gm fixed f35 f37 globals ign ch :
  wf_tree (Dir ign ch) = true -> known_P17 gm f37 (Dir ign ch) = false ->
  exists out, serial_walk gm fixed f35 f37 (S (dir_count (Dir ign ch))) globals ign ch = Some out /\
              Permutation out (spec_walk gm fixed f35 f37 globals ign ch) /\ NoDup out.
Proof.
  exact (fun Hwf Hk => serial_eq_spec_lemma gm fixed f35 f37 globals ign ch Hwf (local_of_not_known gm fixed f37 ign ch Hk)).
Qed.

Theorem serial_ne_spec_refuted f37 :
  exists out, serial_walk glob_matches false false f37 (S (dir_count (Dir None ex1_ch))) common_ignore_patterns None ex1_ch = Some out /\
              length out <> length (spec_walk glob_matches false false f37 common_ignore_patterns None ex1_ch).
Proof. destruct f37; (eexists; split; [vm_compute; reflexivity|vm_compute; discriminate]). Qed.

(* both walkers report the same set *)
Theorem serial_eq_parallel gm f35 f37 globals ign ch n sched out :
  wf_tree (Dir ign ch) = true -> (1 <= n)%nat ->
  final (par_walk gm true f35 f37 n globals ign ch sched) = true ->
  serial_walk gm true f35 f37 (S (dir_count (Dir ign ch))) globals ign ch = Some out ->
  Permutation out (c_out (par_walk gm true f35 f37 n globals ign ch sched)).
Proof.
  intros Hwf Hn Hf Hs.
  destruct (serial_eq_spec_lemma gm true f35 f37 globals ign ch Hwf (local_of_fixed gm true f37 ign ch Hwf eq_refl)) as (out' & E & Hp & _).
  rewrite Hs in E. injection E as <-.
  destruct (par_walk_deterministic_lemma gm true f35 f37 globals ign ch Hwf (local_of_fixed gm true f37 ign ch Hwf eq_refl) n sched Hn Hf) as [Hp' _].
  exact (Permutation_trans Hp (Permutation_sym Hp')).
Qed.

(* ---- 4. an ignored directory hides everything beneath it ------------------------------------------------------ *)
(* every reported path, and every directory on the way to it, is "not ignored" under the rules of its own
   ancestors (RB q), asked the way the walkers ask ([kind_at]: as a directory when it is one): nothing below a
   directory that those rules ignore is ever reported.  Section 8 says which directories a `dir/` line ignores. *)
Theorem ignored_dir_hides_subtree gm fixed f35 f37 globals ign ch x p n r :
  wf_tree (Dir ign ch) = true -> In x (spec_walk gm fixed f35 f37 globals ign ch) -> x = p ++ n :: r ->
  is_ignore (check gm fixed f35 f37 (RB globals ign ch (p ++ [n])) (p ++ [n]) (kind_at (Dir ign ch) (p ++ [n]))) = false.
Proof. exact (fun Hwf => ignored_dir_hides_subtree_lemma gm fixed f35 f37 globals ign ch Hwf x p n r). Qed.

Theorem par_ignored_dir_hides_subtree gm f35 f37 globals ign ch nth sched x p n r :
  wf_tree (Dir ign ch) = true -> (1 <= nth)%nat ->
  final (par_walk gm true f35 f37 nth globals ign ch sched) = true ->
  In x (c_out (par_walk gm true f35 f37 nth globals ign ch sched)) -> x = p ++ n :: r ->
  is_ignore (check gm true f35 f37 (RB globals ign ch (p ++ [n])) (p ++ [n]) (kind_at (Dir ign ch) (p ++ [n]))) = false.
Proof.
  exact (fun Hwf Hn => par_ignored_dir_hides_subtree_lemma gm true f35 f37 globals ign ch nth sched x p n r Hwf
                         (local_of_fixed gm true f37 ign ch Hwf eq_refl) Hn).
Qed.

(* ---- 5. .xvc and .git (COMMON_IGNORE_PATTERNS as regenerated into Gen/CommonIgnore.v) ------------------ *)
(* Full statement: no reported path has a component .xvc or .git -- every tree, every ignore file. *)
Definition C09_never_enters_full (f35 : bool) : Prop :=
  forall fixed f37 ign ch x p n r, wf_tree (Dir ign ch) = true ->
    In x (spec_walk glob_matches fixed f35 f37 common_ignore_patterns ign ch) -> x = p ++ n :: r -> is_special n = false.

(* [fixed_P35 = false], the code without the repair: refuted by a whitelist line.  The root line "!.git"
   re-includes a/.git (whitelist patterns are consulted before ignore patterns, and the built-in ones are
   ordinary ignore patterns) -- finding P35 *)
Theorem never_enters_xvc_git_refuted : ~ C09_never_enters_full false.
Proof.
  intros H. assert (E := H true false ex3_ign ex3_ch [s_a; s_git] [s_a] s_git [] eq_refl).
  assert (Hin : In [s_a; s_git] (spec_walk glob_matches true false false common_ignore_patterns ex3_ign ex3_ch)) by (vm_compute; tauto).
  specialize (E Hin eq_refl). vm_compute in E. discriminate E.
Qed.

(* For the transliterated fast-glob matcher the needed fact -- "**/<name>" matches every string that ends
   in "/<name>" -- is itself a theorem about Glob/Match.v (Glob/LastComponent.v: the globstar loop walks
   from component to component and the literal comparison succeeds on the last one, within the default fuel). *)
Theorem matcher_finds_xvc_git : matcher_finds_last_component glob_matches.
Proof. exact glob_matches_finds_last_component. Qed.

(* [fixed_P35 = true], the repair (IgnoreRules::check consults the global ignore patterns first and their
   verdict is final): the full statement, no class excluded, for the reference walk ... *)
Theorem never_enters_xvc_git_fixed : C09_never_enters_full true.
Proof. exact (fun fixed f37 ign ch x p n r _ => never_enters_xvc_git_fixed_lemma fixed f37 ign ch x p n r). Qed.

(* ... and for every run of walk_parallel (any schedule, any thread count) *)
Theorem par_never_enters_xvc_git_fixed f37 ign ch nth sched x p n r :
  wf_tree (Dir ign ch) = true -> (1 <= nth)%nat ->
  final (par_walk glob_matches true true f37 nth common_ignore_patterns ign ch sched) = true ->
  In x (c_out (par_walk glob_matches true true f37 nth common_ignore_patterns ign ch sched)) -> x = p ++ n :: r -> is_special n = false.
Proof.
  exact (fun Hwf Hn => par_never_enters_xvc_git_fixed_lemma true f37 ign ch nth sched x p n r Hwf
                         (local_of_fixed glob_matches true f37 ign ch Hwf eq_refl) Hn).
Qed.

(* the known class of P35 is empty when the repair is in: the check suppresses nothing then *)
Theorem whitelist_class_empty_when_fixed fixed f37 ign ch : whitelists_special glob_matches fixed true f37 ign ch = false.
Proof. exact (whitelist_class_empty_lemma glob_matches fixed f37 ign ch glob_matches_finds_last_component). Qed.

(* For every setting of the switch: outside the known class [whitelists_special] (boolean). *)
Theorem never_enters_xvc_git fixed f35 f37 ign ch x p n r :
  whitelists_special glob_matches fixed f35 f37 ign ch = false ->
  In x (spec_walk glob_matches fixed f35 f37 common_ignore_patterns ign ch) -> x = p ++ n :: r -> is_special n = false.
Proof. exact (never_enters_xvc_git_glob_lemma fixed f35 f37 ign ch x p n r). Qed.

Theorem par_never_enters_xvc_git f35 f37 ign ch nth sched x p n r :
  wf_tree (Dir ign ch) = true -> (1 <= nth)%nat ->
  whitelists_special glob_matches true f35 f37 ign ch = false ->
  final (par_walk glob_matches true f35 f37 nth common_ignore_patterns ign ch sched) = true ->
  In x (c_out (par_walk glob_matches true f35 f37 nth common_ignore_patterns ign ch sched)) -> x = p ++ n :: r -> is_special n = false.
Proof.
  exact (fun Hwf Hn => par_never_enters_xvc_git_glob_lemma true f35 f37 ign ch nth sched x p n r Hwf
                         (local_of_fixed glob_matches true f37 ign ch Hwf eq_refl) Hn).
Qed.

(* the same for any other matcher that finds a last component *)
Theorem never_enters_xvc_git_any_matcher gm fixed f35 f37 ign ch x p n r :
  matcher_finds_last_component gm -> whitelists_special gm fixed f35 f37 ign ch = false ->
  In x (spec_walk gm fixed f35 f37 common_ignore_patterns ign ch) -> x = p ++ n :: r -> is_special n = false.
Proof. exact (never_enters_xvc_git_lemma gm fixed f35 f37 ign ch x p n r). Qed.

(* ---- 6. the queue discipline terminates ------------------------------------------------------------------------ *)
(* [mu c] bounds the number of steps any schedule can take from c; a non-final configuration always has
   an enabled thread; so every run that keeps scheduling enabled threads reaches a final configuration,
   and a run that cannot be continued is final. *)
Theorem par_walk_steps_bounded gm fixed f35 f37 c sched : (steps gm fixed f35 f37 c sched <= mu c)%nat.
Proof. exact (steps_bounded gm fixed f35 f37 sched c). Qed.

Theorem par_walk_progress gm fixed f35 f37 c : final c = false -> exists i, par_step gm fixed f35 f37 c i O <> None.
Proof. exact (progress gm fixed f35 f37 c). Qed.

Theorem par_walk_terminates gm fixed f35 f37 c :
  exists sched, final (par_run gm fixed f35 f37 c sched) = true /\ (length sched <= mu c)%nat.
Proof. exact (terminates_lemma gm fixed f35 f37 (mu c) c (le_n _)). Qed.

Theorem par_walk_stuck_is_final gm fixed f35 f37 c : (forall i k, par_step gm fixed f35 f37 c i k = None) -> final c = true.
Proof. exact (stuck_final gm fixed f35 f37 c). Qed.

(* ---- 7. no walk dies on a line of an ignore file (finding P36) ---------------------------------------------- *)
(* [walk_panics]: the walk reads an ignore file (of a directory the reference walk enters) or a global line on
   which Pattern::new panics.  Full statement: never. *)
Definition C09_no_panic (f36 : bool) : Prop :=
  forall gm fixed f35 f37 globals ign ch, walk_panics gm fixed f35 f37 f36 globals ign ch = false.

(* [fixed_P36 = false]: `line[..line.len() - 1]` is not on a character boundary when the line ends in a
   multi-byte character -- the root line "donn\u00e9es/\u00e9" *)
Theorem walk_panics_refuted : ~ C09_no_panic false.
Proof.
  intros H. assert (E := H glob_matches true true true common_ignore_patterns ex5_ign ex5_ch). vm_compute in E. discriminate E.
Qed.

(* [fixed_P36 = true] (the last CHARACTER is dropped): the full statement *)
Theorem walk_never_panics_fixed : C09_no_panic true.
Proof. exact walk_panics_fixed. Qed.

(* for every setting of the switch: outside the boolean class [known_P36] (some ignore file of the tree has a
   rule line that ends in a multi-byte character), which is empty when the repair is in *)
Theorem walk_no_panic_outside_P36 gm fixed f35 f37 f36 globals ign ch :
  known_P36 f36 globals (Dir ign ch) = false -> walk_panics gm fixed f35 f37 f36 globals ign ch = false.
Proof. exact (walk_panics_outside gm fixed f35 f37 f36 globals ign ch). Qed.

Theorem P36_class_empty_when_fixed globals t : known_P36 true globals t = false.
Proof. exact (known_P36_fixed globals t). Qed.

(* ---- 8. a directory line hides the directory it names (finding P37) ------------------------------------------- *)
(* Reference meaning of a line "<name>/" (Walker/DirLine.v, executable): [simple_name] -- plain bytes, no glob
   metacharacter, no separator, not a comment or a negation; [named_dir T D] -- the ignore file of a PROPER ANCESTOR
   of D (any of them: the root's or a nested one's, by locality) has the line "<last component of D>/".
   [dir_leak] (boolean): the walk reports a path strictly below a directory D that such a line names and that no
   whitelist line matches ([check ... D true] is not Whitelist).  Full statement: never, for every tree, every
   placement of ignore files, every global text, whatever whitelist lines say about the descendants of D. *)
Definition C09_dir_full (f37 : bool) : Prop :=
  forall fixed f35 globals ign ch, wf_tree (Dir ign ch) = true -> dir_leak glob_matches fixed f35 f37 globals ign ch = false.

(* [fixed_P37 = false], the walkers ask about a directory as about a file: the glob of "build/" is "**/build/**",
   which matches what is below build but not /build itself; build is entered and "!*.keep" re-includes build/x.keep *)
Theorem dir_pattern_hides_subtree_refuted : ~ C09_dir_full false.
Proof. intros H. assert (E := H true true common_ignore_patterns ex6_ign ex6_ch eq_refl). vm_compute in E. discriminate E. Qed.

(* the fact about the transliterated fast-glob matcher that the repair relies on: "**/<name>/**" matches every
   string that ends in "/<name>/" (Glob/DirComponent.v: the name is tried against every component in turn, the
   trailing globstar swallows whatever follows the first hit; within the default fuel) *)
Theorem matcher_finds_dir_lines : matcher_finds_dir glob_matches.
Proof. exact glob_matches_finds_dir. Qed.

(* [fixed_P37 = true] (IgnoreRules::check_dir): the full statement, no class excluded *)
Theorem dir_pattern_hides_subtree_fixed : C09_dir_full true.
Proof. exact (fun fixed f35 globals ign ch Hwf => dir_leak_false_when_fixed glob_matches fixed f35 globals ign ch Hwf glob_matches_finds_dir). Qed.

(* the same, spelled out: the reference walk ... *)
Theorem dir_pattern_hides_subtree fixed f35 globals ign ch D x m r :
  wf_tree (Dir ign ch) = true -> named_dir (Dir ign ch) D = true ->
  is_white (check glob_matches fixed f35 true (RB globals ign ch D) D true) = false ->
  In x (spec_walk glob_matches fixed f35 true globals ign ch) -> x <> D ++ m :: r.
Proof. exact (fun Hwf Hn Hw Hin Ex => named_dir_hides glob_matches fixed f35 globals ign ch Hwf glob_matches_finds_dir D x m r Hn Hw Hin Ex). Qed.

(* ... walk_serial ... *)
Theorem serial_dir_pattern_hides_subtree f35 globals ign ch D out x m r :
  wf_tree (Dir ign ch) = true -> named_dir (Dir ign ch) D = true ->
  is_white (check glob_matches true f35 true (RB globals ign ch D) D true) = false ->
  serial_walk glob_matches true f35 true (S (dir_count (Dir ign ch))) globals ign ch = Some out ->
  In x out -> x <> D ++ m :: r.
Proof. exact (fun Hwf Hn Hw Hs Hin Ex => serial_named_dir_hides glob_matches f35 globals ign ch D out x m r Hwf glob_matches_finds_dir Hn Hw Hs Hin Ex). Qed.

(* ... and every run of walk_parallel (any schedule, any thread count) *)
Theorem par_dir_pattern_hides_subtree f35 globals ign ch D nth sched x m r :
  wf_tree (Dir ign ch) = true -> (1 <= nth)%nat -> named_dir (Dir ign ch) D = true ->
  is_white (check glob_matches true f35 true (RB globals ign ch D) D true) = false ->
  final (par_walk glob_matches true f35 true nth globals ign ch sched) = true ->
  In x (c_out (par_walk glob_matches true f35 true nth globals ign ch sched)) -> x <> D ++ m :: r.
Proof. exact (fun Hwf Hnth Hn Hw Hf Hin Ex => par_named_dir_hides glob_matches f35 globals ign ch D nth sched x m r Hwf glob_matches_finds_dir Hnth Hn Hw Hf Hin Ex). Qed.

(* with the line given explicitly: the ignore file of F has the line "<n>/", D = F/.../n lies anywhere below F *)
Theorem dir_line_hides_subtree fixed f35 globals ign ch F content chF mid n x m r :
  wf_tree (Dir ign ch) = true -> node_at (Dir ign ch) F = Some (Dir (Some content) chF) ->
  In (n ++ [c_slash]) (lines content) -> simple_name n = true ->
  is_white (check glob_matches fixed f35 true (RB globals ign ch (F ++ mid ++ [n])) (F ++ mid ++ [n]) true) = false ->
  In x (spec_walk glob_matches fixed f35 true globals ign ch) -> x <> (F ++ mid ++ [n]) ++ m :: r.
Proof.
  exact (fun Hwf HF Hl Hs Hw Hin Ex => dir_line_hides glob_matches fixed f35 globals ign ch Hwf glob_matches_finds_dir F content chF mid n x m r HF Hl Hs Hw Hin Ex).
Qed.

(* the same for any other matcher that finds a directory *)
Theorem dir_pattern_hides_subtree_any_matcher gm fixed f35 globals ign ch D x m r :
  matcher_finds_dir gm -> wf_tree (Dir ign ch) = true -> named_dir (Dir ign ch) D = true ->
  is_white (check gm fixed f35 true (RB globals ign ch D) D true) = false ->
  In x (spec_walk gm fixed f35 true globals ign ch) -> x <> D ++ m :: r.
Proof. exact (fun Hgm Hwf Hn Hw Hin Ex => named_dir_hides gm fixed f35 globals ign ch Hwf Hgm D x m r Hn Hw Hin Ex). Qed.

(* the known class of P37 is empty when the repair is in: the check suppresses nothing then *)
Theorem dir_class_empty_when_fixed fixed f35 globals ign ch :
  wf_tree (Dir ign ch) = true -> dir_leak glob_matches fixed f35 true globals ign ch = false.
Proof. exact (fun Hwf => dir_leak_false_when_fixed glob_matches fixed f35 globals ign ch Hwf glob_matches_finds_dir). Qed.

(* for every setting of the switch: outside the boolean class [dir_leak] *)
Theorem dir_pattern_hides_subtree_outside_P37 gm fixed f35 f37 globals ign ch D x m r :
  dir_leak gm fixed f35 f37 globals ign ch = false -> named_dir (Dir ign ch) D = true ->
  is_white (check gm fixed f35 f37 (RB globals ign ch D) D true) = false ->
  In x (spec_walk gm fixed f35 f37 globals ign ch) -> x <> D ++ m :: r.
Proof. exact (fun Hl Hn Hw Hin Ex => dir_leak_outside gm fixed f35 f37 globals ign ch D x m r Hl Hn Hw Hin Ex). Qed.

(* ---- the statements are pinned ------------------------------------------------------------------------------------ *)
Check pattern_local : forall gm pat D ign q,
  In pat (dir_patterns D ign) -> D <> [] -> forallb good_name D = true -> q <> [] -> forallb good_name q = true ->
  pat_hits gm true (render q) pat = true -> exists r, q = D ++ r /\ r <> [].
Check par_walk_deterministic : forall gm f35 f37 globals ign ch, wf_tree (Dir ign ch) = true ->
  forall n sched, (1 <= n)%nat ->
    let c := par_walk gm true f35 f37 n globals ign ch sched in
    final c = true -> Permutation (c_out c) (spec_walk gm true f35 f37 globals ign ch) /\ NoDup (c_out c).
Check par_walk_deterministic_outside_P17 : forall gm fixed f35 f37 globals ign ch, wf_tree (Dir ign ch) = true ->
  known_P17 gm f37 (Dir ign ch) = false ->
  forall n sched, (1 <= n)%nat ->
    let c := par_walk gm fixed f35 f37 n globals ign ch sched in
    final c = true -> Permutation (c_out c) (spec_walk gm fixed f35 f37 globals ign ch) /\ NoDup (c_out c).
Check serial_eq_spec : forall gm f35 f37 globals ign ch, wf_tree (Dir ign ch) = true ->
  exists out, serial_walk gm true f35 f37 (S (dir_count (Dir ign ch))) globals ign ch = Some out /\
              Permutation out (spec_walk gm true f35 f37 globals ign ch) /\ NoDup out.
Check never_enters_xvc_git : forall fixed f35 f37 ign ch x p n r,
  whitelists_special glob_matches fixed f35 f37 ign ch = false ->
  In x (spec_walk glob_matches fixed f35 f37 common_ignore_patterns ign ch) -> x = p ++ n :: r -> is_special n = false.
Check never_enters_xvc_git_fixed : forall fixed f37 ign ch x p n r, wf_tree (Dir ign ch) = true ->
  In x (spec_walk glob_matches fixed true f37 common_ignore_patterns ign ch) -> x = p ++ n :: r -> is_special n = false.
Check whitelist_class_empty_when_fixed : forall fixed f37 ign ch, whitelists_special glob_matches fixed true f37 ign ch = false.
Check walk_never_panics_fixed : forall gm fixed f35 f37 globals ign ch, walk_panics gm fixed f35 f37 true globals ign ch = false.
Check par_walk_terminates : forall gm fixed f35 f37 c,
  exists sched, final (par_run gm fixed f35 f37 c sched) = true /\ (length sched <= mu c)%nat.
Check dir_pattern_hides_subtree : forall fixed f35 globals ign ch D x m r,
  wf_tree (Dir ign ch) = true -> named_dir (Dir ign ch) D = true ->
  is_white (check glob_matches fixed f35 true (RB globals ign ch D) D true) = false ->
  In x (spec_walk glob_matches fixed f35 true globals ign ch) -> x <> D ++ m :: r.
Check par_dir_pattern_hides_subtree : forall f35 globals ign ch D nth sched x m r,
  wf_tree (Dir ign ch) = true -> (1 <= nth)%nat -> named_dir (Dir ign ch) D = true ->
  is_white (check glob_matches true f35 true (RB globals ign ch D) D true) = false ->
  final (par_walk glob_matches true f35 true nth globals ign ch sched) = true ->
  In x (c_out (par_walk glob_matches true f35 true nth globals ign ch sched)) -> x <> D ++ m :: r.
Check dir_class_empty_when_fixed : forall fixed f35 globals ign ch,
  wf_tree (Dir ign ch) = true -> dir_leak glob_matches fixed f35 true globals ign ch = false.

(* ---- non-vacuity: the hypotheses are met by concrete, non-trivial trees ------------------------------------ *)
(* ex1 (nested ignore file whose line names files of sibling directories) is well formed, lies in the
   known class, and with the fix both schedules end in a final configuration with the reference result *)
Example ex1_wf : wf_tree (Dir None ex1_ch) = true.
Proof. vm_compute. reflexivity. Qed.
Example ex1_known : known_P17 glob_matches true (Dir None ex1_ch) = true.
Proof. vm_compute. reflexivity. Qed.
Example ex1_fixed_runs :
  let c1 := par_walk glob_matches true true true 2 common_ignore_patterns None ex1_ch (sched_one 0) in
  let c2 := par_walk glob_matches true true true 2 common_ignore_patterns None ex1_ch (sched_one 1) in
  final c1 = true /\ final c2 = true /\ length (c_out c1) = 7%nat /\ length (c_out c2) = 7%nat /\
  In [s_a; s_foo] (c_out c1) /\ In [s_a; s_foo] (c_out c2) /\ ~ In [s_b; s_foo] (c_out c1) /\
  length (spec_walk glob_matches true true true common_ignore_patterns None ex1_ch) = 7%nat.
Proof. vm_compute. repeat split; try tauto. intros H. repeat (destruct H as [H|H]; [discriminate|]). exact H. Qed.
(* ex4: a nested ignore file with a line that hits only below its directory: outside the known class,
   also for the code without the fix, and the nested line does hide something *)
Example ex4_outside : wf_tree (Dir None ex4_ch) = true /\ known_P17 glob_matches true (Dir None ex4_ch) = false /\
  ~ In [s_b; s_foo] (spec_walk glob_matches false false true common_ignore_patterns None ex4_ch) /\
  In [s_b] (spec_walk glob_matches false false true common_ignore_patterns None ex4_ch).
Proof. vm_compute. repeat split; try tauto. intros H. repeat (destruct H as [H|H]; [discriminate|]). exact H. Qed.
(* an ignored directory: .xvc of ex3 is ignored by its ancestors' rules, and nothing below it is reported *)
Example ex3_ignored_dir :
  is_ignore (check glob_matches true true true (RB common_ignore_patterns ex3_ign ex3_ch [s_xvc]) [s_xvc] true) = true /\
  forallb (fun x => match x with n :: _ => negb (bytes_eqb n s_xvc) | [] => true end)
          (spec_walk glob_matches true true true common_ignore_patterns ex3_ign ex3_ch) = true.
Proof. vm_compute. split; reflexivity. Qed.
(* [matcher_finds_xvc_git], evaluated: "**/.xvc" and "**/.git" match the last component at depths 1..4
   (also next to look-alike names) *)
Example matcher_sample :
  forallb (fun p => glob_matches (c_star :: c_star :: c_slash :: xvc_dir_name) (render (p ++ [xvc_dir_name]))
                    && glob_matches (c_star :: c_star :: c_slash :: git_dir_name) (render (p ++ [git_dir_name])))
          [[]; [s_a]; [s_a; s_b]; [s_a; s_b; s_c]; [s_xvc; s_a]; [[46; 120; 118; 99; 105]; s_git; s_a; s_foo]; [s_a_1_]] = true.
Proof. vm_compute. reflexivity. Qed.
(* known class of the second finding: ex3 is inside, ex1 outside (and ex1 reports no special name) *)
Example ex3_whitelists : whitelists_special glob_matches true false true ex3_ign ex3_ch = true.
Proof. vm_compute. reflexivity. Qed.
Example ex1_no_whitelist : whitelists_special glob_matches true false true None ex1_ch = false /\ whitelists_special glob_matches false false true None ex1_ch = false.
Proof. vm_compute. split; reflexivity. Qed.
(* with the repair of P35 the tree of the refutation reports neither a/.git nor .xvc, and still reports the rest
   (the whitelist line keeps working for everything that is not excluded by the program itself) *)
Example ex3_fixed :
  whitelists_special glob_matches true true true ex3_ign ex3_ch = false /\
  spec_walk glob_matches true true true common_ignore_patterns ex3_ign ex3_ch = [[[46; 120; 118; 99; 105; 103; 110; 111; 114; 101]]; [s_a]; [s_a; [117; 46; 116; 120; 116]]] /\
  In [s_a; s_git; s_head] (spec_walk glob_matches true false true common_ignore_patterns ex3_ign ex3_ch).
Proof. vm_compute. repeat split; tauto. Qed.
(* P36: ex5 is in the known class without the repair and outside it with the repair; the pattern the repaired
   Pattern::new builds for the line is the one the model computes on bytes, and it hides donn\u00e9es/\u00e9 only *)
Example ex5_class : wf_tree (Dir ex5_ign ex5_ch) = true /\
  known_P36 false common_ignore_patterns (Dir ex5_ign ex5_ch) = true /\ known_P36 true common_ignore_patterns (Dir ex5_ign ex5_ch) = false /\
  known_P36 false common_ignore_patterns (Dir None ex1_ch) = false.
Proof. vm_compute. repeat split; reflexivity. Qed.
Example ex5_fixed_walk :
  p_glob (pattern_new (SFile []) l_donnees_e) = [c_slash; c_star; c_star; c_slash] ++ l_donnees_e /\
  spec_walk glob_matches true true true common_ignore_patterns ex5_ign ex5_ch
  = [[[46; 120; 118; 99; 105; 103; 110; 111; 114; 101]]; [s_donnees]; [s_donnees; [120; 46; 116; 120; 116]]].
Proof. vm_compute. split; reflexivity. Qed.
(* the matcher works on bytes, as fast-glob does: '?' and a class consume ONE byte, so "?" does not match the
   two-byte character \u00e9 and "??" does; '*' runs over any bytes but '/' *)
Example bytes_not_chars :
  glob_matches [c_star; c_star; c_slash; c_q] (c_slash :: s_e_acute) = false /\
  glob_matches [c_star; c_star; c_slash; c_q; c_q] (c_slash :: s_e_acute) = true /\
  glob_matches [c_star; c_star; c_slash; c_star; 169] (c_slash :: s_donnees ++ c_slash :: s_e_acute) = true /\
  glob_matches [c_star; c_star; c_slash; c_lb; 195; c_rb; c_lb; 160; c_dash; 170; c_rb] (c_slash :: s_e_acute) = true.
Proof. vm_compute. repeat split; reflexivity. Qed.
(* str::trim_end strips Unicode white space: U+00A0, U+3000 and ASCII blanks after "a", but not the bytes of \u00e9 *)
Example trim_end_unicode :
  trim_end [97; 194; 160; 32; 227; 128; 128; 9] = [97] /\ trim_end (s_e_acute ++ [226; 128; 137]) = s_e_acute /\
  trim_end [97; 195; 160] = [97; 195; 160] /\ all_ws [194; 133; 32] = true /\ all_ws [195; 133] = false.
Proof. vm_compute. repeat split; reflexivity. Qed.
(* P37: ex6 (root lines "build/" and "!*.keep").  The line names build and keep/build, no whitelist line matches
   them; without the repair the tree is in the class (build/x.keep and keep/build/q.keep are reported), with the
   repair nothing below either directory is reported -- by the reference walk, by walk_serial and by two schedules of
   walk_parallel -- and everything else still is *)
Example ex6_named : wf_tree (Dir ex6_ign ex6_ch) = true /\
  named_dir (Dir ex6_ign ex6_ch) [s_build] = true /\ named_dir (Dir ex6_ign ex6_ch) [s_keep; s_build] = true /\
  named_dir (Dir ex6_ign ex6_ch) [s_keep] = false /\ named_dir (Dir ex6_ign ex6_ch) [s_build; s_sub] = false /\
  is_white (check glob_matches true true true (RB common_ignore_patterns ex6_ign ex6_ch [s_build]) [s_build] true) = false /\
  is_white (check glob_matches true true true (RB common_ignore_patterns ex6_ign ex6_ch [s_keep; s_build]) [s_keep; s_build] true) = false.
Proof. vm_compute. repeat split; reflexivity. Qed.
Example ex6_unfixed : dir_leak glob_matches true true false common_ignore_patterns ex6_ign ex6_ch = true /\
  In [s_build; s_xkeep] (spec_walk glob_matches true true false common_ignore_patterns ex6_ign ex6_ch) /\
  In [s_keep; s_build; s_qkeep] (spec_walk glob_matches true true false common_ignore_patterns ex6_ign ex6_ch) /\
  ~ In [s_build; s_ybin] (spec_walk glob_matches true true false common_ignore_patterns ex6_ign ex6_ch) /\
  check glob_matches true true false (RB common_ignore_patterns ex6_ign ex6_ch [s_build]) [s_build] true = NoMatch.
Proof. vm_compute. repeat split; try tauto. intros H. repeat (destruct H as [H|H]; [discriminate|]). exact H. Qed.
Example ex6_fixed : dir_leak glob_matches true true true common_ignore_patterns ex6_ign ex6_ch = false /\
  spec_walk glob_matches true true true common_ignore_patterns ex6_ign ex6_ch = [[s_ign]; [s_keep]] /\
  serial_walk glob_matches true true true (S (dir_count (Dir ex6_ign ex6_ch))) common_ignore_patterns ex6_ign ex6_ch = Some [[s_ign]; [s_keep]] /\
  (let c := par_walk glob_matches true true true 2 common_ignore_patterns ex6_ign ex6_ch (sched_one 0) in final c = true /\ c_out c = [[s_ign]; [s_keep]]) /\
  (let c := par_walk glob_matches true true true 2 common_ignore_patterns ex6_ign ex6_ch (sched_one 1) in final c = true /\ c_out c = [[s_ign]; [s_keep]]) /\
  check glob_matches true true true (RB common_ignore_patterns ex6_ign ex6_ch [s_build]) [s_build] true = Ignore /\
  check glob_matches true true true (RB common_ignore_patterns ex6_ign ex6_ch [s_build]) [s_build] false = NoMatch.
Proof. vm_compute. repeat split; reflexivity. Qed.
(* ex7: the whitelist line "!build/" matches the directory itself: the hypothesis "not whitelisted" fails, the
   directory is entered and its children are judged one by one (the repair does not remove re-inclusion) *)
Example ex7_whitelisted :
  check glob_matches true true true (RB common_ignore_patterns ex7_ign ex6_ch [s_build]) [s_build] true = Whitelist /\
  In [s_build] (spec_walk glob_matches true true true common_ignore_patterns ex7_ign ex6_ch) /\
  In [s_build; s_xkeep] (spec_walk glob_matches true true true common_ignore_patterns ex7_ign ex6_ch) /\
  dir_leak glob_matches true true true common_ignore_patterns ex7_ign ex6_ch = false.
Proof. vm_compute. repeat split; tauto. Qed.
(* ex8: the line stands in keep/.xvcignore: it names keep/sub/build (two levels below the file) and, by locality,
   not the root's build; the root's "!*.keep" cannot re-include keep/sub/build/q.keep *)
Example ex8_nested : wf_tree (Dir ex8_ign ex8_ch) = true /\
  named_dir (Dir ex8_ign ex8_ch) [s_keep; s_sub; s_build] = true /\ named_dir (Dir ex8_ign ex8_ch) [s_build] = false /\
  In [s_build; s_xkeep] (spec_walk glob_matches true true true common_ignore_patterns ex8_ign ex8_ch) /\
  In [s_keep; s_sub] (spec_walk glob_matches true true true common_ignore_patterns ex8_ign ex8_ch) /\
  ~ In [s_keep; s_sub; s_build] (spec_walk glob_matches true true true common_ignore_patterns ex8_ign ex8_ch) /\
  ~ In [s_keep; s_sub; s_build; s_qkeep] (spec_walk glob_matches true true true common_ignore_patterns ex8_ign ex8_ch) /\
  In [s_keep; s_sub; s_build; s_qkeep] (spec_walk glob_matches true true false common_ignore_patterns ex8_ign ex8_ch).
Proof. vm_compute. repeat split; try tauto; intros H; repeat (destruct H as [H|H]; [discriminate|]); exact H. Qed.
(* [matcher_finds_dir_lines], evaluated: "**/build/**" on /build/, deeper, after a look-alike and after an earlier
   component of the same name; and it does not match the path without the final slash *)
Example dir_matcher_sample :
  forallb (fun p => glob_matches (dir_glob s_build) (render (p ++ [s_build]) ++ [c_slash]))
          [[]; [s_a]; [s_a; s_b]; [s_build]; [s_build; s_a]; [[98; 117; 105; 108; 100; 120]; s_a]; [[98; 117; 105; 108]]] = true /\
  glob_matches (dir_glob s_build) (render [s_build]) = false /\ simple_name s_build = true /\
  simple_name [33; 97] = false /\ simple_name [97; 42] = false /\ simple_name [97; 47; 98] = false /\ simple_name [] = false.
Proof. vm_compute. repeat split; reflexivity. Qed.
(* the anchored forms of a directory line ("/build/", "keep/build/"), evaluated: Pattern::new gives them a glob
   relative to the directory of the file, and check_dir finds the directory as well (the general theorem is for the
   name-only form; these forms are covered by the correspondence check on every run) *)
Example anchored_dir_lines :
  p_glob (pattern_new (SFile []) [47; 98; 117; 105; 108; 100; 47]) = [c_slash; c_star; c_star; c_slash] ++ s_build ++ [c_slash; c_star; c_star] /\
  glob_matches (p_glob (pattern_new (SFile []) [47; 98; 117; 105; 108; 100; 47])) (render [s_build] ++ [c_slash]) = true /\
  glob_matches (p_glob (pattern_new (SFile s_keep) (s_sub ++ [c_slash] ++ s_build ++ [c_slash]))) (render [s_keep; s_sub; s_build] ++ [c_slash]) = true /\
  glob_matches (p_glob (pattern_new (SFile s_keep) (s_sub ++ [c_slash] ++ s_build ++ [c_slash]))) (render [s_keep; s_sub; s_build]) = false.
Proof. vm_compute. repeat split; reflexivity. Qed.
(* termination: the bound for ex1 with two threads *)
Example ex1_mu : mu (par_init glob_matches true true true 2 common_ignore_patterns None ex1_ch) = 19%nat.
Proof. vm_compute. reflexivity. Qed.

Print Assumptions pattern_local.
Print Assumptions pattern_local_refuted.
Print Assumptions metachar_dir_refuted.
Print Assumptions applies_only_below.
Print Assumptions par_walk_deterministic.
Print Assumptions par_walk_deterministic_outside_P17.
Print Assumptions par_walk_nondeterministic_refuted.
Print Assumptions C09_full_refuted_P17.
Print Assumptions serial_eq_spec.
Print Assumptions serial_eq_spec_outside_P17.
Print Assumptions serial_ne_spec_refuted.
Print Assumptions serial_eq_parallel.
Print Assumptions ignored_dir_hides_subtree.
Print Assumptions par_ignored_dir_hides_subtree.
Print Assumptions never_enters_xvc_git_refuted.
Print Assumptions matcher_finds_xvc_git.
Print Assumptions never_enters_xvc_git_fixed.
Print Assumptions par_never_enters_xvc_git_fixed.
Print Assumptions whitelist_class_empty_when_fixed.
Print Assumptions never_enters_xvc_git.
Print Assumptions par_never_enters_xvc_git.
Print Assumptions never_enters_xvc_git_any_matcher.
Print Assumptions par_walk_steps_bounded.
Print Assumptions par_walk_progress.
Print Assumptions par_walk_terminates.
Print Assumptions par_walk_stuck_is_final.
Print Assumptions walk_panics_refuted.
Print Assumptions walk_never_panics_fixed.
Print Assumptions walk_no_panic_outside_P36.
Print Assumptions P36_class_empty_when_fixed.
Print Assumptions dir_pattern_hides_subtree_refuted.
Print Assumptions matcher_finds_dir_lines.
Print Assumptions dir_pattern_hides_subtree_fixed.
Print Assumptions dir_pattern_hides_subtree.
Print Assumptions serial_dir_pattern_hides_subtree.
Print Assumptions par_dir_pattern_hides_subtree.
Print Assumptions dir_line_hides_subtree.
Print Assumptions dir_pattern_hides_subtree_any_matcher.
Print Assumptions dir_class_empty_when_fixed.
Print Assumptions dir_pattern_hides_subtree_outside_P37.
