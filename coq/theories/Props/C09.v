(* C09 -- ignore rules pick the same files on every run and act only below their directory.
   Property theorems only (first instalment; the file grows with Walker/Proofs.v). *)
From Coq Require Import List Bool NArith.
From XV Require Import Glob.Match Glob.Pattern Glob.Proofs Walker.Model Gen.CommonIgnore.
Import ListNotations.
Open Scope N_scope.

(* The locality test of the P17 fix: a pattern read from the ignore file of a directory whose
   (slash-trimmed) name is d <> "" is consulted only for strings "d/..." (after leading slashes). *)
Theorem applies_only_below pat dir s :
  p_src pat = SFile dir -> trim_slashes dir <> [] -> applies pat s = true ->
  exists rest, trim_start_by is_sep s = trim_slashes dir ++ c_slash :: rest.
Proof. exact (applies_local pat dir s). Qed.

Print Assumptions applies_only_below.
