(* C18 -- commands mean the same from any directory inside the repository.
   Only: theorems closed by [exact], statement pins, non-vacuity examples, refutation witnesses for
   the behaviour of the pinned tree (P6, P29, P30: repaired by fix: commits), Print Assumptions. *)
From Coq Require Import List Bool NArith.
From XV Require Import Base.Bytes Cwd.Model Cwd.Proofs Gen.CwdSites.
Import ListNotations.

(* the tie by translation: the directory each cwd-dependent string is resolved against, READ FROM THE
   SOURCE on every run (gen/cwd_sites.py), is the one for which the property is proved *)
Theorem current_sites_recognised : recognised = true.
Proof. exact (eq_refl true). Qed.
Theorem current_sites_fixed : current_sites = sites_fixed.
Proof. exact (eq_refl sites_fixed). Qed.

(* core: for every glob-set matcher, every disk, every absolute location of the repository, every
   subdirectory d at any depth, every place the process itself runs in (d, or anywhere with -C d),
   every target list (or none) and every relative destination: the command plans -- store targets,
   disk targets, directory rules, copy and move destinations -- exactly what the same command plans
   at the root with "d/" put in front of every argument ("d/" itself when no target list is given).  A target
   LIST that is empty -- what remove and untrack hand over when no target is named -- has nothing to prefix: what
   it means is the second theorem, empty_targets_apply_under_cwd *)
Theorem cwd_equivariance :
  forall (gms : list str -> str -> bool) (is_dir is_dir_out : str -> bool) (disk : list str)
         (file_out : str -> bool) (rootabs : list str) (d : str) (pr : option str) (a : args) (stored : list str),
    subdir d ->
    a_targets a <> Some [] ->
    match a_dest a with Some s => rel_arg s = true | None => True end ->
    plan_of gms is_dir is_dir_out disk file_out rootabs current_sites {| cwd := d; proc := pr |} a stored =
    plan_of gms is_dir is_dir_out disk file_out rootabs current_sites at_root (rebase_args d a) stored.
Proof.
  intros gms is_dir is_dir_out disk file_out rootabs d pr a stored Hs Hne Hd.
  rewrite current_sites_fixed.
  exact (plan_equivariant_fixed gms is_dir is_dir_out disk file_out rootabs d pr a stored Hs Hne Hd).
Qed.

(* "With no targets it applies to the files under the current directory" *)
Theorem no_targets_apply_under_cwd :
  forall (gms : list str -> str -> bool) (is_dir : str -> bool),
    (forall g p, ends_with_slash g = true -> gms [g ++ [star; star]] p = starts_with g p) ->
    forall d pr stored, d <> [] ->
      resolve_store gms is_dir current_sites {| cwd := d; proc := pr |} None stored =
      filter (starts_with (with_slash d)) stored.
Proof.
  intros gms is_dir H d pr stored Hd. rewrite current_sites_fixed.
  exact (no_targets_under_cwd gms is_dir H d pr stored Hd).
Qed.

(* ... also for the commands that hand over their (then empty) target list: `cd d; xvc file untrack` *)
Theorem empty_targets_apply_under_cwd :
  forall (gms : list str -> str -> bool) (is_dir : str -> bool),
    (forall g p, ends_with_slash g = true -> gms [g ++ [star; star]] p = starts_with g p) ->
    forall d pr stored, d <> [] ->
      resolve_store gms is_dir current_sites {| cwd := d; proc := pr |} (Some []) stored =
      filter (starts_with (with_slash d)) stored.
Proof.
  intros gms is_dir H d pr stored Hd. rewrite current_sites_fixed.
  exact (empty_targets_under_cwd gms is_dir H d pr stored Hd).
Qed.

(* XvcPath::new: a string relative to the subdirectory names the path "d/" ++ string names at the root,
   including "." and ".." components in the string *)
Theorem destination_equivariant :
  forall rootabs d s, clean (comps d) = true -> s <> [] ->
    xvcpath_new rootabs (Some (comps d)) s = xvcpath_new rootabs (Some []) (with_slash d ++ s).
Proof. exact xvcpath_new_rebase. Qed.

Check cwd_equivariance.
Check no_targets_apply_under_cwd.
Check empty_targets_apply_under_cwd.

(* ---- non-vacuity and witnesses ------------------------------------------------------------------------ *)
Local Open Scope N_scope.
Definition D : str := [100].                         (* "d" *)
Definition DE : str := [100; 47; 101].               (* "d/e" *)
Definition A_TXT : str := [97; 46; 116; 120; 116].   (* "a.txt" *)
Definition OUT_ : str := [111; 47].                  (* "o/" *)
Definition ROOTABS : list str := [[116]; [114]].     (* /t/r *)
(* a toy matcher, enough for the witnesses: equality, or "<prefix>**" *)
Definition toy (gs : list str) (p : str) : bool :=
  existsb (fun g => beqb g p ||
                    match rev g with 42 :: 42 :: r => starts_with (rev r) p | _ => false end) gs.
Definition STORED : list str := [[100; 47; 97; 46; 116; 120; 116]; [99; 46; 116; 120; 116]].  (* d/a.txt c.txt *)

Example subdir_exists : subdir DE /\ rel_arg OUT_ = true.
Proof. split; [split; [reflexivity|discriminate]|reflexivity]. Qed.

Example equivariance_instance :
  p_store (plan_of toy (fun _ => false) (fun _ => false) STORED (fun _ => false) ROOTABS current_sites
                   {| cwd := D; proc := Some D |} {| a_targets := Some [A_TXT]; a_dest := Some OUT_ |} STORED)
  = [[100; 47; 97; 46; 116; 120; 116]].
Proof. vm_compute. reflexivity. Qed.

(* P6 (pinned tree): from d/, `carry-in a.txt` selects nothing, the root command `carry-in d/a.txt` does *)
Example subdir_store_target_refuted :
  p_store (plan_of toy (fun _ => false) (fun _ => false) STORED (fun _ => false) ROOTABS sites_pinned
                   {| cwd := D; proc := Some D |} {| a_targets := Some [A_TXT]; a_dest := None |} STORED) = []
  /\ p_store (plan_of toy (fun _ => false) (fun _ => false) STORED (fun _ => false) ROOTABS sites_pinned
                   at_root (rebase_args D {| a_targets := Some [A_TXT]; a_dest := None |}) STORED) <> [].
Proof. split; vm_compute; [reflexivity|discriminate]. Qed.

(* P6, second part (pinned tree): from d/, `copy a.txt o/` puts the copies under o/, not under d/o/ *)
Example dir_destination_refuted :
  p_copy_dest (plan_of toy (fun _ => false) (fun _ => false) STORED (fun _ => false) ROOTABS sites_pinned
                   {| cwd := D; proc := Some D |} {| a_targets := Some [A_TXT]; a_dest := Some OUT_ |} STORED)
  = Some (DDir (POk [111]))
  /\ p_copy_dest (plan_of toy (fun _ => false) (fun _ => false) STORED (fun _ => false) ROOTABS sites_pinned
                   at_root (rebase_args D {| a_targets := Some [A_TXT]; a_dest := Some OUT_ |}) STORED)
  = Some (DDir (POk [100; 47; 111])).
Proof. split; vm_compute; reflexivity. Qed.

(* P29 (pinned tree): `xvc -C <root> file track c.txt` from a process outside the repository finds nothing *)
Example workdir_file_target_refuted :
  p_disk (plan_of toy (fun _ => false) (fun _ => false) STORED (fun _ => false) ROOTABS sites_pinned
                  {| cwd := []; proc := None |} {| a_targets := Some [[99; 46; 116; 120; 116]]; a_dest := None |} STORED) = []
  /\ p_disk (plan_of toy (fun _ => false) (fun _ => false) STORED (fun _ => false) ROOTABS sites_fixed
                  {| cwd := []; proc := None |} {| a_targets := Some [[99; 46; 116; 120; 116]]; a_dest := None |} STORED) = [[99; 46; 116; 120; 116]].
Proof. split; vm_compute; reflexivity. Qed.

(* P51 (before the repair): from d/, `xvc file untrack` (an empty target LIST) selects every tracked path of the
   repository, c.txt at the root included; with the repair exactly the paths under d/ *)
Definition sites_before_P51 : sites :=
  {| st_store_sep := true; st_store_empty_cwd := false; st_disk_sep := true; st_copy_dirdest := BCwd; st_move_dirdest := BCwd;
     st_copy_filedest := BCwd; st_move_filedest := BCwd; st_disk_isdir := BRoot; st_disk_file := BRoot;
     st_track_isdir := BCwd; st_track_resolve := BRoot |}.
Example empty_targets_select_everything_refuted :
  resolve_store toy (fun _ => false) sites_before_P51 {| cwd := D; proc := Some D |} (Some []) STORED = STORED
  /\ resolve_store toy (fun _ => false) sites_fixed {| cwd := D; proc := Some D |} (Some []) STORED = [[100; 47; 97; 46; 116; 120; 116]]
  /\ resolve_store toy (fun _ => false) sites_fixed {| cwd := D; proc := Some D |} None STORED = [[100; 47; 97; 46; 116; 120; 116]].
Proof. repeat split; vm_compute; reflexivity. Qed.

(* P30 (pinned tree): `xvc file track` without targets panics after the records were saved *)
Example track_no_targets_panics_refuted :
  p_dirs (plan_of toy (fun _ => true) (fun _ => false) STORED (fun _ => false) ROOTABS sites_pinned
                  {| cwd := D; proc := Some D |} {| a_targets := None; a_dest := None |} STORED) = None
  /\ p_dirs (plan_of toy (fun _ => true) (fun _ => false) STORED (fun _ => false) ROOTABS sites_fixed
                  {| cwd := D; proc := Some D |} {| a_targets := None; a_dest := None |} STORED) = Some [D].
Proof. split; vm_compute; reflexivity. Qed.

Print Assumptions current_sites_recognised.
Print Assumptions current_sites_fixed.
Print Assumptions cwd_equivariance.
Print Assumptions no_targets_apply_under_cwd.
Print Assumptions empty_targets_apply_under_cwd.
Print Assumptions destination_equivariant.
