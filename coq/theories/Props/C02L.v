(* C02, companion: the LAYOUT of a cache address as a path.
   "Every object ... lives at the address derived from its own bytes: the configured algorithm's
    two-letter prefix, the 64 hex digits of the digest split 3/3/58, and `0.<extension of the tracked
    path>` ... Identical content with the same extension tracked at several paths occupies a single
    object."
   Props/C02.v proves, over M-REPO, that every object sits at the abstract address (digest of its own
   bytes, extension).  This file is about the STRING that address is rendered as by
   XvcDigest::cache_dir + XvcCachePath::new (model: Layout/Model.v), for the layout that
   gen/cache_layout.py reads from the source on every run (Gen/CacheLayout.v). *)
From Coq Require Import List Bool NArith.
From XV Require Import Base.Bytes Layout.Model Layout.Proofs Gen.CacheLayout.
Import ListNotations.
Local Open Scope N_scope.

(* ---- the tie by translation -------------------------------------------------------------------- *)
(* every construct was found in the source in a shape the translator understands *)
Theorem layout_recognised : recognised = true.
Proof. exact (eq_refl true). Qed.

(* the prefix table, the order of the pushes, the split points of the hex string, the separators and
   the file-name format READ FROM THE SOURCE are the documented ones.  Breaks when the code changes a
   prefix, a split point or the file name. *)
Theorem layout_is_documented : current_layout = documented_layout.
Proof. exact (eq_refl documented_layout). Qed.

(* ---- the address, for EVERY algorithm, every 32-byte digest, every extension ------------------- *)
(* the path is  <two-letter prefix>/<3 hex>/<3 hex>/<58 hex>/0.<ext>  where the 64 digits are the
   lower-case hex rendering of the digest, in order *)
Theorem address_layout : forall (a : algo) (d : digest) (e : bytes), wf_digest d ->
  exists p1 p2 p3,
    hex d = p1 ++ p2 ++ p3 /\ length p1 = 3%nat /\ length p2 = 3%nat /\ length p3 = 58%nat /\
    Forall (fun c => 48 <= c <= 57 \/ 97 <= c <= 102) (hex d) /\
    length (doc_prefix a) = 2%nat /\
    cache_path current_layout a d e =
      doc_prefix a ++ [slash] ++ p1 ++ [slash] ++ p2 ++ [slash] ++ p3 ++ [slash] ++ [48; 46] ++ e.
Proof. exact (address_layout_of current_layout layout_is_documented). Qed.

(* the prefix of each algorithm is the documented one: b3, b2, s2, s3 (a0 for the variant AsIs) *)
Theorem prefix_documented : forall a, prefix_of current_layout a = doc_prefix a /\ length (prefix_of current_layout a) = 2%nat.
Proof. exact (prefix_documented_of current_layout layout_is_documented). Qed.

Theorem prefixes_distinct : forall a b, prefix_of current_layout a = prefix_of current_layout b -> a = b.
Proof. exact (prefixes_distinct_of current_layout layout_is_documented). Qed.

(* the path determines algorithm, digest and extension: parsing is a left inverse of rendering *)
Theorem parse_render : forall (a : algo) (d : digest) (e : bytes), wf_digest d -> no_slash e = true ->
  parse_cache_path current_layout (cache_path current_layout a d e) = Some (a, d, e).
Proof. exact (parse_render_of current_layout layout_is_documented). Qed.

(* distinct (algorithm, digest, extension) never share a path: different content (different digest)
   never collides, nor does the same content under another algorithm or extension.  The converse --
   identical (algorithm, digest, extension) give ONE path, whatever the tracked paths are called -- is
   the fact that [cache_path] is a function of these three (see [one_object_per_content]). *)
Theorem render_injective : forall a d e a' d' e',
  wf_digest d -> wf_digest d' -> no_slash e = true -> no_slash e' = true ->
  cache_path current_layout a d e = cache_path current_layout a' d' e' -> a = a' /\ d = d' /\ e = e'.
Proof. exact (render_injective_of current_layout layout_is_documented). Qed.

(* for EVERY layout (also one that is not the documented one): whatever the parser accepts renders
   back to exactly the parsed string and has a 32-byte digest *)
Theorem parse_sound : forall L s a d e,
  parse_cache_path L s = Some (a, d, e) -> cache_path L a d e = s /\ wf_digest d.
Proof. exact parse_sound_any. Qed.

(* the hypothesis on the extension is always met by the extension of a path *)
Theorem tracked_extension_no_slash : forall p, no_slash (extension p) = true.
Proof. exact extension_no_slash. Qed.

(* two tracked paths share an object exactly when algorithm, digest and extension agree *)
Theorem one_object_per_content : forall a d p a' d' p', wf_digest d -> wf_digest d' ->
  (cache_path_of_tracked current_layout a d p = cache_path_of_tracked current_layout a' d' p'
   <-> a = a' /\ d = d' /\ extension p = extension p').
Proof.
  exact (fun a d p a' d' p' Hd Hd' =>
    conj (render_injective a d (extension p) a' d' (extension p') Hd Hd'
            (tracked_extension_no_slash p) (tracked_extension_no_slash p'))
         (fun H => match H with
                   | conj Ha (conj Hdd He) =>
                       f_equal3 (cache_path current_layout) Ha Hdd He
                   end)).
Qed.

Check layout_is_documented.
Check address_layout.
Check parse_render.
Check render_injective.
Check prefixes_distinct.
Check one_object_per_content.

(* ---- examples: the hypotheses are met by concrete, non-trivial values -------------------------- *)
(* BLAKE3 of the empty string: af1349b9f5f9a1a6a0404dea36dcc9499bcb25c9adc112b7cc9a93cae41f3262 *)
Definition D_EMPTY : digest :=
  [175; 19; 73; 185; 245; 249; 161; 166; 160; 64; 77; 234; 54; 220; 201; 73; 155; 203; 37; 201; 173; 193; 18; 183; 204; 154; 147; 202; 228; 31; 50; 98].
Definition D_OTHER : digest := map N.of_nat (seq 0 32).
Definition TXT : bytes := [116; 120; 116].
(* "b3/af1/349/b9f5f9a1a6a0404dea36dcc9499bcb25c9adc112b7cc9a93cae41f3262/0.txt" *)
Definition P_EMPTY_TXT : bytes :=
  [98; 51; 47; 97; 102; 49; 47; 51; 52; 57; 47; 98; 57; 102; 53; 102; 57; 97; 49; 97; 54; 97; 48; 52; 48; 52; 100; 101; 97; 51; 54; 100; 99; 99; 57; 52; 57; 57; 98; 99; 98; 50; 53; 99; 57; 97; 100; 99; 49; 49; 50; 98; 55; 99; 99; 57; 97; 57; 51; 99; 97; 101; 52; 49; 102; 51; 50; 54; 50; 47; 48; 46; 116; 120; 116].

Example wf_instance : wf_digest D_EMPTY /\ wf_digest D_OTHER /\ no_slash TXT = true.
Proof.
  split; [apply wf_digestb_spec; vm_compute; reflexivity|].
  split; [apply wf_digestb_spec; vm_compute; reflexivity|reflexivity].
Qed.

Example render_instance : cache_path current_layout Blake3 D_EMPTY TXT = P_EMPTY_TXT.
Proof. vm_compute. reflexivity. Qed.

Example parse_instance : parse_cache_path current_layout P_EMPTY_TXT = Some (Blake3, D_EMPTY, TXT).
Proof. vm_compute. reflexivity. Qed.

(* no extension: the file name is "0." *)
Example render_no_extension :
  cache_path_of_tracked current_layout SHA2_256 D_OTHER [100; 47; 77; 97; 107; 101; 102; 105; 108; 101] (* d/Makefile *)
  = [115; 50; 47; 48; 48; 48; 47; 49; 48; 50; 47] ++ skipn 6 (hex D_OTHER) ++ [47; 48; 46].
Proof. vm_compute. reflexivity. Qed.

(* same bytes, same algorithm, another extension: another object; same extension under another name: the same *)
Example extension_separates :
  cache_path_of_tracked current_layout Blake3 D_EMPTY [97; 46; 116; 120; 116] (* a.txt *)
  <> cache_path_of_tracked current_layout Blake3 D_EMPTY [97; 46; 99; 115; 118] (* a.csv *)
  /\ cache_path_of_tracked current_layout Blake3 D_EMPTY [97; 46; 116; 120; 116]
     = cache_path_of_tracked current_layout Blake3 D_EMPTY [100; 47; 98; 46; 99; 46; 116; 120; 116] (* d/b.c.txt *).
Proof. split; [vm_compute; discriminate|vm_compute; reflexivity]. Qed.

(* strings that are NOT addresses are refused: upper-case digits, a 2/4 split, a missing "0." *)
Example parse_refuses :
  parse_cache_path current_layout [98; 51; 47; 65; 70; 49; 47; 51; 52; 57; 47; 48; 46] = None
  /\ parse_cache_path current_layout
       ([98; 51; 47] ++ firstn 2 (hex D_OTHER) ++ [47] ++ firstn 4 (skipn 2 (hex D_OTHER)) ++ [47] ++ skipn 6 (hex D_OTHER) ++ [47; 48; 46]) = None
  /\ parse_cache_path current_layout
       ([98; 51; 47] ++ firstn 3 (hex D_OTHER) ++ [47] ++ firstn 3 (skipn 3 (hex D_OTHER)) ++ [47] ++ skipn 6 (hex D_OTHER) ++ [47; 116; 120; 116]) = None.
Proof. split; [|split]; vm_compute; reflexivity. Qed.

(* a layout with the split 2/4/58, or with the extension dropped from the file name, is NOT the
   documented one; under the second, two extensions share one path (render_injective would be false) *)
Definition layout_2_4 : layout :=
  {| l_prefix := l_prefix documented_layout;
     l_dir := [DPrefix; DHex 0 (Some 2%nat); DHex 2 (Some 4%nat); DHex 6 None];
     l_file := l_file documented_layout; l_join := l_join documented_layout |}.
Definition layout_no_ext : layout :=
  {| l_prefix := l_prefix documented_layout; l_dir := l_dir documented_layout;
     l_file := [FLit [48; 46]]; l_join := l_join documented_layout |}.
Example other_layouts_differ :
  layout_2_4 <> documented_layout /\ layout_no_ext <> documented_layout
  /\ cache_path layout_2_4 Blake3 D_EMPTY TXT <> cache_path documented_layout Blake3 D_EMPTY TXT
  /\ cache_path layout_no_ext Blake3 D_EMPTY TXT = cache_path layout_no_ext Blake3 D_EMPTY [99; 115; 118].
Proof.
  split; [discriminate|]. split; [discriminate|]. split; [vm_compute; discriminate|vm_compute; reflexivity].
Qed.

Print Assumptions layout_recognised.
Print Assumptions layout_is_documented.
Print Assumptions address_layout.
Print Assumptions prefix_documented.
Print Assumptions prefixes_distinct.
Print Assumptions parse_render.
Print Assumptions render_injective.
Print Assumptions parse_sound.
Print Assumptions tracked_extension_no_slash.
Print Assumptions one_object_per_content.
