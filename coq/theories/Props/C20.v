(* C20 — Configuration sources override each other in the documented order.
   Property theorems only: statement, [exact] of a lemma of Config/Proofs.v or Config/Priority.v (or a
   finite computation on the regenerated tables), [Check] pins, [Example]s (non-vacuity, *_refuted
   witnesses by vm_compute), [Print Assumptions].

   The tables  ConfigOrder.order,  CliSwitches.params_init / root_init_tbl,  CachePrefix.alg_table /
   alg_key,  DefaultKeys.default_kvs  are REGENERATED from /repo on every run (gen/config_tables.py):
   every theorem below that mentions them is re-checked against what the code says now.

   The file compiles on the pinned tree (where --no-project-config / --no-local-config are not wired:
   P18) and on a tree with the P18 repair (repo-patches/50-fix-P18-*.diff); the statements that differ
   between the two are phrased through the class COMPUTED from the tables. *)
From Coq Require Import List Bool NArith ZArith.
From Coq Require Import String.
From XV Require Import Base.Amap Config.Types Config.Model Config.Proofs Config.Priority Config.CliSplit.
From XV Require Gen.ConfigOrder Gen.CliSwitches Gen.CachePrefix Gen.DefaultKeys.
Import ListNotations.
Open Scope N_scope.
Arguments s2l s%string.   (* string literals are only used for witnesses *)

Notation order := Gen.ConfigOrder.order.
Notation pinit := Gen.CliSwitches.params_init.
Notation rinit := Gen.CliSwitches.root_init_tbl.
Notation alg_table := Gen.CachePrefix.alg_table.
Notation alg_key := Gen.CachePrefix.alg_key.
Notation default_kvs := Gen.DefaultKeys.default_kvs.

(* ================================================================================================ *)
(* 0. every translator found the construct it parses                                                 *)
Theorem translators_ok :
  Gen.ConfigOrder.translator_ok && Gen.CliSwitches.translator_ok &&
  Gen.CachePrefix.translator_ok && Gen.DefaultKeys.translator_ok = true.
Proof. vm_compute. reflexivity. Qed.

(* ================================================================================================ *)
(* 1. XvcConfig::new applies, after the defaults: system, user (label `global`), project, local,
      environment, command line -- each under its own guard, each reading its own file / map.
      Breaks when the code reorders, drops, adds or re-guards a source.                              *)
(* documented_stages (Config/Priority.v): the six stages in the documented order, each with its guard and reader *)
Theorem order_is_documented :
  order = documented_stages /\
  map stage_src order = [System; Global; Project; Local; Environment; CommandLine] /\
  ranks_increasing order = true.
Proof. vm_compute. repeat split. Qed.

(* ================================================================================================ *)
(* 2. CORE.  For every world (contents of the seven sources), every parameter record (which sources
      are enabled) and every key: the configuration XvcConfig::new builds binds k to (v, s) exactly
      when s is the highest-priority source -- defaults < system < user < project < local <
      environment < command line -- that is enabled and defines k, and v is the value it gives.       *)
Theorem effective_highest_priority (w : world) (p : params) (d : kvs) (c : cfg) (k : key) (v : value) (s : src) :
  w_default w = Some d -> build order w p = Built c ->
  (kget c k = Some (v, s) <->
   says order w p d s k = Some v /\
   forall s', (rank s < rank s')%nat -> says order w p d s' k = None).
Proof.
  exact (effective_highest_priority_lemma order w p d c k v s (proj2 (proj2 order_is_documented))).
Qed.

(* the same, by position in the list of stages the code applies: the LAST enabled stage that defines k
   wins, else the default (this form holds for any order table) *)
Theorem effective_highest (w : world) (p : params) (d : kvs) (c : cfg) (k : key) (v : value) (s : src) :
  w_default w = Some d -> build order w p = Built c ->
  (kget c k = Some (v, s) <->
   (exists l1 t l2, order = l1 ++ t :: l2 /\ snd (fst t) = s /\ defined_by w p t k = Some v /\
                    Forall (fun t' => defined_by w p t' k = None) l2)
   \/ (Forall (fun t => defined_by w p t k = None) order /\ s = Default /\ kget d k = Some v)).
Proof. exact (effective_highest_positional order w p d c k v s). Qed.

(* XvcConfig::new panics only on an unparsable default document or on a -c element without '=' *)
Theorem build_total (w : world) (p : params) (d : kvs) :
  w_default w = Some d -> (forall vec, p_cli p = Some vec -> cli_map vec <> None) ->
  exists c, build order w p = Built c.
Proof. exact (build_total_lemma order w p d). Qed.

(* ================================================================================================ *)
(* 3. A --no-*-config switch removes exactly its source: the configuration built WITH the switch in
      the world w is the configuration built WITHOUT it in the world that lacks the source (equal as
      lists: every key, value and source label), whatever the other switches and -c options are.
      Full statement; class computed from the regenerated CLI tables; theorem outside the class;
      witnesses inside it.                                                                            *)
Definition C20_switch_full : Prop := switch_full order pinit rinit.

Definition Known_noop_switch (x : switch) : bool := known_noop order pinit rinit x.

Theorem switch_removes_exactly (x : switch) :
  Known_noop_switch x = false ->
  forall (sws : switches) (cvec : list str) (w : world),
    cli_build order pinit rinit (sw_set sws x true) cvec w =
    cli_build order pinit rinit (sw_set sws x false) cvec (erase x w).
Proof. exact (switch_removes_exactly_known order pinit rinit x). Qed.

(* every switch in the computed class really is a no-op (P18 on the pinned tree) *)
Theorem switch_noop_refuted (x : switch) :
  Known_noop_switch x = true ->
  exists sws cvec w,
    cli_build order pinit rinit (sw_set sws x true) cvec w <>
    cli_build order pinit rinit (sw_set sws x false) cvec (erase x w).
Proof.
  intros H. apply (switch_noop_refuted_lemma order pinit rinit); [vm_compute; reflexivity|].
  now apply known_noop_In.
Qed.

(* the class is empty and the full statement holds, or it is not and the full statement is refuted *)
Theorem switch_full_or_refuted :
  match noop_switches order pinit rinit with
  | [] => C20_switch_full
  | _ :: _ => ~ C20_switch_full
  end.
Proof. apply (switch_full_dichotomy order pinit rinit). vm_compute. reflexivity. Qed.

(* the class never exceeds P18: --no-system-config, --no-user-config and --no-env-config are wired *)
Theorem noop_class_within_P18 :
  forallb (fun x => switch_eqb x NoProject || switch_eqb x NoLocal) (noop_switches order pinit rinit) = true.
Proof. vm_compute. reflexivity. Qed.

(* the regenerated CLI tables compute, from every command line, the parameters of the pinned tree or
   those of the tree with the P18 repair *)
Theorem cli_tables_pinned_or_repaired :
  exists fixed_P18 : bool, same_params pinit rinit (pinit_of fixed_P18) (rinit_of fixed_P18).
Proof.
  first [ exists false; intros [[] [] [] [] []] cvec; reflexivity
        | exists true; intros [[] [] [] [] []] cvec; reflexivity ].
Qed.

(* P18, on the tables of the pinned tree: both switches are no-ops, the full statement fails *)
Theorem switch_noop_refuted_P18 :
  noop_switches documented_stages (pinit_of false) (rinit_of false) = [NoProject; NoLocal] /\
  ~ switch_full documented_stages (pinit_of false) (rinit_of false).
Proof.
  split; [vm_compute; reflexivity|].
  apply (switch_full_dichotomy documented_stages (pinit_of false) (rinit_of false)). vm_compute. reflexivity.
Qed.

(* ... and on the tables of the repaired tree every switch removes exactly its source *)
Theorem switch_full_with_P18_repair : switch_full documented_stages (pinit_of true) (rinit_of true).
Proof.
  apply (switch_full_dichotomy documented_stages (pinit_of true) (rinit_of true)). vm_compute. reflexivity.
Qed.

(* P19: on Linux the system and the user configuration are ONE file ($XDG_CONFIG_HOME/xvc; a fact of
   directories-next, here the world [linux xdg w]).  Full statement: --no-user-config removes what the
   user's file says.  Refuted; proved outside the class "no --no-system-config and a non-empty file". *)
Definition C20_user_switch_full : Prop :=
  forall (sws : switches) (cvec : list str) (xdg : option kvs) (w : world),
    cli_build order pinit rinit (sw_set sws NoUser true) cvec (linux xdg w) =
    cli_build order pinit rinit (sw_set sws NoUser false) cvec (linux None w).

Theorem user_switch_removes_user_file (sws : switches) (cvec : list str) (xdg : option kvs) (w : world) :
  known_alias sws xdg = false ->
  cli_build order pinit rinit (sw_set sws NoUser true) cvec (linux xdg w) =
  cli_build order pinit rinit (sw_set sws NoUser false) cvec (linux None w).
Proof.
  apply (user_switch_alias_lemma order pinit rinit); vm_compute; reflexivity.
Qed.

Definition w_alias : world :=
  {| w_default := Some [(s2l "k", VBool false)]; w_sys := None; w_user := None;
     w_proj := None; w_local := None; w_env := [] |}.

Theorem system_user_alias_refuted : ~ C20_user_switch_full.
Proof.
  intros H. specialize (H no_switches [] (Some [(s2l "k", VBool true)]) w_alias).
  vm_compute in H. discriminate.
Qed.

(* ================================================================================================ *)
(* 4. Values keep their type.  Files are typed by TOML (abstracted: a file IS its typed key/value
      list, apply_source stores the values unchanged -- see effective_highest).  Environment variables
      and -c options are strings typed by parse_to_value: a bool, an i64, and a string that does not
      look like a bool / integer / float re-parse to themselves ...                                    *)
Theorem types_kept (v : value) : renders_faithfully v = true -> parse_to_value (render v) = v.
Proof. exact (types_kept_lemma v). Qed.

(* ... and the typed getter of that type (only) returns the value *)
Theorem getters_by_type (c : cfg) (k : key) (v : value) (s : src) :
  kget c k = Some (v, s) ->
  match v with
  | VStr x => get_str c k = GOk x s /\ get_bool c k = GMismatch /\ get_int c k = GMismatch /\ get_float c k = GMismatch
  | VBool x => get_bool c k = GOk x s /\ get_str c k = GMismatch /\ get_int c k = GMismatch /\ get_float c k = GMismatch
  | VInt x => get_int c k = GOk x s /\ get_str c k = GMismatch /\ get_bool c k = GMismatch /\ get_float c k = GMismatch
  | VFloat x => get_float c k = GOk x s /\ get_str c k = GMismatch /\ get_bool c k = GMismatch /\ get_int c k = GMismatch
  end.
Proof. exact (Proofs.getters_by_type c k v s). Qed.

(* full statement for strings: a string given through the environment or -c stays that string.
   Refuted by look-alikes; the class is exact. *)
Definition C20_strings_full : Prop := forall s : str, parse_to_value s = VStr s.

Theorem lookalike_refuted : ~ C20_strings_full.
Proof. intros H. specialize (H (s2l "123")). vm_compute in H. discriminate. Qed.

Theorem strings_kept_outside_lookalikes (s : str) : lookalike s = false -> parse_to_value s = VStr s.
Proof. exact (parse_not_lookalike s). Qed.

Theorem lookalike_class_exact (s : str) : lookalike s = true -> forall x, parse_to_value s <> VStr x.
Proof. exact (parse_lookalike s). Qed.

(* ================================================================================================ *)
(* 4b. A `-c key=value` option gives the key the WHOLE text after the first '=' (a value may contain
   '=' itself: a URL with a query, a shell command).  XvcConfig::parse_key_value_vector; which of the
   two splittings the code has is the regenerated constant Gen.CliSwitches.cli_split_once.
   has_eq s = true iff s contains '=' (byte 61).                                                    *)
Definition C20_cli_value_whole : Prop :=
  forall k v : str, has_eq k = false -> parse_kv (k ++ 61 :: v) = Some (trim k, parse_to_value (trim v)).

Theorem cli_value_whole : Gen.CliSwitches.cli_split_once = true -> C20_cli_value_whole.
Proof. exact (fun H k v Hk => eq_trans (parse_kv_current_once H _) (parse_kv_once_whole k v Hk)). Qed.

(* split('='): the value ends at the second '=' -- the defect `cli-value-after-second-equals-dropped` *)
Theorem cli_value_truncated_refuted : Gen.CliSwitches.cli_split_once = false -> ~ C20_cli_value_whole.
Proof.
  intros H F. specialize (F (s2l "k") (s2l "a=b") eq_refl).
  rewrite (parse_kv_current_all H) in F. vm_compute in F. discriminate.
Qed.

(* whichever splitting the code has: an option whose value has no '=' is read as documented, and the
   class of options on which the two differ is exactly "the value contains '='" *)
Theorem cli_value_whole_outside_class (k v : str) :
  has_eq k = false -> has_eq v = false -> parse_kv (k ++ 61 :: v) = Some (trim k, parse_to_value (trim v)).
Proof.
  exact (fun Hk Hv =>
    match Gen.CliSwitches.cli_split_once as b
      return parse_kv_with b (k ++ 61 :: v) = Some (trim k, parse_to_value (trim v)) with
    | true => parse_kv_once_whole k v Hk
    | false => eq_trans (parse_kv_agree_single k v Hk Hv) (parse_kv_once_whole k v Hk)
    end).
Qed.

(* an option without '=' is the only one that makes XvcConfig::new panic (index out of bounds) *)
Theorem cli_option_panics_iff_no_equals (s : str) : parse_kv s = None <-> has_eq s = false.
Proof. exact (parse_kv_panics_iff s). Qed.

Example cli_value_whole_witness :
  parse_kv_once (s2l "core.x = a=b=c ") = Some (s2l "core.x", VStr (s2l "a=b=c")) /\
  parse_kv_all (s2l "core.x = a=b=c ") = Some (s2l "core.x", VStr (s2l "a")) /\
  has_eq (s2l "core.x ") = false /\ parse_kv (s2l "verbosity") = None.
Proof. vm_compute. repeat split; reflexivity. Qed.

(* ================================================================================================ *)
(* 5. Commands act on the effective value: the first component of the cache path `track` uses is the
      directory prefix of the algorithm named by the EFFECTIVE cache.algorithm.  (M-CONF half of
      DESIGN 5.2 theorem 5; that the cache path starts with XvcDigest::directory_prefix and that
      cmd_track takes HashAlgorithm::from_conf(conf) is pinned syntactically by the translator of
      Gen/CachePrefix.v and exercised by the CLI-level runs of the check.)                             *)
Theorem track_uses_effective_algorithm (w : world) (p : params) (d : kvs) (c : cfg) (name : str) (s : src) (a : alg) (pre : str) :
  w_default w = Some d -> build order w p = Built c ->
  effective order w p d alg_key = Some (VStr name, s) ->
  alg_of_name alg_table name = Some a -> prefix_of alg_table a = Some pre ->
  track_prefix alg_table alg_key c = Some pre.
Proof. exact (track_uses_effective_lemma order alg_table alg_key w p d c name s a pre). Qed.

(* a value of the wrong type (a look-alike through the environment or -c) makes track fail rather
   than fall back to another source's algorithm *)
Theorem track_fails_on_mistyped_algorithm (c : cfg) (v : value) (s : src) :
  kget c alg_key = Some (v, s) -> (forall x, v <> VStr x) -> track_prefix alg_table alg_key c = None.
Proof. exact (track_prefix_fails_not_str alg_table alg_key c v s). Qed.

(* the regenerated algorithm table: every algorithm has a prefix, prefixes are pairwise distinct (the
   prefix directory identifies the algorithm), every listed name resolves to its row, and the default
   configuration is well formed (distinct keys, no float, cache.algorithm = a resolvable string) *)
Theorem tables_wellformed :
  forallb (fun a => is_some (prefix_of alg_table a)) all_algs
  && distinct_strs (opt_strs (map (prefix_of alg_table) all_algs))
  && (List.length (opt_strs (map (prefix_of alg_table) all_algs)) =? 5)%nat
  && forallb (fun row => match row with (a, ts, names) =>
                forallb (fun n => match alg_of_name alg_table n with Some b => alg_eqb a b | None => false end) (ts :: names) end)
             alg_table
  && distinct_strs (map fst default_kvs)
  && forallb (fun kv => negb (vtype_eqb (type_of (snd kv)) TFloat)) default_kvs
  && is_some (track_prefix alg_table alg_key (apply_source [] default_kvs Default)) = true.
Proof. vm_compute. reflexivity. Qed.

(* ================================================================================================ *)
(* the statements are pinned                                                                          *)
Check effective_highest_priority :
  forall (w : world) (p : params) (d : kvs) (c : cfg) (k : key) (v : value) (s : src),
  w_default w = Some d -> build Gen.ConfigOrder.order w p = Built c ->
  (kget c k = Some (v, s) <->
   says Gen.ConfigOrder.order w p d s k = Some v /\
   forall s', (rank s < rank s')%nat -> says Gen.ConfigOrder.order w p d s' k = None).
Check switch_removes_exactly :
  forall x : switch, Known_noop_switch x = false ->
  forall (sws : switches) (cvec : list str) (w : world),
    cli_build Gen.ConfigOrder.order Gen.CliSwitches.params_init Gen.CliSwitches.root_init_tbl (sw_set sws x true) cvec w =
    cli_build Gen.ConfigOrder.order Gen.CliSwitches.params_init Gen.CliSwitches.root_init_tbl (sw_set sws x false) cvec (erase x w).
Check types_kept : forall v : value, renders_faithfully v = true -> parse_to_value (render v) = v.

(* ================================================================================================ *)
(* non-vacuity: a world in which all seven sources define cache.algorithm, each differently          *)
Definition ka : key := alg_key.
Definition w7 : world :=
  {| w_default := Some [(ka, VStr (s2l "blake3")); (s2l "git.use_git", VBool true);
                        (s2l "pipeline.process_pool_size", VInt 4)];
     w_sys := Some [(ka, VStr (s2l "blake2"))];
     w_user := Some [(ka, VStr (s2l "sha2"))];
     w_proj := Some [(ka, VStr (s2l "sha3")); (s2l "git.use_git", VBool false)];
     w_local := Some [(ka, VStr (s2l "asis"))];
     w_env := [(s2l "XVC_cache.algorithm", s2l "blake2"); (s2l "XVC_pipeline.process_pool_size", s2l "16");
               (s2l "HOME", s2l "/root")];
  |}.
Definition p_all (cli : option (list str)) : params :=
  {| p_sys := true; p_user := true; p_proj := Some ProjectFile; p_local := Some LocalFile;
     p_env := true; p_cli := cli; p_incl_proj := true; p_incl_local := true |}.
Definition built (o : outcome) (k : key) : option (value * src) :=
  match o with Built c => kget c k | Panic => None end.

(* command line wins over everything; without it the environment; ...; the hypotheses of
   effective_highest_priority are met by (w7, p_all ..) and every source takes its turn *)
Example precedence_chain :
  built (build order w7 (p_all (Some [s2l " cache.algorithm = sha3 "]))) ka = Some (VStr (s2l "sha3"), CommandLine) /\
  built (build order w7 (p_all None)) ka = Some (VStr (s2l "blake2"), Environment) /\
  built (build order w7 {| p_sys := true; p_user := true; p_proj := Some ProjectFile; p_local := Some LocalFile;
                           p_env := false; p_cli := None; p_incl_proj := true; p_incl_local := true |}) ka
    = Some (VStr (s2l "asis"), Local) /\
  built (build order w7 {| p_sys := true; p_user := true; p_proj := Some ProjectFile; p_local := None;
                           p_env := false; p_cli := None; p_incl_proj := true; p_incl_local := true |}) ka
    = Some (VStr (s2l "sha3"), Project) /\
  built (build order w7 {| p_sys := true; p_user := true; p_proj := None; p_local := None;
                           p_env := false; p_cli := None; p_incl_proj := true; p_incl_local := true |}) ka
    = Some (VStr (s2l "sha2"), Global) /\
  built (build order w7 {| p_sys := true; p_user := false; p_proj := None; p_local := None;
                           p_env := false; p_cli := None; p_incl_proj := true; p_incl_local := true |}) ka
    = Some (VStr (s2l "blake2"), System) /\
  built (build order w7 {| p_sys := false; p_user := false; p_proj := None; p_local := None;
                           p_env := false; p_cli := None; p_incl_proj := true; p_incl_local := true |}) ka
    = Some (VStr (s2l "blake3"), Default).
Proof. vm_compute. repeat split. Qed.

(* typed values from the environment, the cache prefix of the effective algorithm, a -c element
   without '=' panics *)
Example typed_and_prefix :
  built (build order w7 (p_all None)) (s2l "pipeline.process_pool_size") = Some (VInt 16, Environment) /\
  built (build order w7 (p_all None)) (s2l "git.use_git") = Some (VBool false, Project) /\
  (match build order w7 (p_all None) with Built c => track_prefix alg_table alg_key c | Panic => None end)
    = Some (s2l "b2") /\
  build order w7 (p_all (Some [s2l "novalue"])) = Panic.
Proof. vm_compute. repeat split. Qed.

(* --no-env-config is outside the computed class and removes exactly the environment *)
Example env_switch_example :
  Known_noop_switch NoEnv = false /\
  built (cli_build order pinit rinit (sw_set no_switches NoEnv true) [] w7) ka
  = built (cli_build order pinit rinit no_switches [] (erase NoEnv w7)) ka.
Proof. vm_compute. split; reflexivity. Qed.

(* P18, the failing input on the tables of the pinned tree: .xvc/config.toml says sha3, the command
   line says --no-project-config, and sha3 still decides the cache prefix *)
Example P18_witness :
  let w := {| w_default := Some [(ka, VStr (s2l "blake3"))]; w_sys := None; w_user := None;
              w_proj := Some [(ka, VStr (s2l "sha3"))]; w_local := None; w_env := [] |} in
  built (cli_build documented_stages (pinit_of false) (rinit_of false) (sw_set no_switches NoProject true) [] w) ka
    = Some (VStr (s2l "sha3"), Project) /\
  built (cli_build documented_stages (pinit_of true) (rinit_of true) (sw_set no_switches NoProject true) [] w) ka
    = Some (VStr (s2l "blake3"), Default).
Proof. vm_compute. split; reflexivity. Qed.

(* P19, the failing input: ~/.config/xvc says k = true, --no-user-config, and k is still true (label system) *)
Example P19_witness :
  built (cli_build order pinit rinit (sw_set no_switches NoUser true) [] (linux (Some [(s2l "k", VBool true)]) w_alias)) (s2l "k")
    = Some (VBool true, System) /\
  known_alias (sw_set no_switches NoUser true) (Some [(s2l "k", VBool true)]) = true /\
  known_alias (sw_set (sw_set no_switches NoSystem true) NoUser true) (Some [(s2l "k", VBool true)]) = false.
Proof. vm_compute. repeat split. Qed.

(* look-alikes: XVC_cache.algorithm=123 makes get_str fail and track has no prefix; a faithful value *)
Example lookalike_witness :
  let w := {| w_default := Some [(ka, VStr (s2l "blake3"))]; w_sys := None; w_user := None;
              w_proj := None; w_local := None; w_env := [(s2l "XVC_cache.algorithm", s2l "123")] |} in
  (match build order w (p_all None) with
   | Built c => (kget c ka, track_prefix alg_table alg_key c)
   | Panic => (None, None) end) = (Some (VInt 123, Environment), None) /\
  lookalike (s2l "123") = true /\ lookalike (s2l "true") = true /\ lookalike (s2l "1e5") = true /\
  lookalike (s2l "inf") = true /\ lookalike (s2l "blake3") = false /\
  renders_faithfully (VInt (-9223372036854775808)) = true /\
  parse_to_value (render (VInt (-9223372036854775808))) = VInt (-9223372036854775808) /\
  renders_faithfully (VStr (s2l "name-desc")) = true.
Proof. vm_compute. repeat split. Qed.

Print Assumptions translators_ok.
Print Assumptions order_is_documented.
Print Assumptions effective_highest_priority.
Print Assumptions effective_highest.
Print Assumptions build_total.
Print Assumptions switch_removes_exactly.
Print Assumptions switch_noop_refuted.
Print Assumptions switch_full_or_refuted.
Print Assumptions noop_class_within_P18.
Print Assumptions cli_tables_pinned_or_repaired.
Print Assumptions switch_noop_refuted_P18.
Print Assumptions switch_full_with_P18_repair.
Print Assumptions user_switch_removes_user_file.
Print Assumptions system_user_alias_refuted.
Print Assumptions types_kept.
Print Assumptions getters_by_type.
Print Assumptions lookalike_refuted.
Print Assumptions strings_kept_outside_lookalikes.
Print Assumptions lookalike_class_exact.
Print Assumptions cli_value_whole.
Print Assumptions cli_value_truncated_refuted.
Print Assumptions cli_value_whole_outside_class.
Print Assumptions cli_option_panics_iff_no_equals.
Print Assumptions track_uses_effective_algorithm.
Print Assumptions track_fails_on_mistyped_algorithm.
Print Assumptions tables_wellformed.
