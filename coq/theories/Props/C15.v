(* C15 -- xvc leaves the user's Git state alone.
   Property theorems only: statement, [exact] of a lemma of Git/Proofs.v, [Check]s pinning the
   statements, [Example]s (non-vacuity, translator booleans, *_refuted witnesses by vm_compute),
   [Print Assumptions].  The model is Git/Model.v: Git states, the sub-commands xvc issues,
   git_auto_commit / git_auto_stage / git_checkout_ref / handle_git_automation with the control flow of
   core/src/util/git.rs and the call pattern of lib/src/cli/mod.rs ([dispatch]).  Two switches select the
   control flow: [fixed_P24 s = true] is the flow after the repair of P24 (no stash: `git commit` limited by
   the pathspecs of `git add`, a plain `git checkout` for --from-ref); with [fixed_P24 s = false] the stash
   sandwich, where [fixed_P20 s = true] pops the stash on every exit path (/repo since af0f35b8) and [false]
   is the flow before that.  The check probes which flow the binary has on every run (argv through the
   git shim) and claims the theorems of that flow. *)
From Coq Require Import List Bool NArith.
From XV Require Import Base.Amap Gen.GitignoreInitial Git.Model Git.Proofs.
Import ListNotations.
Open Scope N_scope.

(* ---- the translator found every construct it expects in core/src/lib.rs, core/src/util/git.rs --- *)
Example translator_understood_the_source :
  xvc_dir_supported && gitignore_initial_supported && add_pathspecs_supported && git_argv_supported = true.
Proof. reflexivity. Qed.

(* "managed" is exactly: below .xvc, or a file whose name ends in .gitignore / .xvcignore (the pathspecs of
   xvc's `git add`, regenerated from core/src/util/git.rs): a change of the pathspecs breaks this Example *)
Example managed_set_pinned :
  xvc_dir_name = [46; 120; 118; 99] /\
  add_suffixes = [[46; 103; 105; 116; 105; 103; 110; 111; 114; 101]; [46; 120; 118; 99; 105; 103; 110; 111; 114; 101]] /\
  length gitignore_initial = 4%nat.
Proof. repeat split. Qed.

(* 1. CORE.  Either repaired flow (P24: no stash; or at least P20: stash popped on every exit path), any Git
   state, any setting without --from-ref, any command: whatever the command writes under managed paths
   (.xvc/**, *.gitignore, *.xvcignore), and whether or not the command and the Git calls succeed -- outside
   the class of the flow the user's view is unchanged: index, work tree and HEAD tree on every path xvc does
   not manage, the stash list, tags, the current branch and every other branch (with --to-branch b: every
   branch but b); and every commit added to the log differs from its parent on managed paths only.
   The class [Known_class] follows the switch: for the stash sandwich it is "a path with a staged change also
   has an unstaged change or is written by the command" (P24), for the repaired flow it is empty. *)
Theorem automation_preserves_user_view s c g :
  (fixed_P24 s = true \/ fixed_P20 s = true) -> from_ref s = None ->
  delta_managed (c_delta c) = true -> delta_managed (c_delta2 c) = true ->
  Known_class s c g = false ->
  same_user_view (to_branch s) g (snd (fst (dispatch s c g))) /\
  new_commits_managed_only g (snd (fst (dispatch s c g))).
Proof. exact (dispatch_view_lemma s c g). Qed.

(* 1a. The repaired flow (P24), with NO class exclusion: every Git state -- in particular a path with a staged
   and an unstaged hunk, on user files, on ignore files, under .xvc/ --, every setting without --from-ref,
   every command, every outcome of every Git call. *)
Theorem C15_full_fixed s c g :
  fixed_P24 s = true -> from_ref s = None ->
  delta_managed (c_delta c) = true -> delta_managed (c_delta2 c) = true ->
  same_user_view (to_branch s) g (snd (fst (dispatch s c g))) /\
  new_commits_managed_only g (snd (fst (dispatch s c g))).
Proof. exact (dispatch_view_fixed_lemma s c g). Qed.

(* 1b. the class is empty under the repaired flow *)
Theorem known_class_empty_when_fixed s c g : fixed_P24 s = true -> Known_class s c g = false.
Proof. exact (known_class_fixed s c g). Qed.

(* 1c. The repaired flow, every state, whatever the command writes (no restriction to managed paths here):
   the stash list is literally the same and the work-tree file of EVERY path the command did not write --
   managed or not -- is what it was: the automation itself never writes a file. *)
Theorem fixed_flow_leaves_work_tree_and_stash_alone s c g :
  fixed_P24 s = true -> from_ref s = None ->
  g_stash (snd (fst (dispatch s c g))) = g_stash g /\
  forall p, ~ In p (touched c) -> tget (g_wt (snd (fst (dispatch s c g)))) p = tget (g_wt g) p.
Proof. exact (dispatch_wt24_lemma s c g). Qed.

(* 1d. --from-ref under the repaired flow is one plain `git checkout <ref>`: when Git refuses, the invocation
   stops with the state literally unchanged; when it succeeds the stash list is the same and (1e) every path
   keeps its index entry and file unless it had no local change. *)
Theorem from_ref_fixed_refused_changes_nothing s c g r :
  fixed_P24 s = true -> from_ref s = Some r ->
  match checkout_ref r g with
  | (false, _) => dispatch s c g = (SFromRefFailed, g, [GCheckout r])
  | (true, g1) => fst (fst (dispatch s c g)) <> SFromRefFailed /\ g_stash g1 = g_stash g /\
                  exists t, snd (dispatch s c g) = GCheckout r :: t
  end.
Proof. exact (dispatch_from_ref24_lemma s c g r). Qed.
Theorem checkout_carries_local_changes r g ok g1 : checkout_ref r g = (ok, g1) ->
  g_stash g1 = g_stash g /\ g_branches g1 = g_branches g /\ g_tags g1 = g_tags g /\ g_log g1 = g_log g /\
  (ok = false -> g1 = g) /\
  (ok = true -> exists h' i, resolve g r = Some (h', i) /\ g_head g1 = h' /\
     forall p, carried (tget (head_tree g) p) (tget (tree_of (g_log g) (Some i)) p)
                       (tget (g_index g) p) (tget (g_wt g) p) (tget (g_index g1) p) (tget (g_wt g1) p) (ignored p)).
Proof. exact (checkout_ref_spec r g ok g1). Qed.

(* 2. For EVERY Git state (no class exclusion): a command that writes nothing, on a repository whose
   managed files are all staged as they are in the work tree, creates no commit -- whatever is staged,
   unstaged or stashed, whether or not the Git calls succeed. *)
Theorem readonly_commands_commit_nothing s c g :
  (fixed_P24 s = true \/ fixed_P20 s = true) -> from_ref s = None -> c_delta c = [] -> c_delta2 c = [] ->
  managed_clean g ->
  g_log (snd (fst (dispatch s c g))) = g_log g.
Proof. exact (dispatch_readonly_all_lemma s c g). Qed.

(* 3. For EVERY Git state, all three control flows, every outcome of every Git call: without --from-ref the
   tags never change; without --to-branch the current branch stays current and no other branch moves;
   with --to-branch b no branch but b changes. *)
Theorem branch_switch_only_on_request s c g :
  from_ref s = None ->
  g_tags (snd (fst (dispatch s c g))) = g_tags g /\
  match to_branch s with
  | None => head_branch (snd (fst (dispatch s c g))) = head_branch g /\
            forall n, bget (other_branches (snd (fst (dispatch s c g)))) n = bget (other_branches g) n
  | Some b => forall n, n <> b -> bget (g_branches (snd (fst (dispatch s c g)))) n = bget (g_branches g) n
  end.
Proof. exact (dispatch_refs_lemma s c g). Qed.

(* 4. --skip-git, git.use_git = false, or neither auto_commit nor auto_stage: no Git call is made and
   index, stash, HEAD, branches, tags and log are literally the same (every state, all flows). *)
Theorem automation_off_touches_nothing s c g :
  from_ref s = None -> c_kind c = KOther ->
  (skip_git s = true \/ use_git s = false \/ (auto_commit s = false /\ auto_stage s = false)) ->
  g_index (snd (fst (dispatch s c g))) = g_index g /\ g_stash (snd (fst (dispatch s c g))) = g_stash g /\
  frame g (snd (fst (dispatch s c g))) /\ snd (dispatch s c g) = [].
Proof. exact (dispatch_off_lemma s c g). Qed.

(* the record [user_view] of the model is the view of theorem 1, path by path *)
Theorem user_view_is_pointwise g p :
  tget (v_index (user_view g)) p = uv_index g p /\ tget (v_wt (user_view g)) p = uv_wt g p /\
  tget (v_headtree (user_view g)) p = uv_head g p.
Proof. exact (user_view_pointwise g p). Qed.

(* ---- the statements are pinned -------------------------------------------------------------- *)
Check automation_preserves_user_view :
  forall s c g, (fixed_P24 s = true \/ fixed_P20 s = true) -> from_ref s = None ->
  delta_managed (c_delta c) = true -> delta_managed (c_delta2 c) = true ->
  negb (fixed_P24 s) && Known_staged_and_unstaged_same_path c g = false ->
  ((forall p, uv_index (snd (fst (dispatch s c g))) p = uv_index g p) /\
   (forall p, uv_wt (snd (fst (dispatch s c g))) p = uv_wt g p) /\
   (forall p, uv_head (snd (fst (dispatch s c g))) p = uv_head g p) /\
   g_stash (snd (fst (dispatch s c g))) = g_stash g /\
   refs_rel (to_branch s) g (snd (fst (dispatch s c g)))) /\
  (exists new, g_log (snd (fst (dispatch s c g))) = new ++ g_log g /\ ext_ok new (g_log g)).
Check C15_full_fixed :
  forall s c g, fixed_P24 s = true -> from_ref s = None ->
  delta_managed (c_delta c) = true -> delta_managed (c_delta2 c) = true ->
  ((forall p, uv_index (snd (fst (dispatch s c g))) p = uv_index g p) /\
   (forall p, uv_wt (snd (fst (dispatch s c g))) p = uv_wt g p) /\
   (forall p, uv_head (snd (fst (dispatch s c g))) p = uv_head g p) /\
   g_stash (snd (fst (dispatch s c g))) = g_stash g /\
   refs_rel (to_branch s) g (snd (fst (dispatch s c g)))) /\
  (exists new, g_log (snd (fst (dispatch s c g))) = new ++ g_log g /\ ext_ok new (g_log g)).
Check readonly_commands_commit_nothing :
  forall s c g, (fixed_P24 s = true \/ fixed_P20 s = true) -> from_ref s = None -> c_delta c = [] -> c_delta2 c = [] ->
  (forall p, managed p = true -> tget (g_wt g) p = tget (g_index g) p) ->
  g_log (snd (fst (dispatch s c g))) = g_log g.

(* ---- concrete states ------------------------------------------------------------------------- *)
Definition n_main : name := [109; 97; 105; 110].
Definition n_feat : name := [102; 101; 97; 116].
Definition gi : comp := [46; 103; 105; 116; 105; 103; 110; 111; 114; 101].   (* .gitignore *)
Definition xi : comp := [46; 120; 118; 99; 105; 103; 110; 111; 114; 101].    (* .xvcignore *)
Definition p_gi : path := [gi].
Definition p_xi : path := [xi].
Definition p_ec1 : path := [xvc_dir_name; [101; 99]; [49]].       (* .xvc/ec/1 *)
Definition p_ec2 : path := [xvc_dir_name; [101; 99]; [50]].       (* .xvc/ec/2 *)
Definition p_tmp : path := [xvc_dir_name; [116; 109; 112]; [116]]. (* .xvc/tmp/t : ignored *)
Definition p_data_gi : path := [[100]; gi].                        (* d/.gitignore *)
Definition p_user : path := [[117; 115; 101; 114; 46; 116; 120; 116]].   (* user.txt *)
Definition p_f : path := [[102; 46; 116; 120; 116]].               (* f.txt *)
Definition p_src : path := [[115; 114; 99]; [97]].                 (* src/a *)
Definition p_new : path := [[110; 101; 119]].                      (* new *)
Definition p_untracked : path := [[117]].                          (* u *)

Example managed_paths :
  managed p_ec1 = true /\ managed p_tmp = true /\ managed p_gi = true /\ managed p_data_gi = true /\
  managed p_xi = true /\ managed p_user = false /\ managed p_src = false /\
  ignored p_tmp = true /\ ignored p_ec1 = false /\ ignored p_user = false.
Proof. vm_compute. repeat split. Qed.

Definition base_tree : tree := [(p_gi, [0]); (p_xi, [0]); (p_ec1, [1]); (p_f, [1; 1]); (p_src, [1; 1])].
(* [st fx tb]: the stash sandwich (fx = is P20 fixed);  [st24 tb]: the repaired flow *)
Definition st (fx : bool) (tb : option name) : settings :=
  {| use_git := true; auto_commit := true; auto_stage := false; skip_git := false; to_branch := tb;
     from_ref := None; fixed_P20 := fx; fixed_P24 := false |}.
Definition st24 (tb : option name) : settings :=
  {| use_git := true; auto_commit := true; auto_stage := false; skip_git := false; to_branch := tb;
     from_ref := None; fixed_P20 := true; fixed_P24 := true |}.
Definition cmd_readonly : cmd := {| c_kind := KOther; c_ok := true; c_delta := []; c_delta2 := [] |}.
Definition cmd_track : cmd :=
  {| c_kind := KOther; c_ok := true; c_delta := [(p_ec2, Some [2]); (p_data_gi, Some [7])]; c_delta2 := [] |}.

(* a user state with a staged new file, a staged modification, an unstaged edit of another file, an
   untracked file and an older stash entry: outside the class *)
Definition g_user : git :=
  {| g_head := OnBranch n_main; g_branches := [(n_main, 1)]; g_tags := [([118], 1)];
     g_index := [(p_new, [5]); (p_src, [7; 1]); (p_gi, [0]); (p_xi, [0]); (p_ec1, [1]); (p_f, [1; 1])];
     g_wt := [(p_untracked, [3]); (p_f, [1; 9]); (p_new, [5]); (p_src, [7; 1]); (p_gi, [0]); (p_xi, [0]); (p_ec1, [1])];
     g_stash := [ {| s_base := base_tree; s_index := base_tree; s_wt := (p_f, [4; 1]) :: base_tree |} ];
     g_log := [ {| c_id := 1; c_parent := None; c_tree := base_tree |} ] |}.

(* non-vacuity of theorem 1: the hypotheses hold, the run goes through the whole sandwich twice, makes
   one commit, and the new commit holds the two files the command wrote and no user file *)
Example view_example :
  Known_class (st true None) cmd_track g_user = false /\
  delta_managed (c_delta cmd_track) = true /\
  fst (fst (dispatch (st true None) cmd_track g_user)) = SOk /\
  snd (dispatch (st true None) cmd_track g_user) =
    [GDiffCached; GStashPushStaged; GAddVerbose; GCommit; GStashPopIndex;
     GDiffCached; GStashPushStaged; GAddVerbose; GStashPopIndex] /\
  (let g' := snd (fst (dispatch (st true None) cmd_track g_user)) in
   length (g_log g') = 2%nat /\ tget (head_tree g') p_ec2 = Some [2] /\ tget (head_tree g') p_data_gi = Some [7] /\
   tget (head_tree g') p_new = None /\ tget (g_index g') p_new = Some [5] /\ tget (g_index g') p_src = Some [7; 1] /\
   tget (g_wt g') p_f = Some [1; 9] /\ tget (g_wt g') p_untracked = Some [3] /\ length (g_stash g') = 1%nat).
Proof. vm_compute. repeat split. Qed.

(* with --to-branch: the first call creates the branch and commits there, the second call fails on
   `checkout -b` (the branch exists) and still pops the stash *)
Example to_branch_example :
  fst (fst (dispatch (st true (Some n_feat)) cmd_track g_user)) = SAutoFailed 1 /\
  (let g' := snd (fst (dispatch (st true (Some n_feat)) cmd_track g_user)) in
   head_branch g' = Some n_feat /\ bget (g_branches g') n_main = Some 1 /\ bget (g_branches g') n_feat = Some 2 /\
   tget (g_index g') p_new = Some [5] /\ length (g_stash g') = 1%nat).
Proof. vm_compute. repeat split. Qed.

(* non-vacuity of theorem 2 *)
Example readonly_example :
  Known_class (st true None) cmd_readonly g_user = false /\
  (forall p, managed p = true -> tget (g_wt g_user) p = tget (g_index g_user) p) /\
  snd (dispatch (st true None) cmd_readonly g_user) =
    [GDiffCached; GStashPushStaged; GAddVerbose; GStashPopIndex; GDiffCached; GStashPushStaged; GAddVerbose; GStashPopIndex].
Proof.
  split; [vm_compute; reflexivity|]. split; [|vm_compute; reflexivity].
  apply managed_clean_b_ok. vm_compute. reflexivity.
Qed.

(* ---- the full statement and its refutations --------------------------------------------------- *)
(* C15 without the class exclusion, for the flow selected by [f24] *)
Definition C15_full (f24 : bool) : Prop :=
  forall s c g, fixed_P24 s = f24 -> fixed_P20 s = true -> from_ref s = None ->
  delta_managed (c_delta c) = true -> delta_managed (c_delta2 c) = true ->
  same_user_view (to_branch s) g (snd (fst (dispatch s c g))).
(* C15 for the control flow before the fix of P20, with the class exclusion *)
Definition C15_before_fix_P20 : Prop :=
  forall s c g, from_ref s = None ->
  delta_managed (c_delta c) = true -> delta_managed (c_delta2 c) = true ->
  Known_class s c g = false ->
  same_user_view (to_branch s) g (snd (fst (dispatch s c g))).
Theorem C15_full_holds_when_fixed : C15_full true.
Proof. intros s c g H24 _ Hfr Hd1 Hd2. exact (proj1 (dispatch_view_fixed_lemma s c g H24 Hfr Hd1 Hd2)). Qed.

(* P24 (the stash sandwich; repaired by repo-patches/83): f.txt has a staged hunk (region 0) and an unstaged hunk (region 1); a read-only
   command: `stash push --staged` succeeds, `stash pop --index` refuses, the staged hunk is left in the
   stash and gone from index and work tree *)
Definition g_p24 : git :=
  {| g_head := OnBranch n_main; g_branches := [(n_main, 1)]; g_tags := [];
     g_index := (p_f, [2; 1]) :: base_tree;
     g_wt := (p_f, [2; 3]) :: base_tree;
     g_stash := [];
     g_log := [ {| c_id := 1; c_parent := None; c_tree := base_tree |} ] |}.
Example p24_outcome :
  Known_class (st true None) cmd_readonly g_p24 = true /\
  fst (fst (dispatch (st true None) cmd_readonly g_p24)) = SAutoFailed 0 /\
  snd (dispatch (st true None) cmd_readonly g_p24) = [GDiffCached; GStashPushStaged; GAddVerbose; GStashPopIndex] /\
  (let g' := snd (fst (dispatch (st true None) cmd_readonly g_p24)) in
   tget (g_index g') p_f = Some [1; 1] /\ tget (g_wt g') p_f = Some [1; 3] /\ length (g_stash g') = 1%nat).
Proof. vm_compute. repeat split. Qed.
Example p24_readonly_still_commits_nothing :
  managed_clean g_p24 /\ g_log (snd (fst (dispatch (st true None) cmd_readonly g_p24))) = g_log g_p24.
Proof. split; [apply managed_clean_b_ok; vm_compute; reflexivity|vm_compute; reflexivity]. Qed.
Theorem staged_and_unstaged_refuted : ~ C15_full false.
Proof.
  intros H. specialize (H (st true None) cmd_readonly g_p24 eq_refl eq_refl eq_refl eq_refl eq_refl).
  destruct H as (_ & _ & _ & Hs & _). vm_compute in Hs. discriminate.
Qed.

(* P20 (fixed in /repo by af0f35b8): the user staged user.txt; any command under the OLD control flow:
   the second automation call returns early after `git add` printed nothing, the stash is not popped,
   user.txt is gone from index and work tree *)
Definition g_p20 : git :=
  {| g_head := OnBranch n_main; g_branches := [(n_main, 1)]; g_tags := [];
     g_index := (p_user, [5]) :: base_tree;
     g_wt := (p_user, [5]) :: base_tree;
     g_stash := [];
     g_log := [ {| c_id := 1; c_parent := None; c_tree := base_tree |} ] |}.
Example p20_outcome :
  Known_class (st false None) cmd_readonly g_p20 = false /\
  (let g' := snd (fst (dispatch (st false None) cmd_readonly g_p20)) in
   tget (g_index g') p_user = None /\ tget (g_wt g') p_user = None /\ length (g_stash g') = 1%nat) /\
  (let g' := snd (fst (dispatch (st true None) cmd_readonly g_p20)) in
   tget (g_index g') p_user = Some [5] /\ tget (g_wt g') p_user = Some [5] /\ g_stash g' = []).
Proof. vm_compute. repeat split. Qed.
Theorem staged_file_lost_refuted : ~ C15_before_fix_P20.
Proof.
  intros H. specialize (H (st false None) cmd_readonly g_p20 eq_refl eq_refl eq_refl eq_refl).
  destruct H as (_ & _ & _ & Hs & _). vm_compute in Hs. discriminate.
Qed.

(* ---- the repaired flow on the formerly excluded states ------------------------------------------ *)
(* the P24 state under the repaired flow: a read-only command makes two `git add` calls and nothing else;
   a state-changing command commits exactly what it wrote; the staged hunk stays staged, the unstaged hunk
   stays in the work tree, the stash stays empty *)
Example p24_state_under_repaired_flow :
  Known_class (st24 None) cmd_track g_p24 = false /\
  dispatch (st24 None) cmd_readonly g_p24 = (SOk, g_p24, [GAddVerbose; GAddVerbose]) /\
  fst (fst (dispatch (st24 None) cmd_track g_p24)) = SOk /\
  snd (dispatch (st24 None) cmd_track g_p24) = [GAddVerbose; GCommitOnly; GAddVerbose] /\
  (let g' := snd (fst (dispatch (st24 None) cmd_track g_p24)) in
   length (g_log g') = 2%nat /\ tget (head_tree g') p_ec2 = Some [2] /\ tget (head_tree g') p_data_gi = Some [7] /\
   tget (head_tree g') p_f = Some [1; 1] /\ tget (g_index g') p_f = Some [2; 1] /\ tget (g_wt g') p_f = Some [2; 3] /\
   g_stash g' = []).
Proof. vm_compute. repeat split. Qed.
(* staged + unstaged hunks on an ignore file and on a file under .xvc/, a staged new user file and a staged
   hunk of a user file beside them: in the stash sandwich `stash push --staged` exits 1 after saving a stash
   entry (the hunks of .xvc/ec/1 overlap) and the entry stays; the repaired flow commits the
   two managed files as they are in the work tree (they are xvc's to commit) and leaves the user's files
   staged as they were *)
Definition g_p24m : git :=
  {| g_head := OnBranch n_main; g_branches := [(n_main, 1)]; g_tags := [];
     g_index := (p_new, [5]) :: (p_f, [2; 1]) :: (p_data_gi, [2; 1]) :: (p_ec1, [4]) :: (p_data_gi, [1; 1]) :: base_tree;
     g_wt := (p_new, [5]) :: (p_f, [2; 3]) :: (p_data_gi, [2; 3]) :: (p_ec1, [6]) :: (p_data_gi, [1; 1]) :: base_tree;
     g_stash := [];
     g_log := [ {| c_id := 1; c_parent := None; c_tree := (p_data_gi, [1; 1]) :: base_tree |} ] |}.
Example p24_on_managed_files :
  Known_class (st true None) cmd_readonly g_p24m = true /\ Known_class (st24 None) cmd_readonly g_p24m = false /\
  fst (fst (dispatch (st true None) cmd_readonly g_p24m)) = SAutoFailed 0 /\
  snd (dispatch (st true None) cmd_readonly g_p24m) = [GDiffCached; GStashPushStaged] /\
  length (g_stash (snd (fst (dispatch (st true None) cmd_readonly g_p24m)))) = 1%nat /\
  fst (fst (dispatch (st24 None) cmd_readonly g_p24m)) = SOk /\
  snd (dispatch (st24 None) cmd_readonly g_p24m) = [GAddVerbose; GCommitOnly; GAddVerbose] /\
  (let g' := snd (fst (dispatch (st24 None) cmd_readonly g_p24m)) in
   tget (head_tree g') p_data_gi = Some [2; 3] /\ tget (head_tree g') p_ec1 = Some [6] /\
   tget (head_tree g') p_new = None /\ tget (head_tree g') p_f = Some [1; 1] /\
   tget (g_index g') p_new = Some [5] /\ tget (g_index g') p_f = Some [2; 1] /\ tget (g_wt g') p_f = Some [2; 3] /\
   tget (g_wt g') p_data_gi = Some [2; 3] /\ g_stash g' = []).
Proof. vm_compute. repeat split. Qed.
(* --to-branch under the repaired flow: the first call creates the branch and commits there, the second fails
   on `checkout -b` (as before); nothing of the user's moves *)
Example to_branch_repaired_flow :
  fst (fst (dispatch (st24 (Some n_feat)) cmd_track g_p24)) = SAutoFailed 1 /\
  snd (dispatch (st24 (Some n_feat)) cmd_track g_p24) = [GCheckoutB n_feat; GAddVerbose; GCommitOnly; GCheckoutB n_feat] /\
  (let g' := snd (fst (dispatch (st24 (Some n_feat)) cmd_track g_p24)) in
   head_branch g' = Some n_feat /\ bget (g_branches g') n_main = Some 1 /\ bget (g_branches g') n_feat = Some 2 /\
   tget (g_index g') p_f = Some [2; 1] /\ tget (g_wt g') p_f = Some [2; 3] /\ g_stash g' = []).
Proof. vm_compute. repeat split. Qed.
(* --from-ref on the P24 state (tag v on the same commit): the stash sandwich around the checkout loses the
   staged hunk as well; the plain checkout carries both hunks *)
Definition g_p24t : git :=
  {| g_head := g_head g_p24; g_branches := g_branches g_p24; g_tags := [([118], 1)]; g_index := g_index g_p24;
     g_wt := g_wt g_p24; g_stash := []; g_log := g_log g_p24 |}.
Definition with_ref (s : settings) : settings :=
  {| use_git := use_git s; auto_commit := auto_commit s; auto_stage := auto_stage s; skip_git := skip_git s;
     to_branch := to_branch s; from_ref := Some (RName [118]); fixed_P20 := fixed_P20 s; fixed_P24 := fixed_P24 s |}.
Example from_ref_on_p24_state :
  (let r := dispatch (with_ref (st true None)) cmd_readonly g_p24t in
   fst (fst r) = SFromRefFailed /\ snd r = [GDiffCached; GStashPushStaged; GCheckout (RName [118]); GStashPopIndex] /\
   tget (g_index (snd (fst r))) p_f = Some [1; 1] /\ length (g_stash (snd (fst r))) = 1%nat) /\
  (let r := dispatch (with_ref (st24 None)) cmd_readonly g_p24t in
   fst (fst r) = SOk /\ snd r = [GCheckout (RName [118]); GAddVerbose; GAddVerbose] /\
   tget (g_index (snd (fst r))) p_f = Some [2; 1] /\ tget (g_wt (snd (fst r))) p_f = Some [2; 3] /\
   g_stash (snd (fst r)) = [] /\ g_head (snd (fst r)) = Detached 1).
Proof. vm_compute. repeat split. Qed.

Print Assumptions automation_preserves_user_view.
Print Assumptions readonly_commands_commit_nothing.
Print Assumptions branch_switch_only_on_request.
Print Assumptions automation_off_touches_nothing.
Print Assumptions user_view_is_pointwise.
Print Assumptions C15_full_fixed.
Print Assumptions known_class_empty_when_fixed.
Print Assumptions fixed_flow_leaves_work_tree_and_stash_alone.
Print Assumptions from_ref_fixed_refused_changes_nothing.
Print Assumptions checkout_carries_local_changes.
Print Assumptions C15_full_holds_when_fixed.
Print Assumptions staged_and_unstaged_refuted.
Print Assumptions staged_file_lost_refuted.
