(* C16 -- tracked data files never enter Git.
   Statements only; the proofs are in Gitignore/Proofs.v, the model in Gitignore/Model.v.
   The editing theorems hold for EVERY matcher [build]/[chk] (xvc's own matcher is one instance,
   [xvc_build]/[xvc_chk], used in the witnesses); [ignored] is the reference semantics of gitignore. *)
From Coq Require Import List NArith Bool.
From XV Require Import Glob.Match Glob.Pattern Walker.Model Gitignore.Model Gitignore.Proofs.
From XV Require Gen.GitignoreInitial.
Import ListNotations.
Open Scope N_scope.

(* ================================================================================================
   1. xvc edits .gitignore files only by appending
   ================================================================================================ *)
(* for every sequence of commands (track, the ignore handler of recheck / copy / move / bring /
   carry-in, the rename branch of move), every matcher, every starting state and every directory: the
   old content of the .gitignore is a byte prefix of the new one *)
Theorem gitignore_append_only :
  forall (RT : Type) (build : env -> gfiles -> option RT) (chk : RT -> bytes -> verdict)
         (fixed_nl fixed_P5 fixed_sn fixed_em : bool) (cs : list cmd) (gf : gfiles) (d : gpath),
    exists suffix, content (run_cmds RT build chk fixed_nl fixed_P5 fixed_sn fixed_em gf cs) d = content gf d ++ suffix.
Proof. intros. exact (append_only RT build chk fixed_nl fixed_P5 fixed_sn fixed_em cs gf d). Qed.
Check gitignore_append_only :
  forall RT build chk fixed_nl fixed_P5 fixed_sn fixed_em cs gf d,
    exists suffix, content (run_cmds RT build chk fixed_nl fixed_P5 fixed_sn fixed_em gf cs) d = content gf d ++ suffix.
Print Assumptions gitignore_append_only.

(* ================================================================================================
   2. every tracked path is ignored by Git
   ================================================================================================ *)
(* The full statement: after a command, every file target is ignored (reference semantics), whatever
   the .gitignore files contained.  Refuted below, class by class. *)
Definition C16_full (fixed_P17 fixed_P35 fixed_nl fixed_P5 fixed_sn fixed_em : bool) : Prop :=
  forall (gf : gfiles) (c : cmd) (f : gpath),
    supported gf = true -> In f (file_targets c) -> valid_path f = true ->
    snd (run_cmd rules (xvc_build fixed_P17 fixed_P35) (xvc_chk fixed_P17 fixed_P35) fixed_nl fixed_P5 fixed_sn fixed_em gf c) = true ->
    ignored (fst (run_cmd rules (xvc_build fixed_P17 fixed_P35) (xvc_chk fixed_P17 fixed_P35) fixed_nl fixed_P5 fixed_sn fixed_em gf c)) f = true.

(* What holds: one command, every combination of the repairs.  Outside the boolean classes
   K_user_whitelist (the matcher answers Whitelist for the path), K_engine_mismatch (the matcher answers
   Ignore where Git does not ignore; empty with fixed_em) and K_special_name (in wf_cmd: every path of the
   command is path_ok -- a plain name without the escaping of fixed_sn, ANY name with it), with a date
   without line break, every .gitignore ending in a line break (or the writer repairing an unterminated
   last line), no fuel exhaustion, and -- for the rename branch of move -- the P5 repair: the file target
   is ignored by Git after the command. *)
Theorem tracked_paths_git_ignored :
  forall (RT : Type) (build : env -> gfiles -> option RT) (chk : RT -> bytes -> verdict)
         (fixed_nl fixed_P5 fixed_sn fixed_em : bool) (gf : gfiles) (c : cmd) (f : gpath),
    nl_ok fixed_nl gf -> wf_cmd fixed_sn c = true ->
    snd (run_cmd RT build chk fixed_nl fixed_P5 fixed_sn fixed_em gf c) = true ->
    (is_move c = true -> fixed_P5 = true) ->
    In f (file_targets c) ->
    K_user_whitelist RT build chk fixed_nl fixed_sn fixed_em gf c f = false ->
    K_engine_mismatch RT build chk fixed_nl fixed_sn fixed_em gf c f = false ->
    ignored (fst (run_cmd RT build chk fixed_nl fixed_P5 fixed_sn fixed_em gf c)) f = true.
Proof. intros. now apply cmd_targets_ignored. Qed.
Print Assumptions tracked_paths_git_ignored.

(* With repo-patches/75 (names escaped) and repo-patches/76 (Git decides what is ignored already) the
   classes special-name and engine-mismatch are gone from the statement: for EVERY valid path (any bytes
   but '/' and NUL in its components, also line breaks), whatever xvc's own matcher makes of the
   .gitignore files, a file target is ignored after its command unless the matcher reports a whitelisting
   user pattern (P26, still open). *)
Theorem tracked_paths_git_ignored_fixed :
  forall (RT : Type) (build : env -> gfiles -> option RT) (chk : RT -> bytes -> verdict)
         (fixed_nl fixed_P5 : bool) (gf : gfiles) (c : cmd) (f : gpath),
    nl_ok fixed_nl gf -> forallb valid_path (cmd_paths c) = true -> has_nl (e_date (cmd_env c)) = false ->
    snd (run_cmd RT build chk fixed_nl fixed_P5 true true gf c) = true ->
    (is_move c = true -> fixed_P5 = true) ->
    In f (file_targets c) ->
    K_user_whitelist RT build chk fixed_nl true true gf c f = false ->
    ignored (fst (run_cmd RT build chk fixed_nl fixed_P5 true true gf c)) f = true.
Proof.
  intros RT build chk fixed_nl fixed_P5 gf c f Hnl Hv Hd. apply cmd_targets_ignored_fixed; [exact Hnl|].
  unfold wf_cmd. change (forallb (path_ok true) (cmd_paths c)) with (forallb valid_path (cmd_paths c)).
  rewrite Hv, Hd. reflexivity.
Qed.
Print Assumptions tracked_paths_git_ignored_fixed.

Theorem special_name_class_empty_when_fixed :
  forall p : gpath, valid_path p = true -> K_special_name true p = false.
Proof. intros p H. unfold K_special_name. cbn [path_ok]. rewrite H. reflexivity. Qed.
Print Assumptions special_name_class_empty_when_fixed.

Theorem engine_mismatch_class_empty_when_fixed :
  forall (RT : Type) (build : env -> gfiles -> option RT) (chk : RT -> bytes -> verdict)
         (fixed_nl fixed_sn : bool) (gf : gfiles) (c : cmd) (f : gpath),
    K_engine_mismatch RT build chk fixed_nl fixed_sn true gf c f = false.
Proof. intros. now apply mism_empty_when_fixed. Qed.
Print Assumptions engine_mismatch_class_empty_when_fixed.

(* the written line: for a name without line break and final carriage return, `/` ++ escape_name n parses
   (reference semantics of gitignore, tied to `git check-ignore` by the differential test) to a positive
   pattern that matches -- among the paths relative to the directory of the .gitignore, files and
   directories -- exactly [n]; the directory form `/name/` exactly the directory [n] *)
Theorem escape_matches_exactly :
  forall n : gname, strict_name n = true ->
    (exists p, parse_line (c_slash :: escape_name n) = LPat p /\ g_neg p = false /\
               forall q isdir, pat_match p q isdir = true <-> q = [n]) /\
    (exists p, parse_line ([c_slash] ++ escape_name n ++ [c_slash]) = LPat p /\ g_neg p = false /\
               forall q isdir, pat_match p q isdir = true <-> (q = [n] /\ isdir = true)).
Proof. intros n H. split; [exact (escape_file_line_exact n H) | exact (escape_dir_line_exact n H)]. Qed.
Print Assumptions escape_matches_exactly.

(* every name (a line break or a final carriage return is written `?`) is ignored through its line *)
Theorem escape_ignores_name :
  forall (d : gpath) (n : gname), valid_name n = true ->
    ignored [(d, c_slash :: escape_name n ++ [c_nl])] (d ++ [n]) = true.
Proof. intros. now apply escape_line_ignores. Qed.
Print Assumptions escape_ignores_name.

(* ... and over histories: a file target of ANY command of a history that was outside the classes when
   its command ran is ignored by Git at the END of the history (later commands never un-ignore) *)
Theorem tracked_paths_git_ignored_history :
  forall (RT : Type) (build : env -> gfiles -> option RT) (chk : RT -> bytes -> verdict)
         (fixed_nl fixed_P5 fixed_sn fixed_em : bool) (cs1 : list cmd) (c : cmd) (cs2 : list cmd) (gf : gfiles) (f : gpath),
    nl_ok fixed_nl gf -> forallb (wf_cmd fixed_sn) (cs1 ++ c :: cs2) = true ->
    snd (run_cmd RT build chk fixed_nl fixed_P5 fixed_sn fixed_em (run_cmds RT build chk fixed_nl fixed_P5 fixed_sn fixed_em gf cs1) c) = true ->
    (is_move c = true -> fixed_P5 = true) ->
    In f (file_targets c) ->
    K_user_whitelist RT build chk fixed_nl fixed_sn fixed_em (run_cmds RT build chk fixed_nl fixed_P5 fixed_sn fixed_em gf cs1) c f = false ->
    K_engine_mismatch RT build chk fixed_nl fixed_sn fixed_em (run_cmds RT build chk fixed_nl fixed_P5 fixed_sn fixed_em gf cs1) c f = false ->
    ignored (run_cmds RT build chk fixed_nl fixed_P5 fixed_sn fixed_em gf (cs1 ++ c :: cs2)) f = true.
Proof. intros. now apply history_targets_ignored. Qed.
Print Assumptions tracked_paths_git_ignored_history.

(* ... with both repairs: the only class left is the user's whitelisting *)
Theorem tracked_paths_git_ignored_history_fixed :
  forall (RT : Type) (build : env -> gfiles -> option RT) (chk : RT -> bytes -> verdict)
         (fixed_nl fixed_P5 : bool) (cs1 : list cmd) (c : cmd) (cs2 : list cmd) (gf : gfiles) (f : gpath),
    nl_ok fixed_nl gf -> forallb (wf_cmd true) (cs1 ++ c :: cs2) = true ->
    snd (run_cmd RT build chk fixed_nl fixed_P5 true true (run_cmds RT build chk fixed_nl fixed_P5 true true gf cs1) c) = true ->
    (is_move c = true -> fixed_P5 = true) ->
    In f (file_targets c) ->
    K_user_whitelist RT build chk fixed_nl true true (run_cmds RT build chk fixed_nl fixed_P5 true true gf cs1) c f = false ->
    ignored (run_cmds RT build chk fixed_nl fixed_P5 true true gf (cs1 ++ c :: cs2)) f = true.
Proof. intros. now apply history_targets_ignored_fixed. Qed.
Print Assumptions tracked_paths_git_ignored_history_fixed.

(* the files below a directory target whose rule `/name/` was written (keep_dir: the matcher said NoMatch --
   with fixed_em: Git did not ignore the directory and the matcher did not say Whitelist) are ignored, at any depth *)
Theorem tracked_directory_contents_ignored :
  forall (RT : Type) (build : env -> gfiles -> option RT) (chk : RT -> bytes -> verdict)
         (fixed_nl fixed_P5 fixed_sn fixed_em : bool) (gf : gfiles) (e : env) (dirs files : list gpath)
         (par : gpath) (n : gname) (rest : gpath) (R1 : RT),
    nl_ok fixed_nl gf -> wf_cmd fixed_sn (CTrack e dirs files) = true -> build e gf = Some R1 ->
    In (par ++ [n]) dirs -> keep_dir RT chk fixed_em R1 gf (par ++ [n]) = true -> rest <> [] ->
    ignored (fst (run_cmd RT build chk fixed_nl fixed_P5 fixed_sn fixed_em gf (CTrack e dirs files))) (par ++ [n] ++ rest) = true.
Proof. intros. now apply (track_dir_contents_ignored RT build chk fixed_nl fixed_P5 fixed_sn fixed_em gf e dirs files par n rest R1). Qed.
Print Assumptions tracked_directory_contents_ignored.

(* what Git ignores stays ignored through every sequence of xvc commands (they only append lines that
   are not negations) *)
Theorem ignored_stable_under_xvc :
  forall (RT : Type) (build : env -> gfiles -> option RT) (chk : RT -> bytes -> verdict)
         (fixed_nl fixed_P5 fixed_sn fixed_em : bool) (cs : list cmd) (gf : gfiles) (p : gpath),
    nl_ok fixed_nl gf -> forallb (wf_cmd fixed_sn) cs = true ->
    ignored gf p = true -> ignored (run_cmds RT build chk fixed_nl fixed_P5 fixed_sn fixed_em gf cs) p = true.
Proof. intros. now apply ignored_stable. Qed.
Print Assumptions ignored_stable_under_xvc.

(* ================================================================================================
   3. the cache is never staged
   ================================================================================================ *)
(* with the initial root .gitignore READ FROM THE SOURCE (Gen/GitignoreInitial.v), after any sequence
   of xvc commands, every path below .xvc/b3, .xvc/b2, .xvc/s2, .xvc/s3 is ignored by Git *)
Theorem cache_never_staged :
  forall (RT : Type) (build : env -> gfiles -> option RT) (chk : RT -> bytes -> verdict)
         (fixed_nl fixed_P5 fixed_sn fixed_em : bool) (cs : list cmd) (c : gname) (rest : gpath),
    In c cache_dirs -> rest <> [] -> forallb (wf_cmd fixed_sn) cs = true ->
    ignored (run_cmds RT build chk fixed_nl fixed_P5 fixed_sn fixed_em init_gf cs) (xvc_name :: c :: rest) = true.
Proof. intros. now apply cache_ignored. Qed.
Print Assumptions cache_never_staged.

Definition s_store : gname := [115; 116; 111; 114; 101].
Definition s_ec : gname := [101; 99].
Definition s_config : gname := [99; 111; 110; 102; 105; 103; 46; 116; 111; 109; 108].
(* ... while .xvc/store, .xvc/ec and .xvc/config.toml can be added *)
Example store_ec_config_addable :
  ignored init_gf [xvc_name; s_store; [120]; [121]] = false /\
  ignored init_gf [xvc_name; s_store; [120]] = false /\
  ignored init_gf [xvc_name; s_ec; [49]] = false /\
  ignored init_gf [xvc_name; s_config] = false /\
  ignored_dir init_gf [xvc_name; s_store] = false /\ ignored_dir init_gf [xvc_name] = false.
Proof. vm_compute. repeat split. Qed.
Example cache_objects_ignored :
  ignored init_gf [xvc_name; [98;51]; [97;98;99]; [100;101;102]; [48]] = true /\
  ignored_dir init_gf [xvc_name; [98;51]] = true /\ ignored init_gf [xvc_name; [120]] = true.
Proof. vm_compute. repeat split. Qed.
(* the model's initial content is the rendering of the regenerated table and parses back to it *)
Example init_content_is_generated_table :
  Gen.GitignoreInitial.gitignore_initial_supported = true /\
  length (plines init_content) = length Gen.GitignoreInitial.gitignore_initial /\
  supported init_gf = true /\ all_end_nl init_gf = true.
Proof. vm_compute. repeat split. Qed.

(* ================================================================================================
   witnesses: the known classes (each refutes the full statement), non-vacuity of the theorems
   ================================================================================================ *)
Definition a_txt : gname := [97; 46; 116; 120; 116].
Definition v_txt : gname := [118; 46; 116; 120; 116].
Definition b_txt : gname := [98; 46; 116; 120; 116].
Definition y_txt : gname := [121; 46; 116; 120; 116].
Definition x_bin : gname := [120; 46; 98; 105; 110].
Definition keep_dat : gname := [107; 101; 101; 112; 46; 100; 97; 116].
Definition data_bin : gname := [100; 97; 116; 97; 46; 98; 105; 110].
Definition n_d : gname := [100].   Definition n_x : gname := [120].   Definition n_m : gname := [109].
Definition n_sub : gname := [115; 117; 98].   Definition n_other : gname := [111; 116; 104; 101; 114].
Definition date0 : bytes := [84; 104; 117; 44; 32; 49; 32; 79; 99; 116; 32; 50; 48; 50; 54; 32; 50; 48; 58; 48; 55; 58; 50; 49; 32; 43; 48; 48; 48; 48].
Definition env0 (dirs : list gpath) : env := {| e_dirs := dirs; e_date := date0 |}.

Definition run1 (p17 p35 nl p5 sn em : bool) (gf : gfiles) (c : cmd) : gfiles :=
  fst (run_cmd rules (xvc_build p17 p35) (xvc_chk p17 p35) nl p5 sn em gf c).
Definition refutes (p17 p35 nl p5 sn em : bool) (gf : gfiles) (c : cmd) (f : gpath) : bool :=
  supported gf && mem_path f (file_targets c) && valid_path f
  && snd (run_cmd rules (xvc_build p17 p35) (xvc_chk p17 p35) nl p5 sn em gf c) && negb (ignored (run1 p17 p35 nl p5 sn em gf c) f).

Lemma refutes_sound p17 p35 nl p5 sn em gf c f : refutes p17 p35 nl p5 sn em gf c f = true -> ~ C16_full p17 p35 nl p5 sn em.
Proof.
  unfold refutes. intros H Hfull.
  apply andb_true_iff in H as [H H4]. apply andb_true_iff in H as [H H3]. apply andb_true_iff in H as [H Hv].
  apply andb_true_iff in H as [H1 H2].
  apply mem_path_In in H2. specialize (Hfull gf c f H1 H2 Hv H3). unfold run1 in H4. rewrite Hfull in H4. discriminate.
Qed.

(* P5: `xvc file move a.txt v.txt` (copy -> copy): the rename branch writes no rule *)
Definition st_a_tracked : gfiles := run1 false false false false false false init_gf (CTrack (env0 []) [] [[a_txt]]).
Theorem move_dest_not_ignored_refuted : ~ C16_full false false false false false false.
Proof. apply (refutes_sound _ _ _ _ _ _ st_a_tracked (CMoveRename (env0 []) [[v_txt]]) [v_txt]). vm_compute. reflexivity. Qed.
(* with the repair the destination gets its rule *)
Example move_dest_ignored_when_fixed :
  ignored (run1 false false false true false false st_a_tracked (CMoveRename (env0 []) [[v_txt]])) [v_txt] = true.
Proof. vm_compute. reflexivity. Qed.

(* P25 (root cause P17): sub/.gitignore contains `data.bin`; `xvc file track other/data.bin` *)
Definition st_p25 : gfiles := init_gf ++ [([n_sub], data_bin ++ [10])].
Definition c_p25 : cmd := CTrack (env0 [[n_sub]; [n_other]]) [] [[n_other; data_bin]].
Theorem engine_mismatch_nonlocal_refuted : ~ C16_full false false false false false false.
Proof. apply (refutes_sound _ _ _ _ _ _ st_p25 c_p25 [n_other; data_bin]). vm_compute. reflexivity. Qed.
Example p25_is_in_class_and_gone_with_locality :
  K_engine_mismatch rules (xvc_build false false) (xvc_chk false false) false false false st_p25 c_p25 [n_other; data_bin] = true /\
  K_engine_mismatch rules (xvc_build true true) (xvc_chk true true) false false false st_p25 c_p25 [n_other; data_bin] = false /\
  ignored (run1 true true false false false false st_p25 c_p25) [n_other; data_bin] = true.
Proof. vm_compute. repeat split. Qed.

(* P26: root .gitignore `*.dat` / `!keep.dat`; `xvc file track keep.dat`: error, nothing appended -- with
   EVERY repair (the finding is open) *)
Definition st_p26 : gfiles := [([], init_content ++ [42; 46; 100; 97; 116; 10; 33; 107; 101; 101; 112; 46; 100; 97; 116; 10])].
Definition c_p26 : cmd := CTrack (env0 []) [] [[keep_dat]].
Theorem user_whitelist_refuted : ~ C16_full true true true true true true.
Proof. apply (refutes_sound _ _ _ _ _ _ st_p26 c_p26 [keep_dat]). vm_compute. reflexivity. Qed.
Example p26_is_in_class :
  K_user_whitelist rules (xvc_build true true) (xvc_chk true true) true true true st_p26 c_p26 [keep_dat] = true /\
  content (run1 true true true true true true st_p26 c_p26) [] = content st_p26 [].
Proof. vm_compute. repeat split. Qed.

(* anchored rules float: xvc's own `/a.txt` (written for a.txt) makes it skip d/a.txt -- with every repair
   but fixed_em *)
Definition c_da : cmd := CTrack (env0 [[n_d]]) [] [[n_d; a_txt]].
Definition st_a_root : gfiles := run1 true true true true true false init_gf (CTrack (env0 [[n_d]]) [] [[a_txt]]).
Theorem engine_mismatch_anchored_refuted : ~ C16_full true true true true true false.
Proof. apply (refutes_sound _ _ _ _ _ _ st_a_root c_da [n_d; a_txt]). vm_compute. reflexivity. Qed.
Example anchored_is_in_class :
  K_engine_mismatch rules (xvc_build true true) (xvc_chk true true) true true false st_a_root c_da [n_d; a_txt] = true.
Proof. vm_compute. reflexivity. Qed.
(* when Git decides (fixed_em), d/a.txt gets its own rule although xvc's matcher still says Ignore *)
Example anchored_ignored_when_fixed :
  xvc_chk true true (match xvc_build true true (env0 [[n_d]]) st_a_root with Some R => R | None => global_rules [] end) (render [n_d; a_txt]) = Ignore /\
  ignored st_a_root [n_d; a_txt] = false /\
  ignored (run1 true true true true true true st_a_root c_da) [n_d; a_txt] = true /\
  content (run1 true true true true true true st_a_root c_da) [n_d] <> [].
Proof. vm_compute. repeat split; discriminate. Qed.

(* a name-only line of a nested file matched against the whole path: d/e/.gitignore = `e/`, track d/e/x.bin;
   the locality repair does not help (the path IS below d/e) *)
Definition n_e : gname := [101].
Definition st_above : gfiles := init_gf ++ [([n_d; n_e], [101; 47; 10])].
Definition c_above : cmd := CTrack (env0 [[n_d]; [n_d; n_e]]) [] [[n_d; n_e; x_bin]].
Theorem engine_mismatch_nested_above_refuted : ~ C16_full true true true true true false.
Proof. apply (refutes_sound _ _ _ _ _ _ st_above c_above [n_d; n_e; x_bin]). vm_compute. reflexivity. Qed.
Example nested_above_is_in_class :
  K_engine_mismatch rules (xvc_build true true) (xvc_chk true true) true true false st_above c_above [n_d; n_e; x_bin] = true.
Proof. vm_compute. reflexivity. Qed.
Example nested_above_ignored_when_fixed :
  ignored (run1 true true true true true true st_above c_above) [n_d; n_e; x_bin] = true.
Proof. vm_compute. reflexivity. Qed.

(* names outside plain_name: m/a[1].txt is written as the character class `/a[1].txt` -- with every repair
   but fixed_sn *)
Definition a1_txt : gname := [97; 91; 49; 93; 46; 116; 120; 116].
Definition c_blank : gname := [99; 32].                        (* `c ` *)
Definition q_bs_w : gname := [113; 92; 119].                   (* q\w *)
Definition l_nl_f : gname := [108; 10; 102].                   (* l<LF>f *)
Definition c_special : cmd := CTrack (env0 [[n_m]]) [] [[n_m; a1_txt]; [n_m; c_blank]; [n_m; q_bs_w]; [n_m; l_nl_f]].
Theorem special_name_refuted : ~ C16_full true true true true false true.
Proof. apply (refutes_sound _ _ _ _ _ _ init_gf c_special [n_m; a1_txt]). vm_compute. reflexivity. Qed.
Example special_name_class :
  K_special_name false [n_m; a1_txt] = true /\ K_special_name false [n_m; a_txt] = false /\
  K_special_name true [n_m; a1_txt] = false /\ K_special_name true [n_m; l_nl_f] = false /\
  strict_name a1_txt = true /\ strict_name c_blank = true /\ strict_name q_bs_w = true /\
  strict_name l_nl_f = false /\ valid_name l_nl_f = true.
Proof. vm_compute. repeat split. Qed.
(* with the escaping all four are ignored, the lines are `/a\[1\].txt`, `/c\ `, `/q\\w`, `/l?f`, and a sibling
   a1.txt (what the unescaped character class matched) is NOT ignored *)
Example special_names_ignored_when_fixed :
  let gf := run1 true true true true true true init_gf c_special in
  wf_cmd true c_special = true /\
  ignored gf [n_m; a1_txt] = true /\ ignored gf [n_m; c_blank] = true /\ ignored gf [n_m; q_bs_w] = true /\
  ignored gf [n_m; l_nl_f] = true /\ ignored gf [n_m; [97; 49; 46; 116; 120; 116]] = false /\ supported gf = true /\
  escape_name a1_txt = [97; 92; 91; 49; 92; 93; 46; 116; 120; 116] /\ escape_name c_blank = [99; 92; 32] /\
  escape_name q_bs_w = [113; 92; 92; 119] /\ escape_name l_nl_f = [108; 63; 102].
Proof. vm_compute. repeat split. Qed.

(* an unterminated last line: d/.gitignore = `*.bin` (no line break) ignores d/x.bin; tracking d/y.txt
   appends the block to that line and d/x.bin is no longer ignored.  Stability needs nl_ok. *)
Definition st_unterm : gfiles := init_gf ++ [([n_d], [42; 46; 98; 105; 110])].
Definition c_unterm : cmd := CTrack (env0 [[n_d]]) [] [[n_d; y_txt]].
Theorem ignored_stable_refuted_unterminated :
  exists gf cs p, supported gf = true /\ forallb (wf_cmd false) cs = true /\ ignored gf p = true /\
                  ignored (xvc_run false false false false false false gf cs) p = false.
Proof. exists st_unterm, [c_unterm], [n_d; x_bin]. vm_compute. repeat split. Qed.
Example unterminated_repaired_by_fixed_nl :
  ignored (xvc_run false false true false false false st_unterm [c_unterm]) [n_d; x_bin] = true /\
  all_end_nl st_unterm = false.
Proof. vm_compute. split; reflexivity. Qed.

(* non-vacuity: a history on which every hypothesis of the theorems holds and rules ARE written:
   track the directory d and the file a.txt, then the handler materialises x/b.txt in a new directory *)
Definition h_cmds : list cmd :=
  [CTrack (env0 [[n_d]]) [[n_d]] [[a_txt]; [n_d; b_txt]];
   CHandler (env0 [[n_d]; [n_x]]) [IgnDir [n_x]; IgnFile [n_x; b_txt]]].
Example hypotheses_met :
  nl_ok false init_gf /\ forallb (wf_cmd false) h_cmds = true /\
  (let c := CTrack (env0 [[n_d]]) [[n_d]] [[a_txt]; [n_d; b_txt]] in
   snd (run_cmd rules (xvc_build false false) (xvc_chk false false) false false false false init_gf c) = true /\
   K_user_whitelist rules (xvc_build false false) (xvc_chk false false) false false false init_gf c [a_txt] = false /\
   K_engine_mismatch rules (xvc_build false false) (xvc_chk false false) false false false init_gf c [a_txt] = false /\
   K_engine_mismatch rules (xvc_build false false) (xvc_chk false false) false false false init_gf c [n_d; b_txt] = false) /\
  ignored (xvc_run false false false false false false init_gf h_cmds) [a_txt] = true /\
  ignored (xvc_run false false false false false false init_gf h_cmds) [n_d; b_txt] = true /\
  ignored (xvc_run false false false false false false init_gf h_cmds) [n_x; b_txt] = true /\
  ignored init_gf [a_txt] = false /\
  content (xvc_run false false false false false false init_gf h_cmds) [] <> content init_gf [].
Proof.
  split; [right; apply all_end_nl_content; vm_compute; reflexivity|].
  vm_compute. repeat split; discriminate.
Qed.
(* ... and of the statement with both repairs: a history with special names, a name that recurs in a
   sub-directory (the former anchored-floats class) and the handler; every hypothesis of
   tracked_paths_git_ignored_history_fixed holds and every target ends up ignored *)
Definition h_fixed : list cmd :=
  [CTrack (env0 [[n_d]; [n_m]]) [] [[a_txt]; [n_m; a1_txt]; [n_m; c_blank]];
   CTrack (env0 [[n_d]; [n_m]]) [] [[n_d; a_txt]; [n_m; q_bs_w]];
   CHandler (env0 [[n_d]; [n_m]; [n_x]]) [IgnDir [n_x]; IgnFile [n_x; a_txt]; IgnFile [n_d; a_txt]]].
Example hypotheses_met_fixed :
  nl_ok true init_gf /\ forallb (wf_cmd true) h_fixed = true /\
  (let gf1 := xvc_run true true true true true true init_gf [CTrack (env0 [[n_d]; [n_m]]) [] [[a_txt]; [n_m; a1_txt]; [n_m; c_blank]]] in
   let c := CTrack (env0 [[n_d]; [n_m]]) [] [[n_d; a_txt]; [n_m; q_bs_w]] in
   snd (run_cmd rules (xvc_build true true) (xvc_chk true true) true true true true gf1 c) = true /\
   K_user_whitelist rules (xvc_build true true) (xvc_chk true true) true true true gf1 c [n_d; a_txt] = false /\
   ignored gf1 [n_d; a_txt] = false) /\
  (let gf := xvc_run true true true true true true init_gf h_fixed in
   ignored gf [a_txt] = true /\ ignored gf [n_d; a_txt] = true /\ ignored gf [n_m; a1_txt] = true /\
   ignored gf [n_m; c_blank] = true /\ ignored gf [n_m; q_bs_w] = true /\ ignored gf [n_x; a_txt] = true /\
   supported gf = true).
Proof.
  split; [now left|]. vm_compute. repeat split.
Qed.
