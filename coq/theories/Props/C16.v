(* C16 -- tracked data files never enter Git.
   Statements only; the proofs are in Gitignore/Proofs.v, the model in Gitignore/Model.v.
   The editing theorems hold for EVERY matcher [build]/[chk] (xvc's own matcher is one instance,
   [xvc_build]/[xvc_chk], used in the witnesses); [ignored] is the reference semantics of gitignore. *)
From Coq Require Import List NArith Bool.
From XV Require Import Glob.Match Glob.Pattern Walker.Model Gitignore.Model Gitignore.Proofs.
From XV Require Gen.GitignoreInitial.
Import ListNotations.
Open Scope N_scope.

(* ================================================================================================
   1. xvc edits .gitignore files only by appending
   ================================================================================================ *)
(* for every sequence of commands (track, the ignore handler of recheck / copy / move / bring /
   carry-in, the rename branch of move), every matcher, every starting state and every directory: the
   old content of the .gitignore is a byte prefix of the new one *)
Theorem gitignore_append_only :
  forall (RT : Type) (build : env -> gfiles -> option RT) (chk : RT -> bytes -> verdict)
         (fixed_nl fixed_P5 : bool) (cs : list cmd) (gf : gfiles) (d : gpath),
    exists suffix, content (run_cmds RT build chk fixed_nl fixed_P5 gf cs) d = content gf d ++ suffix.
Proof. intros. exact (append_only RT build chk fixed_nl fixed_P5 cs gf d). Qed.
Check gitignore_append_only :
  forall RT build chk fixed_nl fixed_P5 cs gf d,
    exists suffix, content (run_cmds RT build chk fixed_nl fixed_P5 gf cs) d = content gf d ++ suffix.
Print Assumptions gitignore_append_only.

(* ================================================================================================
   2. every tracked path is ignored by Git
   ================================================================================================ *)
(* The full statement: after a command, every file target is ignored (reference semantics), whatever
   the .gitignore files contained.  Refuted below, class by class. *)
Definition C16_full (fixed_P17 fixed_nl fixed_P5 : bool) : Prop :=
  forall (gf : gfiles) (c : cmd) (f : gpath),
    supported gf = true -> In f (file_targets c) ->
    snd (run_cmd rules (xvc_build fixed_P17) (xvc_chk fixed_P17) fixed_nl fixed_P5 gf c) = true ->
    ignored (fst (run_cmd rules (xvc_build fixed_P17) (xvc_chk fixed_P17) fixed_nl fixed_P5 gf c)) f = true.

(* What holds: one command.  Outside the two boolean classes K_user_whitelist (the matcher answers
   Whitelist for the path) and K_engine_mismatch (the matcher answers Ignore where Git does not
   ignore), with plain names, a date without line break, every .gitignore ending in a line break (or
   the writer repairing an unterminated last line), no fuel exhaustion, and -- for the rename branch of
   move -- the P5 repair: the file target is ignored by Git after the command. *)
Theorem tracked_paths_git_ignored :
  forall (RT : Type) (build : env -> gfiles -> option RT) (chk : RT -> bytes -> verdict)
         (fixed_nl fixed_P5 : bool) (gf : gfiles) (c : cmd) (f : gpath),
    nl_ok fixed_nl gf -> wf_cmd c = true ->
    snd (run_cmd RT build chk fixed_nl fixed_P5 gf c) = true ->
    (is_move c = true -> fixed_P5 = true) ->
    In f (file_targets c) ->
    K_user_whitelist RT build chk fixed_nl gf c f = false ->
    K_engine_mismatch RT build chk fixed_nl gf c f = false ->
    ignored (fst (run_cmd RT build chk fixed_nl fixed_P5 gf c)) f = true.
Proof. intros. now apply cmd_targets_ignored. Qed.
Print Assumptions tracked_paths_git_ignored.

(* ... and over histories: a file target of ANY command of a history that was outside the classes when
   its command ran is ignored by Git at the END of the history (later commands never un-ignore) *)
Theorem tracked_paths_git_ignored_history :
  forall (RT : Type) (build : env -> gfiles -> option RT) (chk : RT -> bytes -> verdict)
         (fixed_nl fixed_P5 : bool) (cs1 : list cmd) (c : cmd) (cs2 : list cmd) (gf : gfiles) (f : gpath),
    nl_ok fixed_nl gf -> forallb wf_cmd (cs1 ++ c :: cs2) = true ->
    snd (run_cmd RT build chk fixed_nl fixed_P5 (run_cmds RT build chk fixed_nl fixed_P5 gf cs1) c) = true ->
    (is_move c = true -> fixed_P5 = true) ->
    In f (file_targets c) ->
    K_user_whitelist RT build chk fixed_nl (run_cmds RT build chk fixed_nl fixed_P5 gf cs1) c f = false ->
    K_engine_mismatch RT build chk fixed_nl (run_cmds RT build chk fixed_nl fixed_P5 gf cs1) c f = false ->
    ignored (run_cmds RT build chk fixed_nl fixed_P5 gf (cs1 ++ c :: cs2)) f = true.
Proof. intros. now apply history_targets_ignored. Qed.
Print Assumptions tracked_paths_git_ignored_history.

(* the files below a directory target whose rule `/name/` was written are ignored, at any depth *)
Theorem tracked_directory_contents_ignored :
  forall (RT : Type) (build : env -> gfiles -> option RT) (chk : RT -> bytes -> verdict)
         (fixed_nl fixed_P5 : bool) (gf : gfiles) (e : env) (dirs files : list gpath)
         (par : gpath) (n : gname) (rest : gpath) (R1 : RT),
    nl_ok fixed_nl gf -> wf_cmd (CTrack e dirs files) = true -> build e gf = Some R1 ->
    In (par ++ [n]) dirs -> chk R1 (dir_str (par ++ [n])) = NoMatch -> rest <> [] ->
    ignored (fst (run_cmd RT build chk fixed_nl fixed_P5 gf (CTrack e dirs files))) (par ++ [n] ++ rest) = true.
Proof. intros. now apply (track_dir_contents_ignored RT build chk fixed_nl fixed_P5 gf e dirs files par n rest R1). Qed.
Print Assumptions tracked_directory_contents_ignored.

(* what Git ignores stays ignored through every sequence of xvc commands (they only append lines that
   are not negations) *)
Theorem ignored_stable_under_xvc :
  forall (RT : Type) (build : env -> gfiles -> option RT) (chk : RT -> bytes -> verdict)
         (fixed_nl fixed_P5 : bool) (cs : list cmd) (gf : gfiles) (p : gpath),
    nl_ok fixed_nl gf -> forallb wf_cmd cs = true ->
    ignored gf p = true -> ignored (run_cmds RT build chk fixed_nl fixed_P5 gf cs) p = true.
Proof. intros. now apply ignored_stable. Qed.
Print Assumptions ignored_stable_under_xvc.

(* ================================================================================================
   3. the cache is never staged
   ================================================================================================ *)
(* with the initial root .gitignore READ FROM THE SOURCE (Gen/GitignoreInitial.v), after any sequence
   of xvc commands, every path below .xvc/b3, .xvc/b2, .xvc/s2, .xvc/s3 is ignored by Git *)
Theorem cache_never_staged :
  forall (RT : Type) (build : env -> gfiles -> option RT) (chk : RT -> bytes -> verdict)
         (fixed_nl fixed_P5 : bool) (cs : list cmd) (c : gname) (rest : gpath),
    In c cache_dirs -> rest <> [] -> forallb wf_cmd cs = true ->
    ignored (run_cmds RT build chk fixed_nl fixed_P5 init_gf cs) (xvc_name :: c :: rest) = true.
Proof. intros. now apply cache_ignored. Qed.
Print Assumptions cache_never_staged.

Definition s_store : gname := [115; 116; 111; 114; 101].
Definition s_ec : gname := [101; 99].
Definition s_config : gname := [99; 111; 110; 102; 105; 103; 46; 116; 111; 109; 108].
(* ... while .xvc/store, .xvc/ec and .xvc/config.toml can be added *)
Example store_ec_config_addable :
  ignored init_gf [xvc_name; s_store; [120]; [121]] = false /\
  ignored init_gf [xvc_name; s_store; [120]] = false /\
  ignored init_gf [xvc_name; s_ec; [49]] = false /\
  ignored init_gf [xvc_name; s_config] = false /\
  ignored_dir init_gf [xvc_name; s_store] = false /\ ignored_dir init_gf [xvc_name] = false.
Proof. vm_compute. repeat split. Qed.
Example cache_objects_ignored :
  ignored init_gf [xvc_name; [98;51]; [97;98;99]; [100;101;102]; [48]] = true /\
  ignored_dir init_gf [xvc_name; [98;51]] = true /\ ignored init_gf [xvc_name; [120]] = true.
Proof. vm_compute. repeat split. Qed.
(* the model's initial content is the rendering of the regenerated table and parses back to it *)
Example init_content_is_generated_table :
  Gen.GitignoreInitial.gitignore_initial_supported = true /\
  length (plines init_content) = length Gen.GitignoreInitial.gitignore_initial /\
  supported init_gf = true /\ all_end_nl init_gf = true.
Proof. vm_compute. repeat split. Qed.

(* ================================================================================================
   witnesses: the known classes (each refutes the full statement), non-vacuity of the theorems
   ================================================================================================ *)
Definition a_txt : gname := [97; 46; 116; 120; 116].
Definition v_txt : gname := [118; 46; 116; 120; 116].
Definition b_txt : gname := [98; 46; 116; 120; 116].
Definition y_txt : gname := [121; 46; 116; 120; 116].
Definition x_bin : gname := [120; 46; 98; 105; 110].
Definition keep_dat : gname := [107; 101; 101; 112; 46; 100; 97; 116].
Definition data_bin : gname := [100; 97; 116; 97; 46; 98; 105; 110].
Definition n_d : gname := [100].   Definition n_x : gname := [120].   Definition n_m : gname := [109].
Definition n_sub : gname := [115; 117; 98].   Definition n_other : gname := [111; 116; 104; 101; 114].
Definition date0 : bytes := [84; 104; 117; 44; 32; 49; 32; 79; 99; 116; 32; 50; 48; 50; 54; 32; 50; 48; 58; 48; 55; 58; 50; 49; 32; 43; 48; 48; 48; 48].
Definition env0 (dirs : list gpath) : env := {| e_dirs := dirs; e_date := date0 |}.

Definition run1 (p17 nl p5 : bool) (gf : gfiles) (c : cmd) : gfiles :=
  fst (run_cmd rules (xvc_build p17) (xvc_chk p17) nl p5 gf c).
Definition refutes (p17 nl p5 : bool) (gf : gfiles) (c : cmd) (f : gpath) : bool :=
  supported gf && mem_path f (file_targets c)
  && snd (run_cmd rules (xvc_build p17) (xvc_chk p17) nl p5 gf c) && negb (ignored (run1 p17 nl p5 gf c) f).

Lemma refutes_sound p17 nl p5 gf c f : refutes p17 nl p5 gf c f = true -> ~ C16_full p17 nl p5.
Proof.
  unfold refutes. intros H Hfull.
  apply andb_true_iff in H as [H H4]. apply andb_true_iff in H as [H H3]. apply andb_true_iff in H as [H1 H2].
  apply mem_path_In in H2. specialize (Hfull gf c f H1 H2 H3). unfold run1 in H4. rewrite Hfull in H4. discriminate.
Qed.

(* P5: `xvc file move a.txt v.txt` (copy -> copy): the rename branch writes no rule *)
Definition st_a_tracked : gfiles := run1 false false false init_gf (CTrack (env0 []) [] [[a_txt]]).
Theorem move_dest_not_ignored_refuted : ~ C16_full false false false.
Proof. apply (refutes_sound _ _ _ st_a_tracked (CMoveRename (env0 []) [[v_txt]]) [v_txt]). vm_compute. reflexivity. Qed.
(* with the repair the destination gets its rule *)
Example move_dest_ignored_when_fixed :
  ignored (run1 false false true st_a_tracked (CMoveRename (env0 []) [[v_txt]])) [v_txt] = true.
Proof. vm_compute. reflexivity. Qed.

(* P25 (root cause P17): sub/.gitignore contains `data.bin`; `xvc file track other/data.bin` *)
Definition st_p25 : gfiles := init_gf ++ [([n_sub], data_bin ++ [10])].
Definition c_p25 : cmd := CTrack (env0 [[n_sub]; [n_other]]) [] [[n_other; data_bin]].
Theorem engine_mismatch_nonlocal_refuted : ~ C16_full false false false.
Proof. apply (refutes_sound _ _ _ st_p25 c_p25 [n_other; data_bin]). vm_compute. reflexivity. Qed.
Example p25_is_in_class_and_gone_with_locality :
  K_engine_mismatch rules (xvc_build false) (xvc_chk false) false st_p25 c_p25 [n_other; data_bin] = true /\
  K_engine_mismatch rules (xvc_build true) (xvc_chk true) false st_p25 c_p25 [n_other; data_bin] = false /\
  ignored (run1 true false false st_p25 c_p25) [n_other; data_bin] = true.
Proof. vm_compute. repeat split. Qed.

(* P26: root .gitignore `*.dat` / `!keep.dat`; `xvc file track keep.dat`: error, nothing appended *)
Definition st_p26 : gfiles := [([], init_content ++ [42; 46; 100; 97; 116; 10; 33; 107; 101; 101; 112; 46; 100; 97; 116; 10])].
Definition c_p26 : cmd := CTrack (env0 []) [] [[keep_dat]].
Theorem user_whitelist_refuted : ~ C16_full true true true.
Proof. apply (refutes_sound _ _ _ st_p26 c_p26 [keep_dat]). vm_compute. reflexivity. Qed.
Example p26_is_in_class :
  K_user_whitelist rules (xvc_build true) (xvc_chk true) true st_p26 c_p26 [keep_dat] = true /\
  content (run1 true true true st_p26 c_p26) [] = content st_p26 [].
Proof. vm_compute. repeat split. Qed.

(* anchored rules float: xvc's own `/a.txt` (written for a.txt) makes it skip d/a.txt -- with every repair *)
Definition c_da : cmd := CTrack (env0 [[n_d]]) [] [[n_d; a_txt]].
Theorem engine_mismatch_anchored_refuted : ~ C16_full true true true.
Proof.
  apply (refutes_sound _ _ _ (run1 true true true init_gf (CTrack (env0 [[n_d]]) [] [[a_txt]])) c_da [n_d; a_txt]).
  vm_compute. reflexivity.
Qed.
Example anchored_is_in_class :
  K_engine_mismatch rules (xvc_build true) (xvc_chk true) true
    (run1 true true true init_gf (CTrack (env0 [[n_d]]) [] [[a_txt]])) c_da [n_d; a_txt] = true.
Proof. vm_compute. reflexivity. Qed.

(* a name-only line of a nested file matched against the whole path: d/e/.gitignore = `e/`, track d/e/x.bin;
   the locality repair does not help (the path IS below d/e) *)
Definition n_e : gname := [101].
Definition st_above : gfiles := init_gf ++ [([n_d; n_e], [101; 47; 10])].
Definition c_above : cmd := CTrack (env0 [[n_d]; [n_d; n_e]]) [] [[n_d; n_e; x_bin]].
Theorem engine_mismatch_nested_above_refuted : ~ C16_full true true true.
Proof. apply (refutes_sound _ _ _ st_above c_above [n_d; n_e; x_bin]). vm_compute. reflexivity. Qed.
Example nested_above_is_in_class :
  K_engine_mismatch rules (xvc_build true) (xvc_chk true) true st_above c_above [n_d; n_e; x_bin] = true.
Proof. vm_compute. reflexivity. Qed.

(* names outside plain_name: m/a[1].txt is written as the character class `/a[1].txt` *)
Definition a1_txt : gname := [97; 91; 49; 93; 46; 116; 120; 116].
Theorem special_name_refuted : ~ C16_full true true true.
Proof.
  apply (refutes_sound _ _ _ init_gf (CTrack (env0 [[n_m]]) [] [[n_m; a1_txt]]) [n_m; a1_txt]).
  vm_compute. reflexivity.
Qed.
Example special_name_not_plain : plain_path [n_m; a1_txt] = false /\ plain_path [n_m; a_txt] = true.
Proof. vm_compute. split; reflexivity. Qed.

(* an unterminated last line: d/.gitignore = `*.bin` (no line break) ignores d/x.bin; tracking d/y.txt
   appends the block to that line and d/x.bin is no longer ignored.  Stability needs nl_ok. *)
Definition st_unterm : gfiles := init_gf ++ [([n_d], [42; 46; 98; 105; 110])].
Definition c_unterm : cmd := CTrack (env0 [[n_d]]) [] [[n_d; y_txt]].
Theorem ignored_stable_refuted_unterminated :
  exists gf cs p, supported gf = true /\ forallb wf_cmd cs = true /\ ignored gf p = true /\
                  ignored (xvc_run false false false gf cs) p = false.
Proof. exists st_unterm, [c_unterm], [n_d; x_bin]. vm_compute. repeat split. Qed.
Example unterminated_repaired_by_fixed_nl :
  ignored (xvc_run false true false st_unterm [c_unterm]) [n_d; x_bin] = true /\
  all_end_nl st_unterm = false.
Proof. vm_compute. split; reflexivity. Qed.

(* non-vacuity: a history on which every hypothesis of the theorems holds and rules ARE written:
   track the directory d and the file a.txt, then the handler materialises x/b.txt in a new directory *)
Definition h_cmds : list cmd :=
  [CTrack (env0 [[n_d]]) [[n_d]] [[a_txt]; [n_d; b_txt]];
   CHandler (env0 [[n_d]; [n_x]]) [IgnDir [n_x]; IgnFile [n_x; b_txt]]].
Example hypotheses_met :
  nl_ok false init_gf /\ forallb wf_cmd h_cmds = true /\
  (let c := CTrack (env0 [[n_d]]) [[n_d]] [[a_txt]; [n_d; b_txt]] in
   snd (run_cmd rules (xvc_build false) (xvc_chk false) false false init_gf c) = true /\
   K_user_whitelist rules (xvc_build false) (xvc_chk false) false init_gf c [a_txt] = false /\
   K_engine_mismatch rules (xvc_build false) (xvc_chk false) false init_gf c [a_txt] = false /\
   K_engine_mismatch rules (xvc_build false) (xvc_chk false) false init_gf c [n_d; b_txt] = false) /\
  ignored (xvc_run false false false init_gf h_cmds) [a_txt] = true /\
  ignored (xvc_run false false false init_gf h_cmds) [n_d; b_txt] = true /\
  ignored (xvc_run false false false init_gf h_cmds) [n_x; b_txt] = true /\
  ignored init_gf [a_txt] = false /\
  content (xvc_run false false false init_gf h_cmds) [] <> content init_gf [].
Proof.
  split; [right; apply all_end_nl_content; vm_compute; reflexivity|].
  vm_compute. repeat split; discriminate.
Qed.
