(* C17 -- Each recheck method materialises what it promises.
   Property theorems only: statement, [exact] of a lemma of Repo/Restore.v, [Check] pins, [Example]s
   (non-vacuity; two classes in which the code does NOT do what the property says, by vm_compute),
   [Print Assumptions].

   [materialised f p a m c] (Repo/Restore.v): the workspace entry at p reads c and is
     Copy | Reflink : a regular file with a WRITABLE inode that no cache address uses
                      (reflink is a copy: the feature is off in the default build),
     Hardlink       : a regular file with the SAME inode as the object at address a, read-only,
     Symlink        : a symbolic link to address a.
   [reachable_r], [committed]: as in Props/C01.v. *)
From Coq Require Import List Bool NArith.
From XV Require Import Base.Amap Base.Bytes Repo.Model Repo.Proofs Repo.Inv Repo.Restore Repo.Stamps Repo.Main Repo.Fix Repo.FixProofs.
Import ListNotations.

(* 1. (core, recheck) after deletion, recheck materialises the committed bytes with the method
      REQUESTED, else the method STORED for the path (method_resolution), and records that method *)
Theorem method_materialises_recheck r p c o :
  reachable_r r -> committed r p c ->
  exists e x d, find_path (recs r) p = Some (e, x) /\ r_digest x = Some d /\
    materialised (fs (run_items r [UDelete p; XRecheck o [p]])) p (cache_addr p d)
                 (match k_method o with Some m => m | None => r_method x end) c /\
    find_path (recs (run_items r [UDelete p; XRecheck o [p]])) p =
      Some (e, with_method x (match k_method o with Some m => m | None => r_method x end)).
Proof. exact (fun Hr => recheck_materialises r p c o (reachable_r_INV r Hr)). Qed.

(* 1'. (core, track) a track that commits p materialises it with the method requested on the command
       line, else the configured default *)
Theorem method_materialises_track o r p a m :
  reachable_r r -> track_one_call o (walked_of [p]) r p = Some (a, m) -> relink (fs r) p a (t_force o) = false ->
  snd (do_item r (XTrack o [p])) = Ok /\
  m = (match t_method o with Some m => m | None => cfg_method r end) /\
  exists c', committed (fst (do_item r (XTrack o [p]))) p c' /\
             materialised (fs (fst (do_item r (XTrack o [p])))) p a m c' /\
             (alias_meet (fs r) p a (t_force o) = false -> ws_read (fs r) p = Some c').
Proof. exact (track_commits_final o r p a m). Qed.

(* 2. editing a copy (in place, through the entry) leaves EVERY cache object unchanged *)
Theorem copy_independent f p a m c c2 b :
  FI f -> (m = Copy \/ m = Reflink) -> materialised f p a m c ->
  obj_read (user_write_through f p c2) b = obj_read f b /\ ws_read (user_write_through f p c2) p = Some c2.
Proof. exact (Restore.copy_independent f p a m c c2 b). Qed.

(* contrast: a hard link IS the object (same inode); the in-place write is refused because it is read-only *)
Theorem hardlink_is_the_object f p a c :
  FI f -> materialised f p a Hardlink c ->
  (exists i, wget f p = Some (EFile i) /\ oget f a = Some (EFile i)) /\ forall c2, user_write_through f p c2 = f.
Proof. exact (hardlink_shares_object f p a c). Qed.

Theorem symlink_points_to_the_object f p a c :
  FI f -> materialised f p a Symlink c -> wget f p = Some (ELink a) /\ obj_read f a = Some c.
Proof. exact (symlink_reads_object f p a c). Qed.

(* 3. rechecking a present, unmodified entry with another method replaces it accordingly *)
Theorem method_change_replaces_entry r p c m e x d :
  reachable_r r -> committed r p c -> find_path (recs r) p = Some (e, x) -> r_digest x = Some d -> m <> r_method x ->
  ws_exists (fs r) p = true -> (forall d', digest_diff r x (cfg_algo r) (r_tob x) <> DDifferent d') ->
  materialised (fs (fst (do_item r (XRecheck {| k_method := Some m; k_force := false |} [p])))) p (cache_addr p d) m c /\
  find_path (recs (fst (do_item r (XRecheck {| k_method := Some m; k_force := false |} [p])))) p = Some (e, with_method x m).
Proof. exact (fun Hr => Restore.method_change_replaces_entry r p c m e x d (reachable_r_INV r Hr)). Qed.

(* 4. the method recorded for a path is the one used the next time it is restored without --recheck-method *)
Theorem stored_method_used_next_time r p c m :
  reachable_r r -> committed r p c ->
  exists d, materialised
    (fs (run_items (run_items r [UDelete p; XRecheck {| k_method := Some m; k_force := false |} [p]])
                   [UDelete p; XRecheck {| k_method := None; k_force := false |} [p]]))
    p (cache_addr p d) m c.
Proof. exact (fun Hr => Restore.stored_method_used_next_time r p c m (reachable_r_INV r Hr)). Qed.

(* ---- the statements are pinned ----------------------------------------------------------------------------- *)
Check method_materialises_recheck : forall r p c o, reachable_r r -> committed r p c ->
  exists e x d, find_path (recs r) p = Some (e, x) /\ r_digest x = Some d /\
    materialised (fs (run_items r [UDelete p; XRecheck o [p]])) p (cache_addr p d)
                 (match k_method o with Some m => m | None => r_method x end) c /\
    find_path (recs (run_items r [UDelete p; XRecheck o [p]])) p =
      Some (e, with_method x (match k_method o with Some m => m | None => r_method x end)).
Check copy_independent : forall f p a m c c2 b, FI f -> (m = Copy \/ m = Reflink) -> materialised f p a m c ->
  obj_read (user_write_through f p c2) b = obj_read f b /\ ws_read (user_write_through f p c2) p = Some c2.
Check stored_method_used_next_time : forall r p c m, reachable_r r -> committed r p c ->
  exists d, materialised
    (fs (run_items (run_items r [UDelete p; XRecheck {| k_method := Some m; k_force := false |} [p]])
                   [UDelete p; XRecheck {| k_method := None; k_force := false |} [p]]))
    p (cache_addr p d) m c.

(* ---- concrete histories ---------------------------------------------------------------------------------------- *)
Definition p_txt : path := [112; 46; 116; 120; 116]%N.
Definition q_txt : path := [113; 46; 116; 120; 116]%N.
Definition same : bytes := [115; 97; 109; 101]%N.
Definition edit : bytes := [101; 100; 105; 116]%N.
Definition t0 : track_opts := {| t_method := None; t_tob := None; t_no_commit := false; t_force := false |}.
Definition r0 : repo := init_repo B3 Copy Auto.
Definition addr_same : caddr := cache_addr p_txt (digest_of B3 Text same).
Definition rk (m : method) : recheck_opts := {| k_method := Some m; k_force := false |}.

(* non-vacuity: the chain copy -> symlink -> hardlink -> copy on one path, with an edit of the copy *)
Definition h_chain : list item :=
  [UWrite p_txt same; XTrack t0 [p_txt]; XRecheck (rk Symlink) [p_txt]; XRecheck (rk Hardlink) [p_txt];
   XRecheck (rk Copy) [p_txt]].
Example chain_nonvacuous :
  reachable_r (run_items r0 h_chain) /\ committed (run_items r0 h_chain) p_txt same /\
  materialised (fs (run_items r0 h_chain)) p_txt addr_same Copy same /\
  materialised (fs (run_items r0 [UWrite p_txt same; XTrack t0 [p_txt]; XRecheck (rk Symlink) [p_txt]])) p_txt addr_same Symlink same /\
  materialised (fs (run_items r0 [UWrite p_txt same; XTrack t0 [p_txt]; XRecheck (rk Symlink) [p_txt]; XRecheck (rk Hardlink) [p_txt]]))
               p_txt addr_same Hardlink same /\
  obj_read (fs (run_items r0 (h_chain ++ [UWriteThrough p_txt edit]))) addr_same = Some same /\
  ws_read (fs (run_items r0 (h_chain ++ [UWriteThrough p_txt edit]))) p_txt = Some edit.
Proof.
  split; [apply reachable_r_run; vm_compute; reflexivity|].
  split; [eexists _, _, _; vm_compute; repeat split; discriminate|].
  split.
  { split; [vm_compute; reflexivity|]. exists 3%N. eexists.
    split; [vm_compute; reflexivity|split; [vm_compute; reflexivity|split; [reflexivity|]]].
    intros b H. unfold oget in H. apply (get_In _ caddr_eqb_spec) in H. vm_compute in H.
    destruct H as [H|[]]. discriminate H. }
  split; [split; vm_compute; reflexivity|].
  split; [split; [vm_compute; reflexivity|]; exists 1%N; eexists; vm_compute; repeat split|].
  vm_compute. split; reflexivity.
Qed.

(* ---- two classes in which the property fails (genuine findings, replayed on the binary) ---------------------- *)
(* after a successful track with an explicit method, the entry of every target is of the kind recorded for it *)
Definition C17_track_full : Prop := forall r o ps p e x, reachable_r r ->
  snd (do_item r (XTrack o ps)) = Ok -> In p ps ->
  find_path (recs (fst (do_item r (XTrack o ps)))) p = Some (e, x) -> t_method o = Some (r_method x) ->
  exists a c, materialised (fs (fst (do_item r (XTrack o ps)))) p a (r_method x) c.

(* class forced-duplicate: track --force --recheck-method hardlink of two files with equal content: the
   second target replaces the object the first was just linked to; the first is left a writable regular
   file that is not linked to the cache *)
Definition t_hard_force : track_opts := {| t_method := Some Hardlink; t_tob := None; t_no_commit := false; t_force := true |}.
Example forced_duplicate_refuted : ~ C17_track_full.
Proof.
  intros H.
  assert (R : reachable_r (run_items r0 [UWrite p_txt same; UWrite q_txt same])) by (apply reachable_r_run; vm_compute; reflexivity).
  edestruct (H (run_items r0 [UWrite p_txt same; UWrite q_txt same]) t_hard_force [q_txt; p_txt] q_txt) as (a & c & _ & M);
    [exact R|vm_compute; reflexivity|left; reflexivity|vm_compute; reflexivity|vm_compute; reflexivity|].
  cbn [r_method] in M. destruct M as (i & n & Hw & _ & Hi & Hro).
  vm_compute in Hw. injection Hw as <-. vm_compute in Hi. injection Hi as <-. discriminate Hro.
Qed.

(* class track-method-unchanged-content: track --recheck-method symlink of a tracked file whose metadata
   changed (touch) but whose content did not: the method is recorded, the entry stays a copy *)
Definition t_sym : track_opts := {| t_method := Some Symlink; t_tob := None; t_no_commit := false; t_force := false |}.
Example track_method_unchanged_refuted : ~ C17_track_full.
Proof.
  intros H.
  assert (R : reachable_r (run_items r0 [UWrite p_txt same; XTrack t0 [p_txt]; UTouch p_txt])) by (apply reachable_r_run; vm_compute; reflexivity).
  edestruct (H (run_items r0 [UWrite p_txt same; XTrack t0 [p_txt]; UTouch p_txt]) t_sym [p_txt] p_txt) as (a & c & _ & M);
    [exact R|vm_compute; reflexivity|left; reflexivity|vm_compute; reflexivity|vm_compute; reflexivity|].
  cbn [r_method] in M. vm_compute in M. discriminate M.
Qed.

(* ==== the code with the repairs of P44 / P42 and P41 behind switches (Repo/Fix.v) ====================================
   [reachable_x fx r]: r is reached by ANY history of the commands with switches fx, outside K_x fx (Props/C02.v:
   relink while P41 is not repaired, a symbolic link gone stale inside a forced carry-in).
   [calls_x fx o w (r, []) ps]: the (target, address, method) triples of the carry_in calls that `track o ps` makes,
   in visiting order -- the targets whose content the command commits (new, or changed content). *)

(* 1x. recheck, for every value of the switches *)
Theorem method_materialises_recheck_x fx r p c o :
  reachable_x fx r -> committed r p c ->
  exists e x d, find_path (recs r) p = Some (e, x) /\ r_digest x = Some d /\
    materialised (fs (run_items_x fx r [UDelete p; XRecheck o [p]])) p (cache_addr p d)
                 (match k_method o with Some m => m | None => r_method x end) c /\
    find_path (recs (run_items_x fx r [UDelete p; XRecheck o [p]])) p =
      Some (e, with_method x (match k_method o with Some m => m | None => r_method x end)).
Proof. exact (recheck_materialises_x fx r p c o). Qed.

(* 1'x. ONE track command with ANY number of targets: every target it commits ends materialised with the method
   requested on the command line, else the configured default, from the object its record names -- whatever the
   other targets are (equal content, so equal addresses; --force; any visiting order), outside
     K_forced_duplicate = the command is forced, two of its calls have the same address, and P44 / P42 is not repaired.
   The command does not panic. *)
Theorem method_materialises_track_all fx o ps r :
  reachable_x fx r -> NoDup ps -> K_item_x fx r (XTrack o ps) = false -> K_forced_duplicate fx r o ps = false ->
  snd (do_item_x fx r (XTrack o ps)) <> Panic /\
  forall p a m, In (p, a, m) (calls_x fx o (walked_of ps) (r, []) ps) ->
    In p ps /\ m = (match t_method o with Some m => m | None => cfg_method r end) /\
    exists c, committed (fst (do_item_x fx r (XTrack o ps))) p c /\
              materialised (fs (fst (do_item_x fx r (XTrack o ps)))) p a m c /\
              obj_read (fs (fst (do_item_x fx r (XTrack o ps)))) a = Some c.
Proof. exact (track_all_materialised fx o ps r). Qed.

(* the class forced-duplicate is empty once P44 / P42 is repaired ... *)
Theorem forced_duplicate_class_empty_when_fixed fx r o ps : fixed_P44 fx = true -> K_forced_duplicate fx r o ps = false.
Proof. exact (FixProofs.forced_duplicate_class_empty_when_fixed fx r o ps). Qed.

(* ... and the statement holds without it: the full statement of the findings P42 and (its sequential content) P44 *)
Definition C17_duplicates_full (fx : fixes) : Prop := forall r o ps p a m,
  reachable_x fx r -> NoDup ps -> K_item_x fx r (XTrack o ps) = false ->
  In (p, a, m) (calls_x fx o (walked_of ps) (r, []) ps) ->
  exists c, materialised (fs (fst (do_item_x fx r (XTrack o ps)))) p a m c.

Theorem C17_duplicates_full_fixed fx : fixed_P44 fx = true -> C17_duplicates_full fx.
Proof.
  exact (fun H r o ps p a m Hr ND G Hin =>
    match proj2 (track_all_materialised fx o ps r Hr ND G (FixProofs.forced_duplicate_class_empty_when_fixed fx r o ps H)) p a m Hin with
    | conj _ (conj _ (ex_intro _ c (conj _ (conj M _)))) => ex_intro _ c M
    end).
Qed.

(* P43: `track --recheck-method m` on a path that is tracked already and whose content did not change.  The book
   (start/ml.md) promises that it replaces the entry ("replaces previous symlinks with the copies of the files").
   As the code was it recorded m after a touch and never touched the entry (track_method_unchanged_refuted above);
   repaired, the entry is re-materialised with m and m is recorded.  The class of the finding is empty once repaired. *)
Theorem track_method_unchanged_fixed fx o r p c m e x d :
  fixed_P43 fx = true -> reachable_x fx r -> committed r p c ->
  find_path (recs r) p = Some (e, x) -> r_digest x = Some d -> t_method o = Some m -> m <> r_method x ->
  ws_read (fs r) p = Some c ->
  digest_of (cfg_algo r) (match t_tob o with Some t => t | None => cfg_tob r end) c = d -> digest_of (cfg_algo r) (r_tob x) c = d ->
  snd (do_item_x fx r (XTrack o [p])) = Ok /\
  materialised (fs (fst (do_item_x fx r (XTrack o [p])))) p (cache_addr p d) m c /\
  exists x', find_path (recs (fst (do_item_x fx r (XTrack o [p])))) p = Some (e, x') /\ r_method x' = m /\ r_digest x' = Some d.
Proof. exact (FixProofs.track_method_unchanged_fixed fx o r p c m e x d). Qed.

Theorem track_unchanged_class_empty_when_fixed fx o r p : fixed_P43 fx = true -> K_track_unchanged fx o r p = false.
Proof. exact (FixProofs.track_unchanged_class_empty_when_fixed fx o r p). Qed.

Check method_materialises_track_all : forall fx o ps r,
  reachable_x fx r -> NoDup ps -> K_item_x fx r (XTrack o ps) = false -> K_forced_duplicate fx r o ps = false ->
  snd (do_item_x fx r (XTrack o ps)) <> Panic /\
  forall p a m, In (p, a, m) (calls_x fx o (walked_of ps) (r, []) ps) ->
    In p ps /\ m = (match t_method o with Some m => m | None => cfg_method r end) /\
    exists c, committed (fst (do_item_x fx r (XTrack o ps))) p c /\
              materialised (fs (fst (do_item_x fx r (XTrack o ps)))) p a m c /\
              obj_read (fs (fst (do_item_x fx r (XTrack o ps)))) a = Some c.
Check C17_duplicates_full_fixed : forall fx, fixed_P44 fx = true -> C17_duplicates_full fx.

(* the witness of P42 in the model of the code as it is: in the class, and the first target is left unlinked;
   in the repaired model: outside every class, both targets are hard links to the one object *)
Definition r_dup : repo := run_items r0 [UWrite p_txt same; UWrite q_txt same].
Example duplicates_refuted_as_is : ~ C17_duplicates_full as_is.
Proof.
  intros H.
  assert (R : reachable_x as_is r_dup).
  { apply (reachable_x_run as_is B3 Copy Auto [UWrite p_txt same; UWrite q_txt same]). vm_compute. reflexivity. }
  destruct (H r_dup t_hard_force [q_txt; p_txt] q_txt addr_same Hardlink R) as (c & _ & M).
  - repeat constructor; [intros [E|[]]; discriminate E|intros []].
  - vm_compute. reflexivity.
  - vm_compute. left. reflexivity.
  - destruct M as (i & n & Hw & Ho & _). vm_compute in Hw. injection Hw as <-. vm_compute in Ho. discriminate Ho.
Qed.
Example duplicates_witness_classes :
  K_forced_duplicate as_is r_dup t_hard_force [q_txt; p_txt] = true /\
  K_forced_duplicate all_fixed r_dup t_hard_force [q_txt; p_txt] = false /\
  K_item_x all_fixed r_dup (XTrack t_hard_force [q_txt; p_txt]) = false.
Proof. vm_compute. repeat split. Qed.
Example duplicates_repaired :
  materialised (fs (fst (do_item_x all_fixed r_dup (XTrack t_hard_force [q_txt; p_txt])))) q_txt addr_same Hardlink same /\
  materialised (fs (fst (do_item_x all_fixed r_dup (XTrack t_hard_force [q_txt; p_txt])))) p_txt addr_same Hardlink same /\
  snd (do_item_x all_fixed r_dup (XTrack t_hard_force [q_txt; p_txt])) = Ok.
Proof.
  split; [|split; [|vm_compute; reflexivity]].
  - split; [vm_compute; reflexivity|]. exists 2%N. eexists. vm_compute. repeat split.
  - split; [vm_compute; reflexivity|]. exists 2%N. eexists. vm_compute. repeat split.
Qed.

(* the witness of P43 in both models: touch + track --recheck-method symlink *)
Definition r_touched : repo := run_items r0 [UWrite p_txt same; XTrack t0 [p_txt]; UTouch p_txt].
Example track_method_unchanged_witness :
  K_track_unchanged as_is t_sym r_touched p_txt = true /\ K_track_unchanged all_fixed t_sym r_touched p_txt = false /\
  wget (fs (fst (do_item_x as_is r_touched (XTrack t_sym [p_txt])))) p_txt = Some (EFile 2%N) /\
  wget (fs (fst (do_item_x all_fixed r_touched (XTrack t_sym [p_txt])))) p_txt = Some (ELink addr_same) /\
  ws_read (fs (fst (do_item_x all_fixed r_touched (XTrack t_sym [p_txt])))) p_txt = Some same.
Proof. vm_compute. repeat split. Qed.
(* the scenario of the book: everything tracked as symbolic links, then `track --recheck-method copy` of one path
   (no touch: the path is a link; track itself skips it, the recheck at the end replaces it) *)
Definition t_copy : track_opts := {| t_method := Some Copy; t_tob := None; t_no_commit := false; t_force := false |}.
Example track_method_book_scenario :
  let r := run_items_x all_fixed r0 [UWrite p_txt same; UWrite q_txt edit; XTrack t_sym [p_txt; q_txt]] in
  wget (fs r) p_txt = Some (ELink addr_same) /\
  materialised (fs (fst (do_item_x all_fixed r (XTrack t_copy [p_txt])))) p_txt addr_same Copy same /\
  wget (fs (fst (do_item_x all_fixed r (XTrack t_copy [p_txt])))) q_txt = wget (fs r) q_txt /\
  wget (fs (fst (do_item_x as_is r (XTrack t_copy [p_txt])))) p_txt = Some (ELink addr_same).
Proof.
  cbv zeta. split; [vm_compute; reflexivity|]. split; [|split; vm_compute; reflexivity].
  split; [vm_compute; reflexivity|]. eexists _, _. split; [vm_compute; reflexivity|split; [vm_compute; reflexivity|split; [reflexivity|]]].
  intros b H. unfold oget in H. apply (get_In _ caddr_eqb_spec) in H. vm_compute in H.
  destruct H as [H|[H|[]]]; discriminate H.
Qed.

Print Assumptions method_materialises_recheck.
Print Assumptions method_materialises_track.
Print Assumptions copy_independent.
Print Assumptions hardlink_is_the_object.
Print Assumptions symlink_points_to_the_object.
Print Assumptions method_change_replaces_entry.
Print Assumptions stored_method_used_next_time.
Print Assumptions method_materialises_recheck_x.
Print Assumptions method_materialises_track_all.
Print Assumptions forced_duplicate_class_empty_when_fixed.
Print Assumptions C17_duplicates_full_fixed.
Print Assumptions track_method_unchanged_fixed.
Print Assumptions track_unchanged_class_empty_when_fixed.
