(* C01 -- Committed file content is restored byte for byte.
   Property theorems only: statement, [exact] of a lemma of Repo/{Inv,Restore}.v, [Check] pins,
   [Example]s (non-vacuity; the alias class P2 by vm_compute), [Print Assumptions].

   [reachable_r r]: r is reached from an initialised repository by ANY history of user actions and
   track / carry-in / recheck commands outside the class K_relink of Props/C02.v (a commit renames a
   workspace entry that is itself a link into the cache).
   [committed r p c]: the record of p names a digest whose object is in the cache and reads c.
   The hash functions are ideal; what was committed fits the recorded digest (C02: cas_invariant). *)
From Coq Require Import List Bool NArith.
From XV Require Import Base.Amap Base.Bytes Repo.Model Repo.Proofs Repo.Inv Repo.Restore Repo.Stamps Repo.Main Repo.Fix Repo.FixProofs.
Import ListNotations.

(* 1. (core) delete the workspace copy and recheck -- any method requested or stored, with or without
      --force: the committed bytes are back at the path, and stay committed *)
Theorem recheck_restores_committed r p c o :
  reachable_r r -> committed r p c ->
  ws_read (fs (run_items r [UDelete p; XRecheck o [p]])) p = Some c /\
  committed (run_items r [UDelete p; XRecheck o [p]]) p c.
Proof. exact (fun Hr => restore_after_delete r p c o (reachable_r_INV r Hr)). Qed.

(* 2. recheck --force replaces a locally modified copy with the committed bytes, for every method *)
Theorem force_replaces_modified_copy r p c junk m :
  reachable_r r -> committed r p c ->
  ws_read (fs (run_items r [UWrite p junk; XRecheck {| k_method := m; k_force := true |} [p]])) p = Some c /\
  committed (run_items r [UWrite p junk; XRecheck {| k_method := m; k_force := true |} [p]]) p c.
Proof. exact (fun Hr => restore_after_damage r p c junk m (reachable_r_INV r Hr)). Qed.

(* 3. recheck (with --force or not, any targets) never changes which version is recorded: for EVERY path
      the entity, path, metadata, digest, digest history and text-or-binary records are unchanged (after the
      fix of P1; before it the digest record followed the modified workspace file) *)
Theorem force_keeps_recorded_version r o ps q :
  reachable_r r ->
  view_core (find_path (recs (fst (do_item r (XRecheck o ps)))) q) = view_core (find_path (recs r) q).
Proof. exact (fun Hr => recheck_keeps_records r o ps q (reachable_r_INV r Hr)). Qed.

(* 4. a track that commits p (new path, or changed content): the command succeeds, the record names an
      object that reads the same bytes c' as the workspace entry afterwards, and c' is what the user had in
      the workspace unless it met a different byte string at its address (alias, P2) *)
Theorem track_commits_content o r p a m :
  reachable_r r -> track_one_call o (walked_of [p]) r p = Some (a, m) -> relink (fs r) p a (t_force o) = false ->
  snd (do_item r (XTrack o [p])) = Ok /\ m = track_method o r /\
  exists c', committed (fst (do_item r (XTrack o [p]))) p c' /\
             materialised (fs (fst (do_item r (XTrack o [p])))) p a m c' /\
             (alias_meet (fs r) p a (t_force o) = false -> ws_read (fs r) p = Some c').
Proof. exact (track_commits_final o r p a m). Qed.

Theorem track_then_recheck_restores o r p a m c ko :
  reachable_r r -> track_one_call o (walked_of [p]) r p = Some (a, m) ->
  relink (fs r) p a (t_force o) = false -> alias_meet (fs r) p a (t_force o) = false ->
  ws_read (fs r) p = Some c ->
  ws_read (fs (run_items r [XTrack o [p]; UDelete p; XRecheck ko [p]])) p = Some c.
Proof. exact (track_then_restore_final o r p a m c ko). Qed.

(* 5. this stays true after ANY later history of user actions (also on p itself), rechecks of any paths
      with any method, and track / carry-in commands without --force on other paths *)
Theorem stays_restorable r h p c o :
  reachable_r r -> committed r p c -> mon_run relink r h = false -> forallb (harmless p) h = true ->
  ws_read (fs (run_items (run_items r h) [UDelete p; XRecheck o [p]])) p = Some c.
Proof. exact (stays_restorable_final r h p c o). Qed.

(* ---- the statements are pinned ------------------------------------------------------------------------- *)
Check recheck_restores_committed : forall r p c o, reachable_r r -> committed r p c ->
  ws_read (fs (run_items r [UDelete p; XRecheck o [p]])) p = Some c /\
  committed (run_items r [UDelete p; XRecheck o [p]]) p c.
Check force_keeps_recorded_version : forall r o ps q, reachable_r r ->
  view_core (find_path (recs (fst (do_item r (XRecheck o ps)))) q) = view_core (find_path (recs r) q).
Check stays_restorable : forall r h p c o, reachable_r r -> committed r p c -> mon_run relink r h = false ->
  forallb (harmless p) h = true ->
  ws_read (fs (run_items (run_items r h) [UDelete p; XRecheck o [p]])) p = Some c.

(* ---- concrete histories ------------------------------------------------------------------------------------ *)
Definition a_txt : path := [97; 46; 116; 120; 116]%N.
Definition b_txt : path := [98; 46; 116; 120; 116]%N.
Definition lf : bytes := [97; 10; 98; 10]%N.            (* "a\nb\n" *)
Definition crlf : bytes := [97; 13; 10; 98; 13; 10]%N.  (* "a\r\nb\r\n" *)
Definition junk : bytes := [106; 117; 110; 107]%N.
Definition t0 : track_opts := {| t_method := None; t_tob := None; t_no_commit := false; t_force := false |}.
Definition r0 : repo := init_repo B3 Copy Auto.

(* non-vacuity: a reachable repository with committed content, restored through a symlink after a later
   history that edits the file, tracks another path and rechecks with other methods *)
Definition h1 : list item := [UWrite a_txt crlf; XTrack t0 [a_txt]].
Definition h2 : list item :=
  [UWrite a_txt junk; UWrite b_txt junk; XTrack t0 [b_txt];
   XRecheck {| k_method := Some Hardlink; k_force := true |} [a_txt; b_txt]; UWriteThrough b_txt lf].
Example restorable_nonvacuous :
  reachable_r (run_items r0 h1) /\ committed (run_items r0 h1) a_txt crlf /\
  mon_run relink (run_items r0 h1) h2 = false /\ forallb (harmless a_txt) h2 = true /\
  ws_read (fs (run_items (run_items r0 h1) h2)) a_txt = Some crlf /\
  track_one_call t0 (walked_of [a_txt]) (run_items r0 [UWrite a_txt crlf]) a_txt =
    Some (cache_addr a_txt (digest_of B3 Text crlf), Copy).
Proof.
  split; [apply reachable_r_run; vm_compute; reflexivity|].
  split; [|vm_compute; repeat split].
  eexists _, _, _. vm_compute. repeat split. discriminate.
Qed.

(* ---- P2 (alias): the full statement is false of the faithful model ------------------------------------------ *)
Definition C01_full : Prop := forall r p c o, reachable_r r ->
  ws_read (fs r) p = Some c -> find_path (recs r) p = None -> snd (do_item r (XTrack t0 [p])) = Ok ->
  ws_read (fs (run_items r [XTrack t0 [p]; UDelete p; XRecheck o [p]])) p = Some c.

(* printf 'a\nb\n' > a.txt; printf 'a\r\nb\r\n' > b.txt; track a.txt; track b.txt: b.txt loses its CR bytes *)
Definition h_p2 : list item := [UWrite a_txt lf; UWrite b_txt crlf; XTrack t0 [a_txt]].
Example alias_refuted : ~ C01_full.
Proof.
  intros H.
  assert (R : reachable_r (run_items r0 h_p2)) by (apply reachable_r_run; vm_compute; reflexivity).
  specialize (H (run_items r0 h_p2) b_txt crlf {| k_method := None; k_force := false |} R).
  assert (E : ws_read (fs (run_items (run_items r0 h_p2) [XTrack t0 [b_txt]])) b_txt = Some lf) by (vm_compute; reflexivity).
  assert (E2 : Some lf = Some crlf).
  { rewrite <- H; vm_compute; reflexivity. }
  discriminate E2.
Qed.
Example alias_witness_in_class :
  alias_meet (fs (run_items r0 h_p2)) b_txt (cache_addr b_txt (digest_of B3 Text crlf)) false = true /\
  ws_read (fs (run_items (run_items r0 h_p2) [XTrack t0 [b_txt]])) b_txt = Some lf.
Proof. vm_compute. split; reflexivity. Qed.

(* ==== the code with the repairs of P44 / P42 and P41 behind switches (Repo/Fix.v) ====================================
   [reachable_x fx r]: reached by ANY history of the commands with switches fx outside K_x fx (Props/C02.v); with both
   switches off this is the model above (Props/C02.v model_with_switches_off), with P41 repaired the class relink is
   empty (Props/C02.v relink_class_empty_when_fixed). *)
Theorem recheck_restores_committed_x fx r p c o :
  reachable_x fx r -> committed r p c ->
  ws_read (fs (run_items_x fx r [UDelete p; XRecheck o [p]])) p = Some c /\
  committed (run_items_x fx r [UDelete p; XRecheck o [p]]) p c.
Proof. exact (restore_after_delete_x fx r p c o). Qed.

Theorem force_replaces_modified_copy_x fx r p c junk m :
  reachable_x fx r -> committed r p c ->
  ws_read (fs (run_items_x fx r [UWrite p junk; XRecheck {| k_method := m; k_force := true |} [p]])) p = Some c /\
  committed (run_items_x fx r [UWrite p junk; XRecheck {| k_method := m; k_force := true |} [p]]) p c.
Proof. exact (restore_after_damage_x fx r p c junk m). Qed.

(* ONE track command with any number of targets (equal content, --force, any visiting order): every target it
   commits is recorded with the address of an object that reads the same bytes as the workspace entry afterwards;
   then delete + recheck gives these bytes back.  (K_forced_duplicate: Props/C17.v; empty once P44 / P42 is repaired.) *)
Theorem track_all_commit_content fx o ps r :
  reachable_x fx r -> NoDup ps -> K_item_x fx r (XTrack o ps) = false -> K_forced_duplicate fx r o ps = false ->
  snd (do_item_x fx r (XTrack o ps)) <> Panic /\
  forall p a m, In (p, a, m) (calls_x fx o (walked_of ps) (r, []) ps) ->
    In p ps /\ m = (match t_method o with Some m => m | None => cfg_method r end) /\
    exists c, committed (fst (do_item_x fx r (XTrack o ps))) p c /\
              materialised (fs (fst (do_item_x fx r (XTrack o ps)))) p a m c /\
              obj_read (fs (fst (do_item_x fx r (XTrack o ps)))) a = Some c.
Proof. exact (track_all_materialised fx o ps r). Qed.

Theorem stays_restorable_x fx r h p c o :
  reachable_x fx r -> committed r p c -> K_x fx r h = false -> forallb (harmless p) h = true ->
  ws_read (fs (run_items_x fx (run_items_x fx r h) [UDelete p; XRecheck o [p]])) p = Some c.
Proof. exact (FixProofs.stays_restorable_x fx r h p c o). Qed.

(* P49: a carry-in that names a path missing from the workspace.  As the code was, the length assertion of carry_in()
   panicked and nothing was committed (carry_in_missing_target_panics_as_is); repaired, the path is left alone, what is
   committed for it stays committed (and restorable: recheck_restores_committed_x), the other targets are carried in *)
Theorem carry_in_keeps_missing_target fx o r ps p c :
  fixed_P49 fx = true -> reachable_x fx r -> K_item_x fx r (XCarryIn o ps) = false -> c_force o = false ->
  committed r p c -> wget (fs r) p = None ->
  committed (fst (do_item_x fx r (XCarryIn o ps))) p c.
Proof. exact (FixProofs.carry_in_keeps_missing_target fx o r ps p c). Qed.

Check recheck_restores_committed_x : forall fx r p c o, reachable_x fx r -> committed r p c ->
  ws_read (fs (run_items_x fx r [UDelete p; XRecheck o [p]])) p = Some c /\
  committed (run_items_x fx r [UDelete p; XRecheck o [p]]) p c.

(* non-vacuity in the repaired model: three equal files tracked by one forced command as hard links, one of them
   restored as a copy after deletion *)
Definition c_txt : path := [99; 46; 116; 120; 116]%N.
Definition t_hf : track_opts := {| t_method := Some Hardlink; t_tob := None; t_no_commit := false; t_force := true |}.
Definition h_dups : list item := [UWrite a_txt lf; UWrite b_txt lf; UWrite c_txt lf; XTrack t_hf [b_txt; c_txt; a_txt]].
Example duplicates_nonvacuous :
  reachable_x all_fixed (run_items_x all_fixed r0 h_dups) /\
  committed (run_items_x all_fixed r0 h_dups) a_txt lf /\ committed (run_items_x all_fixed r0 h_dups) b_txt lf /\
  committed (run_items_x all_fixed r0 h_dups) c_txt lf /\
  length (calls_x all_fixed t_hf false (run_items_x all_fixed r0 [UWrite a_txt lf; UWrite b_txt lf; UWrite c_txt lf], []) [b_txt; c_txt; a_txt]) = 3%nat /\
  ws_read (fs (run_items_x all_fixed (run_items_x all_fixed r0 h_dups)
                 [UDelete b_txt; XRecheck {| k_method := Some Copy; k_force := false |} [b_txt]])) b_txt = Some lf.
Proof.
  split; [apply reachable_x_run; vm_compute; reflexivity|].
  split; [eexists _, _, _; vm_compute; repeat split; discriminate|].
  split; [eexists _, _, _; vm_compute; repeat split; discriminate|].
  split; [eexists _, _, _; vm_compute; repeat split; discriminate|].
  vm_compute. split; reflexivity.
Qed.

Definition c_plain : carry_opts := {| c_tob := None; c_force := false |}.
Definition other : bytes := [111; 116; 104; 101; 114]%N.
Definition h_missing : list item := [UWrite a_txt lf; UWrite b_txt junk; XTrack t0 [a_txt; b_txt]; UDelete a_txt; UWrite b_txt other].
Example carry_in_missing_target_panics_as_is :
  snd (do_item_x as_is (run_items_x as_is r0 h_missing) (XCarryIn c_plain [a_txt; b_txt])) = Panic /\
  fst (do_item_x as_is (run_items_x as_is r0 h_missing) (XCarryIn c_plain [a_txt; b_txt])) = run_items_x as_is r0 h_missing.
Proof. vm_compute. split; reflexivity. Qed.
Example carry_in_missing_target_repaired :
  reachable_x all_fixed (run_items_x all_fixed r0 h_missing) /\
  committed (run_items_x all_fixed r0 h_missing) a_txt lf /\ wget (fs (run_items_x all_fixed r0 h_missing)) a_txt = None /\
  K_item_x all_fixed (run_items_x all_fixed r0 h_missing) (XCarryIn c_plain [a_txt; b_txt]) = false /\
  snd (do_item_x all_fixed (run_items_x all_fixed r0 h_missing) (XCarryIn c_plain [a_txt; b_txt])) = Ok /\
  committed (fst (do_item_x all_fixed (run_items_x all_fixed r0 h_missing) (XCarryIn c_plain [a_txt; b_txt]))) b_txt other /\
  ws_read (fs (run_items_x all_fixed r0 (h_missing ++ [XCarryIn c_plain [a_txt; b_txt]; XRecheck {| k_method := None; k_force := false |} [a_txt]]))) a_txt = Some lf.
Proof.
  split; [apply reachable_x_run; vm_compute; reflexivity|].
  split; [eexists _, _, _; vm_compute; repeat split; discriminate|].
  split; [vm_compute; reflexivity|]. split; [vm_compute; reflexivity|]. split; [vm_compute; reflexivity|].
  split; [eexists _, _, _; vm_compute; repeat split; discriminate|vm_compute; reflexivity].
Qed.

Print Assumptions recheck_restores_committed.
Print Assumptions force_replaces_modified_copy.
Print Assumptions force_keeps_recorded_version.
Print Assumptions track_commits_content.
Print Assumptions track_then_recheck_restores.
Print Assumptions stays_restorable.
Print Assumptions recheck_restores_committed_x.
Print Assumptions force_replaces_modified_copy_x.
Print Assumptions track_all_commit_content.
Print Assumptions stays_restorable_x.
Print Assumptions carry_in_keeps_missing_target.
