(* C19 — copy and move preserve content identity without touching content.
   Model: Repo/Ext.v (copy_plan / copy_apply / move_plan / move_apply over Repo/Model.v; the commands as the histories
   run them are copy_cmd3 fl / move_cmd45 fl with the repair switches [flags], read from the source on every check run);
   proofs: Repo/ExtProofs.v, Repo/ExtShare.v (the repair of P3), Repo/ExtReach.v (reachable repositories, the class statement).
   Sections 1-5: the plain commands (= the code without the repair of P3); section 6 and the class section: the repair.
   The theorems speak about EVERY repository state that satisfies the well-formedness predicates
     wf_fs   (the inode table only holds numbers below next_ino),
     wf_recs (entity keys are distinct and below next_ent, no two records have the same path),
   every command line (options, source, destination) and every outcome.
   [holds f a c] = the cache object at address a is a regular file with bytes c ("the committed bytes"). *)
From Coq Require Import List Bool NArith.
From XV Require Import Base.Amap Base.Bytes Repo.Model Repo.Ext Repo.ExtProofs Repo.ExtShare Repo.ExtReach.
Import ListNotations.
Local Open Scope N_scope.

(* ---- 1. copy: every planned pair (source record cs_rec c, destination cd_path c) ------------------------------------
   the destination is tracked with the source's digest, text-or-binary flag, metadata and (unless --as) method
   [copied_as]; OUTSIDE the cross-extension class its address IS the source's, so no object is created or
   touched (the object table is literally unchanged and every object keeps its bytes), and unless --no-recheck
   or a panic the destination reads the committed bytes.  Destinations must be pairwise distinct (two sources
   with one --name-only destination are outside the property). *)
Theorem copy_shares_object o src dst r r' oc plan sk :
  wf_fs (xfs r) -> wf_recs (base r) ->
  copy_plan o src dst r = CPlanned plan sk -> NoDup (map cd_path plan) ->
  copy_cmd o src dst r = (r', oc) ->
  objs (xfs r') = objs (xfs r) /\ (forall a b, holds (xfs r) a b -> holds (xfs r') a b) /\
  wf_recs (base r') /\ wf_fs (xfs r') /\
  forall c, In c plan -> copy_result o r r' oc c.
Proof. exact (copy_cmd_shares o src dst r r' oc plan sk). Qed.

Check copy_result : copy_opts -> xrepo -> xrepo -> outcome -> cpair -> Prop.
Print copy_result.
Print copied_as.

(* what is planned: selected, recorded file sources that are not modified; the destination named on the
   command line; without --force only destinations that are not recorded yet *)
Theorem copy_plans_sources o src dst r plan sk :
  copy_plan o src dst r = CPlanned plan sk ->
  forall c, In c plan ->
    plan_acc (recs (base r)) c /\ (exists e, In (e, cs_rec c) (sources r src)) /\ changed r (cs_rec c) = false /\
    cd_path c = (if ends_slash dst then dest_path (c_name_only o) (removelast dst) (cs_rec c) else dst) /\
    (c_cforce o = false -> pair_taken c = false /\ ws_lexists (xfs r) (cd_path c) = false).
Proof. exact (copy_plan_pairs o src dst r plan sk). Qed.

(* ---- 2. move ------------------------------------------------------------------------------------------------------------ *)
(* the number of tracked files is unchanged; no object is touched; every source path is untracked afterwards and
   the SAME entity is recorded at the destination with its digest, history, text-or-binary flag [move_result];
   when the command succeeds every source path is absent from the workspace *)
Theorem move_preserves_count fl o src dst r r' oc l :
  wf_fs (xfs r) -> wf_recs (base r) -> move_plan src dst r = MPlanned l -> move_cmd fl o src dst r = (r', oc) ->
  length (recs (base r')) = length (recs (base r)) /\
  objs (xfs r') = objs (xfs r) /\ (forall a b, holds (xfs r) a b -> holds (xfs r') a b) /\
  (forall e x d, In (e, x, d) l -> move_result r r' e x d) /\
  (oc = Ok -> forall e x d, In (e, x, d) l -> ws_exists (xfs r') (r_path x) = false).
Proof. exact (move_cmd_spec fl o src dst r r' oc l). Qed.
Print move_result.

(* ---- 3. refusals: the repository is returned unchanged ------------------------------------------------------------- *)
Theorem refuses :
  (forall o src dst r, existsb (changed r) (map snd (sources r src)) = true -> copy_cmd o src dst r = (r, Err)) /\
  (forall o src dst r, ends_slash dst = false -> c_cforce o = false -> stored r dst = true ->
      exists oc, copy_cmd o src dst r = (r, oc) /\ oc <> Ok) /\
  (forall fl o src dst r, existsb (fun ex => changed r (snd ex)) (sources r src) = true -> move_cmd fl o src dst r = (r, Err)) /\
  (forall fl o src dst r, ends_slash dst = false -> stored r dst = true ->
      exists oc, move_cmd fl o src dst r = (r, oc) /\ oc <> Ok) /\
  (* (the repair of P4) something untracked is at the destination *)
  (forall o src dst r, ends_slash dst = false -> c_cforce o = false -> ws_lexists (xfs r) dst = true ->
      exists oc, copy_cmd o src dst r = (r, oc) /\ oc <> Ok) /\
  (forall fl o src dst r, ends_slash dst = false -> ws_lexists (xfs r) dst = true ->
      exists oc, move_cmd fl o src dst r = (r, oc) /\ oc <> Ok).
Proof.
  exact (conj copy_refuses_modified (conj copy_refuses_tracked (conj move_refuses_modified (conj move_refuses_tracked
        (conj copy_refuses_existing move_refuses_existing))))).
Qed.
(* a directory destination of copy refuses the conflicting pair only: it is not in the plan (copy_plans_sources,
   last clause) and records outside the planned destinations are untouched (copy_apply_shares) *)

(* ---- 4. the source need not be in the workspace ------------------------------------------------------------------------ *)
(* the command as the histories run it ([do_xitem]: [move_cmd45] = the pre-check of the P45 fix, then
   [move_cmd]): a source that would be REMOVED rather than renamed and has no cache object under the name
   the destination is rechecked from (a file tracked with --no-commit) makes the command stop with the
   repository unchanged; in every other case the command IS [move_cmd], which the theorems above and below
   describe *)
Theorem move_uncommitted_refused fl o src dst r l :
  fixed_P3 fl = false -> fixed_P45 fl = true -> move_plan src dst r = MPlanned l -> move_uncommitted o r l = true ->
  move_cmd45 fl o src dst r = (r, Err).
Proof. exact (move_uncommitted_refused_lemma fl o src dst r l). Qed.

Theorem move_is_move_otherwise fl o src dst r :
  fixed_P3 fl = false ->
  (fixed_P45 fl = false \/ forall l, move_plan src dst r = MPlanned l -> move_uncommitted o r l = false) ->
  move_cmd45 fl o src dst r = move_cmd fl o src dst r.
Proof. exact (move_cmd45_is_move_lemma fl o src dst r). Qed.

Theorem absent_source_ok o src dst r e x dg c :
  wf_fs (xfs r) -> wf_recs (base r) ->
  sources r src = [(e, x)] -> ends_slash dst = false -> stored r dst = false ->
  ws_meta (xfs r) (r_path x) = None ->
  r_digest x = Some dg -> extension dst = extension (r_path x) -> holds (xfs r) (cache_addr (r_path x) dg) c ->
  ws_lexists (xfs r) dst = false ->
  exists r', copy_cmd o src dst r = (r', Ok) /\
    (exists e' y, In (e', y) (recs (base r')) /\ copied_as o x y dst) /\
    (c_no_recheck o = false -> ws_read (xfs r') dst = Some c).
Proof. exact (copy_absent_source o src dst r e x dg c). Qed.

(* move: one source that is in the cache but not in the workspace.  The pair (Copy, Copy) of recorded and requested
   method needs the repair behind fixed_mv_absent (move_absent_refuted below shows the code as it is); every other
   pair works in the code as it is: the command succeeds, the source path is untracked, the destination reads the
   committed bytes *)
Theorem absent_source_ok_move fl o src dst r e x dg c :
  wf_fs (xfs r) -> wf_recs (base r) ->
  sources r src = [(e, x)] -> ends_slash dst = false -> stored r dst = false -> ws_lexists (xfs r) dst = false ->
  wget (xfs r) (r_path x) = None ->
  r_digest x = Some dg -> extension dst = extension (r_path x) -> holds (xfs r) (cache_addr (r_path x) dg) c ->
  (fixed_mv_absent fl = true \/ both_copy o x = false) ->
  exists r', move_cmd fl o src dst r = (r', Ok) /\
    (forall e' y, In (e', y) (recs (base r')) -> r_path y <> r_path x) /\
    (m_no_recheck o = false -> ws_read (xfs r') dst = Some c).
Proof. exact (move_absent_source fl o src dst r e x dg c). Qed.

(* ---- 5. ... for every reachable repository -------------------------------------------------------------------------------
   [xreach fl r]: r is reached from an initialised repository by a history of user writes / deletions / touches,
   track / carry-in / recheck, copy / move / remove / untrack, every step outside the known classes ([xclean]:
   the monitor `unclean` of Repo/Inv.v for the core commands, pairwise distinct destinations for copy).
   Repo/ExtReach.v proves by induction over the history that every such r satisfies wf_fs, objs_bounded, wf_recs
   (through INV of Repo/Inv.v, which the four commands preserve). *)
Theorem copy_shares_object_reachable fl o src dst r r' oc plan sk :
  xreach fl r -> copy_plan o src dst r = CPlanned plan sk -> NoDup (map cd_path plan) ->
  copy_cmd o src dst r = (r', oc) ->
  objs (xfs r') = objs (xfs r) /\ (forall a b, holds (xfs r) a b -> holds (xfs r') a b) /\
  forall c, In c plan -> copy_result o r r' oc c.
Proof. exact (copy_shares_reachable fl o src dst r r' oc plan sk). Qed.

Theorem move_preserves_count_reachable fl o src dst r r' oc l :
  xreach fl r -> move_plan src dst r = MPlanned l -> move_cmd fl o src dst r = (r', oc) ->
  length (recs (base r')) = length (recs (base r)) /\
  objs (xfs r') = objs (xfs r) /\ (forall a b, holds (xfs r) a b -> holds (xfs r') a b) /\
  (forall e x d, In (e, x, d) l -> move_result r r' e x d) /\
  (oc = Ok -> forall e x d, In (e, x, d) l -> ws_exists (xfs r') (r_path x) = false).
Proof. exact (move_count_reachable fl o src dst r r' oc l). Qed.

Theorem absent_source_ok_reachable fl o src dst r e x dg c :
  xreach fl r ->
  sources r src = [(e, x)] -> ends_slash dst = false -> stored r dst = false ->
  ws_meta (xfs r) (r_path x) = None ->
  r_digest x = Some dg -> extension dst = extension (r_path x) -> holds (xfs r) (cache_addr (r_path x) dg) c ->
  ws_lexists (xfs r) dst = false ->
  exists r', copy_cmd o src dst r = (r', Ok) /\
    (exists e' y, In (e', y) (recs (base r')) /\ copied_as o x y dst) /\
    (c_no_recheck o = false -> ws_read (xfs r') dst = Some c).
Proof. exact (absent_source_reachable fl o src dst r e x dg c). Qed.

Theorem reachable_by_clean_runs fl h r : xreach fl r -> xrun_clean fl r h = true -> xreach fl (run_xitems fl r h).
Proof. exact (fun X C => xrun_reach fl h r X C). Qed.

(* ---- examples: the hypotheses are met by concrete, non-trivial repositories ------------------------------------------- *)
(* a.txt (copy) and b.txt (symlink) hold the same bytes and share one object; c.txt differs *)
Definition h_two : list xitem :=
  [XBase (UWrite s_a_txt s_hello); XBase (XTrack t_plain [s_a_txt]);
   XBase (UWrite s_b_txt s_hello); XBase (XTrack (t_with Symlink) [s_b_txt]);
   XBase (UWrite s_c_txt s_other); XBase (XTrack t_plain [s_c_txt])].
Definition r_two : xrepo := run_xitems as_is r0 h_two.
Definition s_n_txt : bytes := [110; 46; 116; 120; 116].         (* n.txt *)
Definition s_star_txt : bytes := [42; 46; 116; 120; 116].       (* *.txt *)
Definition s_q_dir : bytes := [113; 47].                        (* q/ *)

Example reachable_example : xreach as_is r_two.
Proof. apply (xrun_reach as_is h_two r0); [apply xr_init|vm_compute; reflexivity]. Qed.
Example copy_example :
  let '(r', oc) := copy_cmd c_plain s_b_txt s_n_txt r_two in
  oc = Ok /\ length (objs (xfs r')) = 2%nat /\ ws_read (xfs r') s_n_txt = Some s_hello /\
  (exists e y, find_path (recs (base r')) s_n_txt = Some (e, y) /\ r_method y = Symlink /\
               r_digest y = Some (digest_of B3 Auto s_hello)).
Proof. vm_compute. repeat split; try reflexivity. do 2 eexists. repeat split; reflexivity. Qed.
Example copy_glob_example :   (* three sources into a new directory *)
  match copy_plan c_plain s_star_txt s_q_dir r_two with
  | CPlanned plan false => length plan = 3%nat /\ snd (copy_cmd c_plain s_star_txt s_q_dir r_two) = Ok
  | _ => False
  end.
Proof. vm_compute. split; reflexivity. Qed.
Example move_example :
  let '(r', oc) := move_cmd as_is m_plain s_a_txt s_n_txt r_two in
  oc = Ok /\ length (recs (base r')) = 3%nat /\ find_path (recs (base r')) s_a_txt = None /\
  wget (xfs r') s_a_txt = None /\ ws_read (xfs r') s_n_txt = Some s_hello.
Proof. vm_compute. repeat split; reflexivity. Qed.
Example refuses_example :     (* a.txt edited and not committed; c.txt is tracked *)
  let r := fst (do_xitem as_is r_two (XBase (UWrite s_a_txt s_other))) in
  copy_cmd c_plain s_a_txt s_n_txt r = (r, Err) /\ copy_cmd c_plain s_b_txt s_c_txt r = (r, Err) /\
  move_cmd as_is m_plain s_b_txt s_c_txt r = (r, Err).
Proof. vm_compute. repeat split; reflexivity. Qed.
Example absent_example :
  let r := fst (do_xitem as_is r_two (XBase (UDelete s_a_txt))) in
  let '(r', oc) := copy_cmd c_plain s_a_txt s_n_txt r in
  oc = Ok /\ ws_read (xfs r') s_n_txt = Some s_hello /\ ws_read (xfs r') s_a_txt = None.
Proof. vm_compute. repeat split; reflexivity. Qed.

(* ---- 6. the repair of P3 (switch fixed_P3): destinations with another extension -------------------------------------------
   The cache address of a version is (digest, extension of the CURRENT path): a destination with another extension
   has an address of its own.  "Content identity" across extensions: the destination is recorded with the source's
   digest, and its own address holds a read-only regular file whose bytes have the normal form of the source's
   committed bytes (equal digests; EXACTLY the source's bytes when the command made the object, copy_single_same_bytes).
   With the repair copy / move put the content there before any record changes ([share_object]); no object is
   removed or altered ([oget] keeps every entry, [holds] every content), the only new objects are at the
   destinations' addresses, and a command that cannot materialise a destination stops with the repository
   unchanged (copy_unavailable / move_unavailable). *)
Theorem copy_across_extensions_fixed fl o src dst r r' oc plan sk :
  fixed_P3 fl = true -> xreach fl r ->
  copy_plan o src dst r = CPlanned plan sk -> NoDup (map cd_path plan) -> copy_unavailable o r plan = false ->
  copy_cmd3 fl o src dst r = (r', oc) ->
  (forall a e, oget (xfs r) a = Some e -> oget (xfs r') a = Some e) /\
  (forall a b, holds (xfs r) a b -> holds (xfs r') a b) /\
  (forall a, oget (xfs r') a <> None -> oget (xfs r) a <> None \/
     exists c dg, In c plan /\ r_digest (cs_rec c) = Some dg /\ a = cache_addr (cd_path c) dg) /\
  forall c, In c plan -> copy_result3 o r r' oc c.
Proof. exact (copy_fixed_reachable fl o src dst r r' oc plan sk). Qed.
Print copy_result3.

Theorem copy_single_same_bytes fl o src dst r r' oc c sk dg b :
  fixed_P3 fl = true -> xreach fl r ->
  copy_plan o src dst r = CPlanned [c] sk -> copy_unavailable o r [c] = false ->
  copy_cmd3 fl o src dst r = (r', oc) ->
  r_digest (cs_rec c) = Some dg -> holds (xfs r) (cache_addr (r_path (cs_rec c)) dg) b ->
  obj_exists (xfs r) (cache_addr (cd_path c) dg) = false ->
  holds (xfs r') (cache_addr (cd_path c) dg) b /\ oget (xfs r) (cache_addr (cd_path c) dg) = None.
Proof. exact (copy_single_reachable fl o src dst r r' oc c sk dg b). Qed.

Theorem move_across_extensions_fixed fl o src dst r r' oc l :
  fixed_P3 fl = true -> xreach fl r ->
  move_plan src dst r = MPlanned l -> move_unavailable o r l = false ->
  move_cmd45 fl o src dst r = (r', oc) ->
  length (recs (base r')) = length (recs (base r)) /\
  (forall a e, oget (xfs r) a = Some e -> oget (xfs r') a = Some e) /\
  (forall a b, holds (xfs r) a b -> holds (xfs r') a b) /\
  (forall a, oget (xfs r') a <> None -> oget (xfs r) a <> None \/
     exists e x d dg, In (e, x, d) l /\ In dg (r_hist x) /\ a = cache_addr d dg) /\
  (forall e x d, In (e, x, d) l -> move_result r r' e x d /\
     forall dg b, In dg (r_hist x) -> holds (xfs r) (cache_addr (r_path x) dg) b ->
       exists b', holds (xfs r') (cache_addr d dg) b' /\ strip_crlf b' = strip_crlf b) /\
  (oc = Ok -> forall e x d, In (e, x, d) l -> ws_exists (xfs r') (r_path x) = false).
Proof. exact (move_fixed_reachable fl o src dst r r' oc l). Qed.

(* a failure leaves nothing behind: the content of some pair is at neither address (and the destination is to be
   rechecked, or the source removed) => the command stops before any record changes *)
Theorem unavailable_refused fl :
  fixed_P3 fl = true ->
  (forall o src dst r plan sk, copy_plan o src dst r = CPlanned plan sk -> copy_unavailable o r plan = true ->
     copy_cmd3 fl o src dst r = (r, Err)) /\
  (forall o src dst r l, move_plan src dst r = MPlanned l -> move_unavailable o r l = true ->
     move_cmd45 fl o src dst r = (r, Err)).
Proof.
  exact (fun P3 => conj (fun o src dst r plan sk => copy_cmd3_refused fl o src dst r plan sk P3)
                        (fun o src dst r l => move_cmd45_refused3 fl o src dst r l P3)).
Qed.

(* without the repair the command of the histories IS copy_cmd (sections 1 to 5 speak about it) *)
Theorem copy_is_copy_otherwise fl o src dst r : fixed_P3 fl = false -> copy_cmd3 fl o src dst r = copy_cmd o src dst r.
Proof. exact (copy_cmd3_as_is fl o src dst r). Qed.

(* ---- the known class, following the switch -------------------------------------------------------------------------------- *)
(* the statement with a class parameter (Repo/ExtReach.v): *)
Print C19_copy_at.
Print C19_move_at.
Print K_cross_ext_fl.
(* the full statement: no class at all, whatever the switches *)
Definition C19_full : Prop := forall fl, C19_copy_at fl (fun _ _ => false) /\ C19_move_at fl (fun _ _ => false).

(* outside the class of P3 -- which is the destinations with another extension when the repair is absent and EMPTY
   when it is present -- the statement holds for both values of the switch *)
Theorem C19_outside_class fl : C19_copy_at fl (K_cross_ext_fl fl) /\ C19_move_at fl (K_cross_ext_fl fl).
Proof. exact (conj (copy_outside_class fl) (move_outside_class fl)). Qed.

Theorem K_cross_ext_empty_when_fixed fl s d : fixed_P3 fl = true -> K_cross_ext_fl fl s d = false.
Proof. exact (K_cross_ext_empty_when_fixed_lemma fl s d). Qed.

Theorem C19_full_fixed fl : fixed_P3 fl = true -> C19_copy_at fl (fun _ _ => false) /\ C19_move_at fl (fun _ _ => false).
Proof. exact (full_when_fixed fl). Qed.

(* P3, the code as it is (switch off): a destination with another extension is recorded with the source's digest, but
   its address is recomputed with the new extension: no such object, nothing can restore it.
   copy --no-recheck a.txt b.dat succeeds and records b.dat; move a.txt b.dat renames the file and moves the record *)
Print h_cross.
Theorem cross_ext_copy_refuted : ~ C19_copy_at as_is (fun _ _ => false).
Proof. exact cross_ext_copy_refuted_lemma. Qed.
Theorem cross_ext_move_refuted : ~ C19_move_at as_is (fun _ _ => false).
Proof. exact cross_ext_move_refuted_lemma. Qed.

Theorem cross_ext_refuted : ~ C19_full.
Proof. exact (fun F => cross_ext_copy_refuted (proj1 (F as_is))). Qed.

Example cross_ext_witness :      (* ... and what the plain copy does instead: the handler thread panics, the record stays *)
  let r := run_xitems as_is r0 h_cross in
  let '(r', oc) := copy_cmd3 as_is c_plain s_a_txt s_b_dat r in
  oc = Panic /\
  exists e x d, find_path (recs (base r')) s_b_dat = Some (e, x) /\ r_digest x = Some d /\
                obj_exists (xfs r') (cache_addr s_b_dat d) = false /\ ws_read (xfs r') s_b_dat = None.
Proof. vm_compute. split; [reflexivity|]. do 3 eexists. repeat split; reflexivity. Qed.
(* the same commands with the repair: two objects with the same bytes in one digest directory, the destination is
   materialised (copy) / the moved path is restorable (move) *)
Example cross_ext_fixed_copy :
  let r := run_xitems all_fixed r0 h_cross in
  let '(r', oc) := copy_cmd3 all_fixed c_plain s_a_txt s_b_dat r in
  oc = Ok /\ length (objs (xfs r')) = 2%nat /\ ws_read (xfs r') s_b_dat = Some s_hello /\
  obj_read (xfs r') (cache_addr s_b_dat (digest_of B3 Auto s_hello)) = Some s_hello /\
  obj_read (xfs r') (cache_addr s_a_txt (digest_of B3 Auto s_hello)) = Some s_hello.
Proof. vm_compute. repeat split; reflexivity. Qed.
Example cross_ext_fixed_move :
  let r := run_xitems all_fixed r0 h_cross in
  let '(r', oc) := move_cmd45 all_fixed m_plain s_a_txt s_b_dat r in
  oc = Ok /\ length (recs (base r')) = 1%nat /\ ws_read (xfs r') s_b_dat = Some s_hello /\ wget (xfs r') s_a_txt = None /\
  obj_read (xfs r') (cache_addr s_b_dat (digest_of B3 Auto s_hello)) = Some s_hello /\
  ws_read (xfs (fst (do_xitem all_fixed (fst (do_xitem all_fixed r' (XBase (UDelete s_b_dat)))) (XBase (XRecheck {| k_method := None; k_force := false |} [s_b_dat]))))) s_b_dat = Some s_hello.
Proof. vm_compute. repeat split; reflexivity. Qed.
(* a source tracked with --no-commit has no object: the repaired copy stops with the repository unchanged (the code as
   it is saves the record of n.txt and panics) *)
Definition h_nocommit : list xitem :=
  [XBase (UWrite s_a_txt s_hello); XBase (XTrack {| t_method := None; t_tob := None; t_no_commit := true; t_force := false |} [s_a_txt])].
Example unavailable_example :
  let r := run_xitems all_fixed r0 h_nocommit in
  copy_cmd3 all_fixed c_plain s_a_txt s_n_txt r = (r, Err) /\
  snd (copy_cmd3 as_is c_plain s_a_txt s_n_txt r) = Panic /\
  (exists ex, find_path (recs (base (fst (copy_cmd3 as_is c_plain s_a_txt s_n_txt r)))) s_n_txt = Some ex).
Proof. vm_compute. repeat split; try reflexivity. eexists; reflexivity. Qed.
Example full_fixed_nonvacuous :    (* the hypotheses of C19_copy_at / C19_move_at are met by the commands above *)
  let r := run_xitems all_fixed r0 h_cross in
  xreach all_fixed r /\ copy_unavailable c_plain r [plan_pair r x_a_txt s_b_dat] = false /\
  copy_plan c_plain s_a_txt s_b_dat r = CPlanned [plan_pair r x_a_txt s_b_dat] false /\
  move_plan s_a_txt s_b_dat r = MPlanned [(2%N, x_a_txt, s_b_dat)] /\ move_unavailable m_plain r [(2%N, x_a_txt, s_b_dat)] = false.
Proof. split; [exact (h_cross_reach all_fixed eq_refl)|vm_compute; repeat split; reflexivity]. Qed.

(* move of a copy-method file whose source is absent: the code as it is errors out after the record was moved
   (fixed_mv_absent = false), the repaired code rechecks the destination *)
Definition h_absent : list xitem := [XBase (UWrite s_a_txt s_hello); XBase (XTrack t_plain [s_a_txt]); XBase (UDelete s_a_txt)].
Theorem move_absent_refuted :
  let r := run_xitems as_is r0 h_absent in
  let '(r', oc) := move_cmd as_is m_plain s_a_txt s_n_txt r in
  oc = Err /\ ws_read (xfs r') s_n_txt = None /\ (exists ex, find_path (recs (base r')) s_n_txt = Some ex).
Proof. vm_compute. repeat split; try reflexivity. eexists; reflexivity. Qed.
Example move_absent_fixed :
  let r := run_xitems all_fixed r0 h_absent in
  let '(r', oc) := move_cmd all_fixed m_plain s_a_txt s_n_txt r in
  oc = Ok /\ ws_read (xfs r') s_n_txt = Some s_hello /\ find_path (recs (base r')) s_a_txt = None.
Proof. vm_compute. repeat split; reflexivity. Qed.

Print Assumptions copy_shares_object.
Print Assumptions copy_plans_sources.
Print Assumptions move_preserves_count.
Print Assumptions refuses.
Print Assumptions absent_source_ok.
Print Assumptions absent_source_ok_move.
Print Assumptions copy_shares_object_reachable.
Print Assumptions move_preserves_count_reachable.
Print Assumptions absent_source_ok_reachable.
Print Assumptions reachable_by_clean_runs.
Print Assumptions cross_ext_refuted.
Print Assumptions cross_ext_copy_refuted.
Print Assumptions cross_ext_move_refuted.
Print Assumptions copy_across_extensions_fixed.
Print Assumptions copy_single_same_bytes.
Print Assumptions move_across_extensions_fixed.
Print Assumptions unavailable_refused.
Print Assumptions copy_is_copy_otherwise.
Print Assumptions C19_outside_class.
Print Assumptions K_cross_ext_empty_when_fixed.
Print Assumptions C19_full_fixed.
Print Assumptions move_absent_refuted.
Print Assumptions move_uncommitted_refused.
Print Assumptions move_is_move_otherwise.
