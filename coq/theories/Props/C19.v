(* C19 — copy and move preserve content identity without touching content. *)
From Coq Require Import List Bool NArith.
From XV Require Import Base.Amap Base.Bytes Repo.Model Repo.Ext Repo.ExtProofs.
Import ListNotations.

(* P3: a destination with another extension is recorded with the source's digest, but its address is
   recomputed with the new extension: no such object, the command panics, nothing can restore it *)
Definition h_cross : list xitem :=
  [XBase (UWrite s_a_txt s_hello); XBase (XTrack t_plain [s_a_txt]); XCopy c_plain s_a_txt s_b_dat].
Theorem cross_ext_refuted :
  let r := run_xitems as_is r0 (removelast h_cross) in
  let '(r', oc) := do_xitem as_is r (XCopy c_plain s_a_txt s_b_dat) in
  oc = Panic /\
  exists e x d, find_path (recs (base r')) s_b_dat = Some (e, x) /\ r_digest x = Some d /\
                obj_exists (xfs r') (cache_addr s_b_dat d) = false /\ ws_read (xfs r') s_b_dat = None.
Proof. vm_compute. split; [reflexivity|]. do 3 eexists. repeat split; reflexivity. Qed.
Print Assumptions cross_ext_refuted.
