(* C14 — Pipeline export and import are inverse.
   Property theorems only: statement, [exact] of a lemma of Schema/Proofs.v, [Check] pins, [Example]s
   (non-vacuity, refuted witness by vm_compute), [Print Assumptions].

   Model: Schema/Model.v — export / import and the commands that build pipelines (pipeline new,
   update --rename, step new / update / dependency / output, the recording of dependency state
   by pipeline run, import) over the stores of Ecs/Model.v.  A repository is what a history of
   such commands, each in a process of its own (own random word), makes of `xvc init`:
       run_cmds fixed_rename h (init_repo rnd default_name).
   [fixed_rename = false] is the code as it is: `update --rename Q` accepts a name that another
   pipeline has (finding P53); [true] is the code after repo-patches/53.
   The serde codecs are abstracted: import takes the schema value that export produced
   (de (ser s) = Some s); the text level is judged by the correspondence check (vlib/c14.py).
   [hperm] is the iteration order of the HashMaps in which export collects steps, dependencies and
   outputs: any function that permutes its argument.  The only side condition on sizes is that
   the 64-bit entity counter does not wrap:  2 + hist_cost h + schema_cost s < 2^64. *)
From Coq Require Import List Bool NArith Lia Permutation.
From XV Require Import Base.Amap Ecs.Model Schema.Model Schema.Proofs.
Import ListNotations.

(* the known class: two pipelines carry the same name (decided on the repository; on command
   histories this is vlib/c14.py accepted_colliding_rename) *)
Definition Known_dup_names (r : repo) : bool := negb (uniq_names r).

(* the property at full strength, for either behaviour of `update --rename` *)
Definition RoundTrip (fixed_rename : bool) : Prop :=
  forall (hperm hperm' : forall A : Type, list A -> list A),
    (forall A (l : list A), Permutation (hperm A l) l) ->
    (forall A (l : list A), Permutation (hperm' A l) l) ->
  forall rnd dn h n n' s ow,
    let r := run_cmds fixed_rename h (init_repo rnd dn) in
    (2 + hist_cost h + schema_cost s < two64)%N ->
    export hperm r n = EOk s -> (ow = true \/ find_pipeline r n' = None) ->
    exists r', import r n' s ow = ROk r' /\ export hperm' r' n' = EOk (rename_schema n' s).
Definition C14_full : Prop := RoundTrip false.

Section C14.
Variable hperm hperm' : forall A : Type, list A -> list A.
Hypothesis hperm_perm : forall A (l : list A), Permutation (hperm A l) l.
Hypothesis hperm_perm' : forall A (l : list A), Permutation (hperm' A l) l.

(* 1 (core).  For every reachable repository outside the known class, every pipeline n, every name
   n' that is free or given with --overwrite: export n -> import as n' -> export n' is the export
   of n except for the name.  Any iteration orders on the two exports. *)
Theorem export_import_export fixed_rename rnd dn h n n' s ow :
  let r := run_cmds fixed_rename h (init_repo rnd dn) in
  (2 + hist_cost h + schema_cost s < two64)%N -> Known_dup_names r = false ->
  export hperm r n = EOk s -> (ow = true \/ find_pipeline r n' = None) ->
  exists r', import r n' s ow = ROk r' /\ export hperm' r' n' = EOk (rename_schema n' s).
Proof.
  exact (fun Hlt HK => C14_roundtrip_lemma hperm hperm' hperm_perm' fixed_rename rnd dn h n n' s ow Hlt
                           (proj1 (negb_false_iff _) HK)).
Qed.

(* 1'.  Once `update --rename` refuses a name that exists, no exclusion is left. *)
Theorem export_import_export_fixed rnd dn h n n' s ow :
  let r := run_cmds true h (init_repo rnd dn) in
  (2 + hist_cost h + schema_cost s < two64)%N ->
  export hperm r n = EOk s -> (ow = true \/ find_pipeline r n' = None) ->
  exists r', import r n' s ow = ROk r' /\ export hperm' r' n' = EOk (rename_schema n' s).
Proof. exact (C14_roundtrip_fixed_lemma hperm hperm' hperm_perm' rnd dn h n n' s ow). Qed.

(* 1''.  Any version-1 schema file (hand-written ones included): what is exported after the import
   is the file in normal form (dependencies and outputs of every step sorted), under the name. *)
Theorem import_then_export fixed_rename rnd dn h n s ow :
  let r := run_cmds fixed_rename h (init_repo rnd dn) in
  (2 + hist_cost h + schema_cost s < two64)%N -> Known_dup_names r = false -> sc_version s = 1%N ->
  (ow = true \/ find_pipeline r n = None) ->
  exists r', import r n s ow = ROk r' /\ export hperm r' n = EOk (norm_schema (rename_schema n s)).
Proof.
  exact (fun Hlt HK => C14_import_file_lemma hperm hperm_perm fixed_rename rnd dn h n s ow Hlt
                           (proj1 (negb_false_iff _) HK)).
Qed.

(* 2.  Importing never alters another pipeline (no exclusion, with or without --overwrite). *)
Theorem import_preserves_others fixed_rename rnd dn h n s ow r' m :
  let r := run_cmds fixed_rename h (init_repo rnd dn) in
  (2 + hist_cost h + schema_cost s < two64)%N -> import r n s ow = ROk r' -> m <> n ->
  export hperm r' m = export hperm r m.
Proof. exact (C14_others_lemma hperm hperm_perm fixed_rename rnd dn h n s ow r' m). Qed.

(* 4.  The export is a function of the loaded maps only: it does not depend on the iteration order
   of the HashMaps ... *)
Theorem export_stable fixed_rename rnd dn h n :
  let r := run_cmds fixed_rename h (init_repo rnd dn) in
  (2 + hist_cost h < two64)%N -> export hperm r n = export hperm' r n.
Proof. exact (C14_stable_lemma hperm hperm' hperm_perm hperm_perm' fixed_rename rnd dn h n). Qed.
End C14.

(* ... nor on anything of the ten stores but their maps (event-file split, reverse indices). *)
Theorem export_maps_only hperm r r' n :
  smap (r_pipelines r') = smap (r_pipelines r) -> smap (r_rundirs r') = smap (r_rundirs r) ->
  smap (r_steps r') = smap (r_steps r) -> smap (r_step_parent r') = smap (r_step_parent r) ->
  smap (r_commands r') = smap (r_commands r) -> smap (r_invalidates r') = smap (r_invalidates r) ->
  smap (r_deps r') = smap (r_deps r) -> smap (r_dep_parent r') = smap (r_dep_parent r) ->
  smap (r_outs r') = smap (r_outs r) -> smap (r_out_parent r') = smap (r_out_parent r) ->
  export hperm r' n = export hperm r n.
Proof. exact (export_maps_only_lemma hperm r r' n). Qed.

(* 3.  Without --overwrite an existing name is refused and the repository stays as it was (in any
   repository, reachable or not). *)
Theorem import_refuses_existing r n s x :
  find_pipeline r n = Some x -> sc_version s = 1%N ->
  import r n s false = RErr PipelineAlreadyFound /\
  forall fixed_rename rnd, exec1 fixed_rename r (rnd, CImport n s false) = r.
Proof. exact (C14_refusal_lemma r n s x). Qed.

(* every reachable repository satisfies the invariant the proofs run on, and -- with the fixed
   rename -- has pairwise distinct pipeline names *)
Theorem reachable_inv fixed_rename rnd dn h :
  (2 + hist_cost h < two64)%N -> Inv (run_cmds fixed_rename h (init_repo rnd dn)).
Proof. exact (reachable_inv_lemma fixed_rename rnd dn h). Qed.
Theorem reachable_uniq_names_fixed rnd dn h :
  (2 + hist_cost h < two64)%N -> Known_dup_names (run_cmds true h (init_repo rnd dn)) = false.
Proof. exact (fun Hlt => proj2 (negb_false_iff _) (reachable_uniq_lemma rnd dn h Hlt)). Qed.

(* ---- the statements are pinned ------------------------------------------------------------------ *)
Check export_import_export :
  forall hperm hperm' : forall A : Type, list A -> list A,
  (forall A (l : list A), Permutation (hperm' A l) l) ->
  forall fixed_rename rnd dn h n n' s ow,
  let r := run_cmds fixed_rename h (init_repo rnd dn) in
  (2 + hist_cost h + schema_cost s < two64)%N -> Known_dup_names r = false ->
  export hperm r n = EOk s -> (ow = true \/ find_pipeline r n' = None) ->
  exists r', import r n' s ow = ROk r' /\ export hperm' r' n' = EOk (rename_schema n' s).
Check export_import_export_fixed :
  forall hperm hperm' : forall A : Type, list A -> list A,
  (forall A (l : list A), Permutation (hperm' A l) l) -> forall rnd dn h n n' s ow, _.
Check import_preserves_others :
  forall hperm : forall A : Type, list A -> list A, (forall A (l : list A), Permutation (hperm A l) l) ->
  forall fixed_rename rnd dn h n s ow r' m,
  let r := run_cmds fixed_rename h (init_repo rnd dn) in
  (2 + hist_cost h + schema_cost s < two64)%N -> import r n s ow = ROk r' -> m <> n ->
  export hperm r' m = export hperm r m.
(* with the fixed rename the full statement is a theorem *)
Check (fun hp hp' (_ : forall A (l : list A), Permutation (hp A l) l) H' =>
         export_import_export_fixed hp hp' H') : RoundTrip true.

(* ---- non-vacuity: a concrete history meets the hypotheses and exercises the branches ----------- *)
Definition hid : forall A : Type, list A -> list A := fun _ l => l.
Definition hrev : forall A : Type, list A -> list A := fun _ l => rev l.
Lemma hid_perm A (l : list A) : Permutation (hid A l) l.
Proof. apply Permutation_refl. Qed.
Lemma hrev_perm A (l : list A) : Permutation (hrev A l) l.
Proof. symmetry. apply Permutation_rev. Qed.

(* two pipelines; steps with unsorted and duplicate dependencies, outputs, all three invalidation
   modes, a step update, a recorded dependency, refused commands in between *)
Definition h1 : list (N * cmd) :=
  [ (11, CNew [1] (Some [9; 9])); (12, CNew [2] None); (13, CNew [1] None);
    (14, CStepNew [1] [5] [50; 51] (Some Always)); (15, CStepNew [1] [4] [40] None);
    (16, CStepNew [1] [5] [0] None);
    (17, CDeps [1] [5] [[3; 1]; [2; 7]; [3; 1]; [2]]); (18, COuts [1] [5] [[8]; [6; 6]]);
    (19, CDeps [1] [4] [[2; 7]]); (20, CStepNew [2] [7] [70] (Some Never));
    (21, CDeps [2] [7] [[1]]); (22, CStepUpdate [1] [4] (Some [41]) (Some Never));
    (23, CRecord [1] [5] [2; 7] [2; 7; 1]); (24, CDeps [1] [6] [[1]]) ]%N.
Definition r1 : repo := run_cmds false h1 (init_repo 7 [100]%N).
Definition s1 : schema :=
  {| sc_version := 1; sc_name := [1]; sc_workdir := [9; 9];
     sc_steps := [ {| ss_name := [5]; ss_command := [50; 51]; ss_invalidate := Always;
                      ss_deps := [[2]; [2; 7; 1]; [3; 1]; [3; 1]]; ss_outs := [[6; 6]; [8]] |};
                   {| ss_name := [4]; ss_command := [41]; ss_invalidate := Never;
                      ss_deps := [[2; 7]]; ss_outs := [] |} ] |}%N.
Example h1_hypotheses :
  (2 + hist_cost h1 + schema_cost s1 < two64)%N /\ Known_dup_names r1 = false /\
  export hrev r1 [1]%N = EOk s1 /\ find_pipeline r1 [3]%N = None /\
  list_names r1 = [[100]; [1]; [2]]%N.
Proof. vm_compute. repeat split. Qed.
Example h1_roundtrip :
  exists r', import r1 [3]%N s1 false = ROk r' /\ export hid r' [3]%N = EOk (rename_schema [3]%N s1) /\
             export hid r' [2]%N = export hid r1 [2]%N /\ list_names r' = [[100]; [1]; [2]; [3]]%N /\
             import r' [3]%N s1 false = RErr PipelineAlreadyFound /\
             (exists r'', import r' [2]%N s1 true = ROk r'' /\
                          export hrev r'' [2]%N = EOk (rename_schema [2]%N s1) /\
                          list_names r'' = [[100]; [1]; [3]; [2]]%N).
Proof.
  eexists. split; [vm_compute; reflexivity|]. split; [vm_compute; reflexivity|].
  split; [vm_compute; reflexivity|]. split; [vm_compute; reflexivity|]. split; [vm_compute; reflexivity|].
  eexists. split; [vm_compute; reflexivity|]. split; vm_compute; reflexivity.
Qed.
(* a hand-written file with unsorted dependencies comes back sorted *)
Example h1_import_file :
  let s := {| sc_version := 1; sc_name := [77]; sc_workdir := [];
              sc_steps := [ {| ss_name := [5]; ss_command := []; ss_invalidate := ByDependencies;
                               ss_deps := [[3]; [1]; [2]]; ss_outs := [[2]; [1]] |} ] |}%N in
  exists r', import r1 [3]%N s false = ROk r' /\
             export hid r' [3]%N = EOk (norm_schema (rename_schema [3]%N s)) /\ norm_schema s <> s.
Proof. eexists. split; [vm_compute; reflexivity|]. split; [vm_compute; reflexivity|]. vm_compute. discriminate. Qed.

(* ---- the full statement is refuted on the code as it is (finding P53) ----------------------------- *)
(* pipeline a (step sa), pipeline b (step sb); `pipeline -p b update --rename a` is accepted;
   `export a` -> `import --overwrite a` -> `export a` now prints pipeline b's steps *)
Definition h_dup : list (N * cmd) :=
  [ (1, CNew [97] None); (2, CNew [98] None); (3, CStepNew [97] [1] [10] None);
    (4, CStepNew [98] [2] [20] None); (5, CRename [98] [97]) ]%N.
Example h_dup_in_class : Known_dup_names (run_cmds false h_dup (init_repo 7 [100]%N)) = true /\
                         Known_dup_names (run_cmds true h_dup (init_repo 7 [100]%N)) = false.
Proof. vm_compute. split; reflexivity. Qed.
Lemma C14_full_refuted_dup_names : ~ C14_full.
Proof.
  intros H.
  destruct (H hid hid hid_perm hid_perm 7%N [100]%N h_dup [97]%N [97]%N
              {| sc_version := 1; sc_name := [97]; sc_workdir := [];
                 sc_steps := [ {| ss_name := [1]; ss_command := [10]; ss_invalidate := ByDependencies;
                                  ss_deps := []; ss_outs := [] |} ] |}%N true) as (r' & E1 & E2).
  - vm_compute. reflexivity.
  - vm_compute. reflexivity.
  - now left.
  - vm_compute in E1. injection E1 as <-. vm_compute in E2. discriminate.
Qed.

Print Assumptions export_import_export.
Print Assumptions export_import_export_fixed.
Print Assumptions import_then_export.
Print Assumptions import_preserves_others.
Print Assumptions export_stable.
Print Assumptions export_maps_only.
Print Assumptions import_refuses_existing.
Print Assumptions reachable_inv.
Print Assumptions reachable_uniq_names_fixed.
Print Assumptions C14_full_refuted_dup_names.
