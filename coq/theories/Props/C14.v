(* C14 — Pipeline export and import are inverse.
   Property theorems only: statement, [exact] of a lemma of Schema/Proofs.v, [Check] pins, [Example]s
   (non-vacuity, refuted witness by vm_compute), [Print Assumptions].

   Model: Schema/Model.v (export / import / the pipeline-building commands over the stores of
   Ecs/Model.v).  The serde codecs are abstracted: import takes the schema value that export
   produced (de (ser s) = Some s); the text level is judged by the correspondence check.
   [hperm] is the iteration order of the HashMaps export collects steps, dependencies and outputs
   in: any function that permutes its argument. *)
From Coq Require Import List Bool NArith Lia Permutation.
From XV Require Import Base.Amap Ecs.Model Schema.Model Schema.Proofs.
Import ListNotations.

Section C14.
Variable hperm hperm' : forall A : Type, list A -> list A.
Hypothesis hperm_perm : forall A (l : list A), Permutation (hperm A l) l.
Hypothesis hperm_perm' : forall A (l : list A), Permutation (hperm' A l) l.

(* 1 (core).  In every repository that satisfies the invariant of reachable repositories and whose
   pipeline names are pairwise distinct: exporting pipeline n, importing the result under a name n'
   that is free -- or with --overwrite -- succeeds, and the export of n' is the export of n
   except for the name.  Any iteration orders, any entity counter that does not wrap. *)
Theorem export_import_export r n n' s ow :
  Inv r -> uniq_names r = true -> export hperm r n = EOk s ->
  (gcounter (r_gen r) + schema_cost s < two64)%N ->
  (ow = true \/ find_pipeline r n' = None) ->
  exists r', import r n' s ow = ROk r' /\ Inv r' /\ export hperm' r' n' = EOk (rename_schema n' s).
Proof. exact (export_import_export_lemma hperm hperm' hperm_perm' r n n' s ow). Qed.

(* 1b.  The same for any schema file of version 1 (hand-written files included): what is exported
   after the import is the file in normal form (dependencies and outputs of every step sorted). *)
Theorem import_then_export r n s ow :
  Inv r -> uniq_names r = true -> sc_version s = 1%N ->
  (gcounter (r_gen r) + schema_cost s < two64)%N ->
  (ow = true \/ find_pipeline r n = None) ->
  exists r', import r n s ow = ROk r' /\ Inv r' /\
             export hperm r' n = EOk (norm_schema (rename_schema n s)).
Proof. exact (import_then_export_lemma hperm hperm_perm r n s ow). Qed.

(* 3.  Without --overwrite an existing name is refused (and a refused command leaves the
   repository as it was: exec1 keeps the old state). *)
Theorem import_refuses_existing r n s x :
  find_pipeline r n = Some x -> sc_version s = 1%N -> import r n s false = RErr PipelineAlreadyFound.
Proof. exact (import_refuses_existing_lemma r n s x). Qed.
End C14.

Print Assumptions export_import_export.
Print Assumptions import_then_export.
Print Assumptions import_refuses_existing.
