(* C02 -- Cache objects are content-addressed and immutable.
   Property theorems only: statement, [exact] of a lemma of Repo/{Proofs,Inv}.v, a [Check] pinning the
   statement, [Example]s (the hypotheses are met by concrete non-trivial histories; witnesses of the
   known classes by vm_compute), [Print Assumptions].

   Histories are ANY lists of user actions (write, write-through, delete, touch) and xvc commands
   (track / carry-in / recheck with all their options and any target lists) from an initialised
   repository.  One boolean class is excluded, decided by running the model on the history:
     K_relink h  =  some commit of h renames a workspace entry that is itself a link -- a symbolic
                    link, or a hard link to a cache object -- into the cache.
   (edits_visible is not a hypothesis: every user edit of the model takes a fresh stamp, and
    Repo/Stamps.v proves that a record whose metadata equal the workspace describes its content.)
   In that class the code really breaks the property (readonly_relink_refuted, cas_relink_refuted,
   symlink_in_cache_refuted below replay on the binary: finding "relink" of findings.d/C02.json).
   Immutability additionally excludes K_alias_swap (carry-in --force with content that differs from
   the stored object only in CR/LF bytes: P2). *)
From Coq Require Import List Bool NArith.
From XV Require Import Base.Amap Base.Bytes Repo.Model Repo.Proofs Repo.Inv Repo.Restore Repo.Stamps Repo.Main Repo.Fix Repo.FixProofs.
Import ListNotations.

Definition K_relink (r : repo) (h : list item) : bool := mon_run relink r h.
Definition K_relink_item (r : repo) (it : item) : bool := mon_item relink r it.
Definition K_alias_swap (r : repo) (it : item) : bool := mon_item alias_swap r it.

(* 1. I_cas: in every reachable repository every cache object's bytes fit its address: the digest in
      the address is the (ideal) hash of the bytes or of the bytes without CR and LF *)
Theorem cas_invariant a m t h b c :
  K_relink (init_repo a m t) h = false ->
  obj_read (fs (run_items (init_repo a m t) h)) b = Some c -> fits (a_digest b) c.
Proof. exact (cas_final a m t h b c). Qed.

(* the address computed for a file fits its bytes whatever the mode *)
Theorem address_fits_content a t c : fits (digest_of a t c) c.
Proof. exact (digest_of_fits a t c). Qed.

(* 2. every cache entry is a regular file whose inode is read-only and belongs to no other address *)
Theorem objects_readonly_files a m t h b e :
  K_relink (init_repo a m t) h = false ->
  oget (fs (run_items (init_repo a m t) h)) b = Some e ->
  exists i n, e = EFile i /\ iget (fs (run_items (init_repo a m t) h)) i = Some n /\ i_w n = false /\
              (forall b', oget (fs (run_items (init_repo a m t) h)) b' = Some (EFile i) -> b' = b).
Proof. exact (objects_plain_final a m t h b e). Qed.

(* ... and, as long as no command panicked, its directory is not writable *)
Theorem directories_readonly a m t h b :
  K_relink (init_repo a m t) h = false -> panics (init_repo a m t) h = false ->
  oget (fs (run_items (init_repo a m t) h)) b <> None ->
  dget (fs (run_items (init_repo a m t) h)) (a_digest b) = Some false.
Proof. exact (readonly_final a m t h b). Qed.

(* 3. immutability: for every item (any command, any options, any targets) and every address present
      before and after it, the bytes read are the same *)
Theorem objects_immutable r it b c c' :
  reachable_r r -> K_relink_item r it = false -> K_alias_swap r it = false ->
  obj_read (fs r) b = Some c -> obj_read (fs (fst (do_item r it))) b = Some c' -> c = c'.
Proof. exact (immutable_final r it b c c'). Qed.

(* 4. without --force the cache only grows: every entry keeps its inode and its bytes (user actions,
      recheck, track, carry-in): pre-existing objects are never rewritten, duplicates are not stored twice *)
Theorem cache_monotone r it b e :
  reachable_r r -> K_relink_item r it = false -> unforced it = true ->
  oget (fs r) b = Some e ->
  oget (fs (fst (do_item r it))) b = Some e /\ obj_read (fs (fst (do_item r it))) b = obj_read (fs r) b.
Proof. exact (monotone_final r it b e). Qed.

(* 5. deduplication: identical content with the same extension (and mode) has ONE address, whatever the
      paths; two contents that share an address differ at most in CR/LF bytes *)
Theorem dedup a t c p1 p2 :
  extension p1 = extension p2 -> cache_addr p1 (digest_of a t c) = cache_addr p2 (digest_of a t c).
Proof. exact (dedup_same_address a t c p1 p2). Qed.

Theorem one_address_same_normal_form d c1 c2 : fits d c1 -> fits d c2 -> strip_crlf c1 = strip_crlf c2.
Proof. exact (fits_same_norm d c1 c2). Qed.

(* ---- the statements are pinned ---------------------------------------------------------------------- *)
Check cas_invariant : forall a m t h b c, K_relink (init_repo a m t) h = false ->
  obj_read (fs (run_items (init_repo a m t) h)) b = Some c -> fits (a_digest b) c.
Check objects_immutable : forall r it b c c', reachable_r r -> K_relink_item r it = false -> K_alias_swap r it = false ->
  obj_read (fs r) b = Some c -> obj_read (fs (fst (do_item r it))) b = Some c' -> c = c'.
Check cache_monotone : forall r it b e, reachable_r r -> K_relink_item r it = false -> unforced it = true ->
  oget (fs r) b = Some e ->
  oget (fs (fst (do_item r it))) b = Some e /\ obj_read (fs (fst (do_item r it))) b = obj_read (fs r) b.
Check directories_readonly : forall a m t h b, K_relink (init_repo a m t) h = false -> panics (init_repo a m t) h = false ->
  oget (fs (run_items (init_repo a m t) h)) b <> None -> dget (fs (run_items (init_repo a m t) h)) (a_digest b) = Some false.

(* ---- concrete histories -------------------------------------------------------------------------------- *)
Definition a_txt : path := [97; 46; 116; 120; 116]%N.
Definition b_txt : path := [98; 46; 116; 120; 116]%N.
Definition lf : bytes := [97; 10; 98; 10]%N.            (* "a\nb\n" *)
Definition crlf : bytes := [97; 13; 10; 98; 13; 10]%N.  (* "a\r\nb\r\n" *)
Definition junk : bytes := [106; 117; 110; 107]%N.
Definition t0 : track_opts := {| t_method := None; t_tob := None; t_no_commit := false; t_force := false |}.
Definition t_hard : track_opts := {| t_method := Some Hardlink; t_tob := None; t_no_commit := false; t_force := false |}.
Definition t_sym : track_opts := {| t_method := Some Symlink; t_tob := None; t_no_commit := false; t_force := false |}.
Definition t_bin : track_opts := {| t_method := None; t_tob := Some Binary; t_no_commit := false; t_force := false |}.
Definition c_force_o : carry_opts := {| c_tob := None; c_force := true |}.
Definition r0 : repo := init_repo B3 Copy Auto.
Definition addr_text : caddr := cache_addr a_txt (digest_of B3 Text lf).
Definition addr_bin : caddr := cache_addr a_txt (digest_of B3 Binary crlf).

(* non-vacuity: a history outside the class with two objects, a duplicate, a forced carry-in, a recheck *)
Definition h_ok : list item :=
  [UWrite a_txt lf; UWrite b_txt lf; XTrack t0 [a_txt; b_txt];
   UWrite a_txt junk; XCarryIn c_force_o [a_txt];
   UDelete b_txt; XRecheck {| k_method := Some Symlink; k_force := false |} [b_txt]].
Example cas_nonvacuous :
  K_relink r0 h_ok = false /\ panics r0 h_ok = false /\
  obj_read (fs (run_items r0 h_ok)) addr_text = Some lf /\
  obj_read (fs (run_items r0 h_ok)) (cache_addr a_txt (digest_of B3 Text junk)) = Some junk /\
  ws_read (fs (run_items r0 h_ok)) b_txt = Some lf.
Proof. vm_compute. repeat split. Qed.

(* ---- the known classes: the full statements are false of the faithful model ------------------------------ *)
Definition C02_immutable_full : Prop := forall r it b c c', reachable_r r ->
  obj_read (fs r) b = Some c -> obj_read (fs (fst (do_item r it))) b = Some c' -> c = c'.
Definition C02_readonly_full : Prop := forall a m t h b e, panics (init_repo a m t) h = false ->
  oget (fs (run_items (init_repo a m t) h)) b = Some e ->
  exists i n, e = EFile i /\ iget (fs (run_items (init_repo a m t) h)) i = Some n /\ i_w n = false.
Definition C02_cas_full : Prop := forall a m t h b c,
  obj_read (fs (run_items (init_repo a m t) h)) b = Some c -> fits (a_digest b) c.

(* P2 (alias): carry-in --force swaps an object for another byte string with the same text normal form *)
Definition h_alias : list item := [UWrite a_txt lf; XTrack t0 [a_txt]; UWrite a_txt crlf].
Example immutable_alias_refuted : ~ C02_immutable_full.
Proof.
  intros H.
  assert (R : reachable_r (run_items r0 h_alias)) by (apply reachable_r_run; vm_compute; reflexivity).
  specialize (H (run_items r0 h_alias) (XCarryIn c_force_o [a_txt]) addr_text lf crlf R).
  assert (E : lf = crlf) by (apply H; vm_compute; reflexivity). discriminate E.
Qed.
Example alias_witness_in_class :
  K_relink_item (run_items r0 h_alias) (XCarryIn c_force_o [a_txt]) = false /\
  K_alias_swap (run_items r0 h_alias) (XCarryIn c_force_o [a_txt]) = true.
Proof. vm_compute. split; reflexivity. Qed.

(* relink, hard-link form: a.txt is a hard link to its object; touch + track --text-or-binary binary
   renames the link to a second address: two addresses share one inode.  carry-in --force of b.txt
   (same bytes) then makes that inode writable before unlinking the first address: the second object is
   left WRITABLE although every command returned Ok *)
Definition h_relink : list item :=
  [UWrite a_txt crlf; XTrack t_hard [a_txt]; UTouch a_txt; XTrack t_bin [a_txt];
   UWrite b_txt crlf; XTrack t0 [b_txt]; XCarryIn c_force_o [b_txt]].
Example readonly_relink_refuted : ~ C02_readonly_full.
Proof.
  intros H. specialize (H B3 Copy Auto h_relink addr_bin (EFile 1%N)).
  destruct H as (i & n & E & Hi & Hw); [vm_compute; reflexivity|vm_compute; reflexivity|].
  injection E as <-. vm_compute in Hi. injection Hi as <-. discriminate Hw.
Qed.
Example relink_witness_in_class : K_relink r0 h_relink = true /\ panics r0 h_relink = false.
Proof. vm_compute. split; reflexivity. Qed.

(* ... and a later hard-link recheck + in-place edit changes the bytes of that object *)
Definition h_relink_cas : list item :=
  h_relink ++ [XRecheck {| k_method := Some Hardlink; k_force := false |} [a_txt]; UWriteThrough a_txt junk].
Example cas_relink_refuted : ~ C02_cas_full.
Proof.
  intros H. specialize (H B3 Copy Auto h_relink_cas addr_bin junk).
  assert (F : fits (a_digest addr_bin) junk) by (apply H; vm_compute; reflexivity).
  destruct F as [F|F]; vm_compute in F; discriminate F.
Qed.

(* relink, symlink form: b.txt (a duplicate of a.txt) is rechecked as a symlink to the shared object,
   then committed in binary mode: the SYMLINK is renamed into the cache *)
Definition h_symlink : list item :=
  [UWrite a_txt crlf; UWrite b_txt crlf; XTrack t_sym [a_txt; b_txt]; XTrack t_bin [b_txt]].
Example symlink_in_cache_refuted : ~ C02_readonly_full.
Proof.
  intros H. specialize (H B3 Copy Auto h_symlink addr_bin (ELink (cache_addr a_txt (digest_of B3 Text crlf)))).
  destruct H as (i & n & E & _); [vm_compute; reflexivity|vm_compute; reflexivity|discriminate E].
Qed.

(* ==== the code with the repairs of P41 (no link is renamed into the cache) and P44 / P42 behind switches ============
   Repo/Fix.v is the model with a switch per repair ([fixes]; the check derives the switches from the binary on
   every run).  With both switches off it IS the model above (model_with_switches_off).  For EVERY value of the
   switches the theorems hold outside the class
     K_x fx h = K_relink (only while P41 is not repaired)  or  a symbolic link gone stale inside a forced carry-in
   and K_relink is EMPTY once P41 is repaired (relink_class_empty_when_fixed): what is left is [stale_x], a corner
   of P2 (the object a symbolic link points to is swapped for a CR/LF alias by an earlier target of the same
   carry-in --force --text-or-binary, after the link's address was computed: stale_link_witness). *)
Theorem model_with_switches_off r it : do_item_x as_is r it = do_item r it.
Proof. exact (do_item_x_as_is r it). Qed.

Theorem cas_invariant_x fx a m t h b c :
  K_x fx (init_repo a m t) h = false ->
  obj_read (fs (run_items_x fx (init_repo a m t) h)) b = Some c -> fits (a_digest b) c.
Proof. exact (fun G => cas_x fx _ b c (reachable_x_run fx a m t h G)). Qed.

Theorem objects_readonly_files_x fx a m t h b e :
  K_x fx (init_repo a m t) h = false ->
  oget (fs (run_items_x fx (init_repo a m t) h)) b = Some e ->
  exists i n, e = EFile i /\ iget (fs (run_items_x fx (init_repo a m t) h)) i = Some n /\ i_w n = false /\
              (forall b', oget (fs (run_items_x fx (init_repo a m t) h)) b' = Some (EFile i) -> b' = b).
Proof. exact (fun G => objects_plain_x fx _ b e (reachable_x_run fx a m t h G)). Qed.

Theorem directories_readonly_x fx a m t h b :
  K_x fx (init_repo a m t) h = false -> panics_x fx (init_repo a m t) h = false ->
  oget (fs (run_items_x fx (init_repo a m t) h)) b <> None ->
  dget (fs (run_items_x fx (init_repo a m t) h)) (a_digest b) = Some false.
Proof. exact (readonly_x fx a m t h b). Qed.

Theorem objects_immutable_x fx r it b c c' :
  reachable_x fx r -> K_item_x fx r it = false -> mon_item_x fx alias_swap r it = false ->
  obj_read (fs r) b = Some c -> obj_read (fs (fst (do_item_x fx r it))) b = Some c' -> c = c'.
Proof. exact (immutable_x fx r it b c c'). Qed.

Theorem cache_monotone_x fx r it b e :
  reachable_x fx r -> K_item_x fx r it = false -> unforced it = true ->
  oget (fs r) b = Some e ->
  oget (fs (fst (do_item_x fx r it))) b = Some e /\ obj_read (fs (fst (do_item_x fx r it))) b = obj_read (fs r) b.
Proof. exact (monotone_x fx r it b e). Qed.

(* once P41 is repaired no history is in the class relink ... *)
Theorem relink_class_empty_when_fixed fx : fixed_P41 fx = true -> forall r h, mon_run_x fx (relink_x fx) r h = false.
Proof. exact (FixProofs.relink_class_empty_when_fixed fx). Qed.

(* ... so the content-address invariant holds without it: the full statement of the relink findings *)
Definition C02_cas_full_x (fx : fixes) : Prop := forall a m t h b c,
  mon_run_x fx stale_x (init_repo a m t) h = false ->
  obj_read (fs (run_items_x fx (init_repo a m t) h)) b = Some c -> fits (a_digest b) c.
Definition C02_readonly_full_x (fx : fixes) : Prop := forall a m t h b e,
  mon_run_x fx stale_x (init_repo a m t) h = false ->
  oget (fs (run_items_x fx (init_repo a m t) h)) b = Some e ->
  exists i n, e = EFile i /\ iget (fs (run_items_x fx (init_repo a m t) h)) i = Some n /\ i_w n = false /\
              (forall b', oget (fs (run_items_x fx (init_repo a m t) h)) b' = Some (EFile i) -> b' = b).

Theorem C02_cas_full_fixed fx : fixed_P41 fx = true -> C02_cas_full_x fx.
Proof. exact (fun H a m t h b c G => cas_x fx _ b c (reachable_x_run fx a m t h (eq_trans (K_x_fixed fx _ h H) G))). Qed.

Theorem C02_readonly_full_fixed fx : fixed_P41 fx = true -> C02_readonly_full_x fx.
Proof. exact (fun H a m t h b e G => objects_plain_x fx _ b e (reachable_x_run fx a m t h (eq_trans (K_x_fixed fx _ h H) G))). Qed.

(* the stale-link class is a corner of P2: an item that swaps no object for a CR/LF alias (and, while P41 is not
   repaired, renames no link) has no stale link *)
Theorem stale_link_class_needs_alias_swap fx r it :
  reachable_x fx r -> mon_item_x fx (relink_x fx) r it = false -> mon_item_x fx alias_swap r it = false ->
  mon_item_x fx stale_x r it = false.
Proof. exact (fun Hr => stale_needs_alias_swap fx r it (proj1 (reachable_x_INV fx r Hr)) (proj2 (reachable_x_INV fx r Hr))). Qed.

Check cas_invariant_x : forall fx a m t h b c, K_x fx (init_repo a m t) h = false ->
  obj_read (fs (run_items_x fx (init_repo a m t) h)) b = Some c -> fits (a_digest b) c.
Check C02_cas_full_fixed : forall fx, fixed_P41 fx = true -> forall a m t h b c,
  mon_run_x fx stale_x (init_repo a m t) h = false ->
  obj_read (fs (run_items_x fx (init_repo a m t) h)) b = Some c -> fits (a_digest b) c.

(* the relink witnesses in the repaired model: outside every class, no panic, both objects regular read-only files
   with their own inodes, the in-place edit refused *)
Example relink_witnesses_repaired :
  K_x all_fixed r0 h_relink = false /\ panics_x all_fixed r0 h_relink = false /\
  K_x all_fixed r0 h_symlink = false /\ panics_x all_fixed r0 h_symlink = false /\
  K_x all_fixed r0 h_relink_cas = false /\
  obj_read (fs (run_items_x all_fixed r0 h_relink_cas)) addr_bin = Some crlf /\
  (exists i j, oget (fs (run_items_x all_fixed r0 h_relink)) addr_bin = Some (EFile i) /\
               oget (fs (run_items_x all_fixed r0 h_relink)) (cache_addr a_txt (digest_of B3 Text crlf)) = Some (EFile j) /\ i <> j) /\
  (exists i, oget (fs (run_items_x all_fixed r0 h_symlink)) addr_bin = Some (EFile i)).
Proof.
  vm_compute. repeat split; try reflexivity.
  - eexists _, _. split; [reflexivity|split; [reflexivity|discriminate]].
  - eexists. reflexivity.
Qed.
(* and in the model of the code as it is the same histories are in the class *)
Example relink_witnesses_as_is : K_x as_is r0 h_relink = true /\ K_x as_is r0 h_symlink = true.
Proof. vm_compute. split; reflexivity. Qed.

(* what is left of the class once P41 is repaired (a corner of P2): y.txt holds "a\nb\n" at the text address X;
   z.txt ("a\r\nb\r\n", recorded with --no-commit: the same text digest) and q.txt (a symbolic link to X) are
   carried in by ONE carry-in --force --text-or-binary binary.  The address of q.txt is computed from what the link
   reads then (the LF bytes); z.txt then replaces X by its CR/LF alias; what is copied for q.txt afterwards are the
   CR/LF bytes: they do not hash to the address.  Without the alias swap (P2) this cannot happen. *)
Definition y_txt : path := [121; 46; 116; 120; 116]%N.
Definition z_txt : path := [122; 46; 116; 120; 116]%N.
Definition q_txt : path := [113; 46; 116; 120; 116]%N.
Definition t_nc : track_opts := {| t_method := None; t_tob := None; t_no_commit := true; t_force := false |}.
Definition h_stale : list item :=
  [UWrite y_txt lf; XTrack t0 [y_txt]; UWrite z_txt crlf; XTrack t_nc [z_txt]; UWrite q_txt lf; XTrack t_sym [q_txt];
   XCarryIn {| c_tob := Some Binary; c_force := true |} [z_txt; q_txt]].
Definition C02_cas_unconditional_x (fx : fixes) : Prop := forall a m t h b c,
  obj_read (fs (run_items_x fx (init_repo a m t) h)) b = Some c -> fits (a_digest b) c.
Example stale_link_witness : ~ C02_cas_unconditional_x all_fixed.
Proof.
  intros H. specialize (H B3 Copy Auto h_stale (cache_addr q_txt (digest_of B3 Binary lf)) crlf).
  assert (F : fits (a_digest (cache_addr q_txt (digest_of B3 Binary lf))) crlf) by (apply H; vm_compute; reflexivity).
  destruct F as [F|F]; vm_compute in F; discriminate F.
Qed.
Example stale_link_witness_in_class :
  mon_run_x all_fixed stale_x r0 h_stale = true /\ mon_run_x all_fixed alias_swap r0 h_stale = true /\ panics_x all_fixed r0 h_stale = false.
Proof. vm_compute. repeat split. Qed.

Print Assumptions cas_invariant.
Print Assumptions address_fits_content.
Print Assumptions objects_readonly_files.
Print Assumptions directories_readonly.
Print Assumptions objects_immutable.
Print Assumptions cache_monotone.
Print Assumptions dedup.
Print Assumptions one_address_same_normal_form.
Print Assumptions model_with_switches_off.
Print Assumptions cas_invariant_x.
Print Assumptions objects_readonly_files_x.
Print Assumptions directories_readonly_x.
Print Assumptions objects_immutable_x.
Print Assumptions cache_monotone_x.
Print Assumptions relink_class_empty_when_fixed.
Print Assumptions C02_cas_full_fixed.
Print Assumptions C02_readonly_full_fixed.
Print Assumptions stale_link_class_needs_alias_swap.
