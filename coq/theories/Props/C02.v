(* C02 — cache objects are content-addressed and immutable (work in progress: the invariants over
   histories are added below as they are proved). *)
From Coq Require Import List Bool NArith.
From XV Require Import Base.Amap Base.Bytes Repo.Model Repo.Proofs.
Import ListNotations.

(* the address computed for a file fits its bytes: it is the digest of the bytes or of the
   CR/LF-stripped bytes, whatever the mode *)
Theorem address_fits_content a t c : fits (digest_of a t c) c.
Proof. exact (digest_of_fits a t c). Qed.

(* identical content with the same extension tracked at several paths has a single address *)
Theorem dedup a t c p1 p2 :
  extension p1 = extension p2 -> cache_addr p1 (digest_of a t c) = cache_addr p2 (digest_of a t c).
Proof. exact (dedup_same_address a t c p1 p2). Qed.

Print Assumptions address_fits_content.
Print Assumptions dedup.
