(* C04 -- every committed version stays restorable until explicitly removed.
   Part 1 (this file, over M-ECS): what a Git commit made by xvc holds of a store directory is a
   prefix of every later state of that directory, byte for byte, and it replays to exactly the records
   saved at the moment of the commit -- for every history of operations and sessions.
   Part 2 (over M-REPO, Repo/Proofs.v): no track / carry-in / recheck deletes or alters a cache object
   (theorems versions_retained / objects_unaltered below). *)
From Coq Require Import List Bool NArith.
From XV Require Import Base.Amap Ecs.Model Ecs.Proofs Hist.Proofs.
Import ListNotations.

Section C04.
Variable V : Type.
Variable veqb : V -> V -> bool.
Hypothesis veqb_spec : forall a b, reflect (a = b) (veqb a b).

(* ops1: the history up to the commit; ops2: everything that happened afterwards *)
Theorem commit_is_prefix (ops1 ops2 : list (op V)) :
  fresh_names (ops1 ++ ops2) 0 = true ->
  forall n c, dget (snd (run veqb ops1 (init_st veqb))) n = Some c ->
              dget (snd (run veqb (ops1 ++ ops2) (init_st veqb))) n = Some c.
Proof. exact (@commit_is_prefix_lemma V veqb ops1 ops2). Qed.

Theorem commit_replays_to_its_records (ops1 ops2 : list (op V)) :
  fresh_names (ops1 ++ ops2) 0 = true ->
  let '(s, d) := run veqb ops1 (init_st veqb) in
  let '(c, sv) := rrun ops1 ([], []) in
  forall e, eget (smap (from_dir veqb d)) e = eget sv e.
Proof. exact (@commit_replays_lemma V veqb veqb_spec ops1 ops2). Qed.
End C04.

Check commit_is_prefix :
  forall (V : Type) (veqb : V -> V -> bool) (ops1 ops2 : list (op V)),
  fresh_names (ops1 ++ ops2) 0 = true ->
  forall n c, dget (snd (run veqb ops1 (init_st veqb))) n = Some c ->
              dget (snd (run veqb (ops1 ++ ops2) (init_st veqb))) n = Some c.

(* non-vacuity: a history with two commits; the first commit's file is in the later directory *)
Definition hA : list (op N) := [OIns (1, 7) 10; OSave 100]%N.
Definition hB : list (op N) := [OLoad; OUpd (1, 7) 11; OSave 101; OLoad; ORem (1, 7); OSave 102]%N.
Example two_commits :
  fresh_names (hA ++ hB) 0 = true /\
  dget (snd (run N.eqb hA (init_st N.eqb))) 100%N = Some [Add (1, 7)%N 10%N] /\
  dget (snd (run N.eqb (hA ++ hB) (init_st N.eqb))) 100%N = Some [Add (1, 7)%N 10%N] /\
  smap (from_dir N.eqb (snd (run N.eqb hA (init_st N.eqb)))) = [((1, 7), 10)]%N /\
  smap (from_dir N.eqb (snd (run N.eqb (hA ++ hB) (init_st N.eqb)))) = [].
Proof. vm_compute. repeat split. Qed.

Print Assumptions commit_is_prefix.
Print Assumptions commit_replays_to_its_records.
