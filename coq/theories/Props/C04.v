(* C04 -- every committed version stays restorable until explicitly removed.
   Part 1 (this file, over M-ECS): what a Git commit made by xvc holds of a store directory is a
   prefix of every later state of that directory, byte for byte, and it replays to exactly the records
   saved at the moment of the commit -- for every history of operations and sessions.
   Part 2 (over M-REPO, Repo/Proofs.v): no track / carry-in / recheck deletes or alters a cache object
   (theorems versions_retained / objects_unaltered below). *)
From Coq Require Import List Bool NArith.
From XV Require Import Base.Amap Base.Bytes Ecs.Model Ecs.Proofs Hist.Proofs.
Import ListNotations.

Section C04.
Variable V : Type.
Variable veqb : V -> V -> bool.
Hypothesis veqb_spec : forall a b, reflect (a = b) (veqb a b).

(* ops1: the history up to the commit; ops2: everything that happened afterwards *)
Theorem commit_is_prefix (ops1 ops2 : list (op V)) :
  fresh_names (ops1 ++ ops2) 0 = true ->
  forall n c, dget (snd (run veqb ops1 (init_st veqb))) n = Some c ->
              dget (snd (run veqb (ops1 ++ ops2) (init_st veqb))) n = Some c.
Proof. exact (@commit_is_prefix_lemma V veqb ops1 ops2). Qed.

Theorem commit_replays_to_its_records (ops1 ops2 : list (op V)) :
  fresh_names (ops1 ++ ops2) 0 = true ->
  let '(s, d) := run veqb ops1 (init_st veqb) in
  let '(c, sv) := rrun ops1 ([], []) in
  forall e, eget (smap (from_dir veqb d)) e = eget sv e.
Proof. exact (@commit_replays_lemma V veqb veqb_spec ops1 ops2). Qed.
End C04.

Check commit_is_prefix :
  forall (V : Type) (veqb : V -> V -> bool) (ops1 ops2 : list (op V)),
  fresh_names (ops1 ++ ops2) 0 = true ->
  forall n c, dget (snd (run veqb ops1 (init_st veqb))) n = Some c ->
              dget (snd (run veqb (ops1 ++ ops2) (init_st veqb))) n = Some c.

(* non-vacuity: a history with two commits; the first commit's file is in the later directory *)
Definition hA : list (op N) := [OIns (1, 7) 10; OSave 100]%N.
Definition hB : list (op N) := [OLoad; OUpd (1, 7) 11; OSave 101; OLoad; ORem (1, 7); OSave 102]%N.
Example two_commits :
  fresh_names (hA ++ hB) 0 = true /\
  dget (snd (run N.eqb hA (init_st N.eqb))) 100%N = Some [Add (1, 7)%N 10%N] /\
  dget (snd (run N.eqb (hA ++ hB) (init_st N.eqb))) 100%N = Some [Add (1, 7)%N 10%N] /\
  smap (from_dir N.eqb (snd (run N.eqb hA (init_st N.eqb)))) = [((1, 7), 10)]%N /\
  smap (from_dir N.eqb (snd (run N.eqb (hA ++ hB) (init_st N.eqb)))) = [].
Proof. vm_compute. repeat split. Qed.

(* ---- Part 2: the cache along histories (M-REPO) -------------------------------------------------------- *)
From XV Require Import Repo.Model Repo.Inv Repo.Restore Repo.Stamps Repo.Main Hist.Cache.

(* committing a new version never deletes or alters an earlier one: along ANY history of user actions and
   unforced track / carry-in / recheck commands, from ANY reachable repository, every cache object that was
   there is still there with the same entry and the same bytes *)
Theorem versions_retained (h : list item) (r : repo) (b : caddr) (e : entry) :
  reachable_r r -> mon_run relink r h = false -> forallb unforced h = true ->
  oget (fs r) b = Some e ->
  oget (fs (run_items r h)) b = Some e /\ obj_read (fs (run_items r h)) b = obj_read (fs r) b.
Proof. exact (objects_retained_run h r b e). Qed.

(* so a version committed at some point is restorable after any later history that does not commit over
   the path with --force: delete the file, recheck, and the committed bytes are back *)
Theorem committed_version_stays_restorable (r : repo) (h : list item) (p : path) (c : bytes) (o : recheck_opts) :
  reachable_r r -> committed r p c -> mon_run relink r h = false -> forallb (harmless p) h = true ->
  ws_read (fs (run_items (run_items r h) [UDelete p; XRecheck o [p]])) p = Some c.
Proof. exact (stays_restorable_final r h p c o). Qed.

(* ---- Part 3: copy and move (M-REPO extension, Repo/Ext.v) ------------------------------------------------------------------
   The histories of the property also contain copy and move.  For EVERY reachable repository (Repo/ExtReach.xreach: histories
   of user actions, track / carry-in / recheck, copy / move / remove / untrack outside the known classes) and both values of
   every repair switch, a copy or move keeps every cache object with its entry and its bytes: *)
From XV Require Import Glob.Match Repo.Ext Repo.ExtProofs Repo.ExtShare Repo.ExtReach.

Theorem copy_move_retain_versions fl (r : xrepo) (it : xitem) (a : caddr) (e : entry) :
  xreach fl r -> xclean r it = true -> is_copy_or_move it = true -> oget (xfs r) a = Some e ->
  oget (xfs (fst (do_xitem fl r it))) a = Some e /\ obj_read (xfs (fst (do_xitem fl r it))) a = obj_read (xfs r) a.
Proof. exact (copy_move_retain fl r it a e). Qed.

(* "for every tracked path, the set of restorable versions equals the set of versions ever committed" across a move: the
   address of a version is (digest, extension of the CURRENT path), so after `move s d` every version dg of the digest
   history of the moved entity that had an object under s must have one under d (bytes of the same normal form).
   This holds outside the class of P3 -- destinations with another extension while the repair is absent; EMPTY when the
   switch fixed_P3 (read from the source on every run) is on: *)
Theorem moved_versions_follow fl : C19_move_at fl (K_cross_ext_fl fl).
Proof. exact (move_outside_class fl). Qed.
Theorem moved_versions_follow_fixed fl : fixed_P3 fl = true -> C19_move_at fl (fun _ _ => false).
Proof. exact (fun P3 => proj2 (full_when_fixed fl P3)). Qed.
Theorem cross_ext_class_empty_when_fixed fl s d : fixed_P3 fl = true -> K_cross_ext_fl fl s d = false.
Proof. exact (K_cross_ext_empty_when_fixed_lemma fl s d). Qed.
(* P3, the code as it is: `track a.txt; move a.txt b.dat` leaves the only version of b.dat without an object at its address *)
Theorem cross_ext_versions_refuted : ~ C19_move_at as_is (fun _ _ => false).
Proof. exact cross_ext_move_refuted_lemma. Qed.

Example copy_move_retain_example :   (* a.txt tracked, then copied / moved to b.dat with the repair: the object of a.txt is kept *)
  let r := run_xitems all_fixed r0 h_cross in
  xreach all_fixed r /\
  (forall it, In it [XCopy c_plain s_a_txt s_b_dat; XMove m_plain s_a_txt s_b_dat] ->
     xclean r it = true /\ is_copy_or_move it = true /\
     obj_read (xfs (fst (do_xitem all_fixed r it))) (cache_addr s_a_txt (digest_of B3 Auto s_hello)) = Some s_hello /\
     obj_read (xfs (fst (do_xitem all_fixed r it))) (cache_addr s_b_dat (digest_of B3 Auto s_hello)) = Some s_hello).
Proof.
  split; [exact (h_cross_reach all_fixed eq_refl)|].
  intros it [<-|[<-|[]]]; vm_compute; repeat split; reflexivity.
Qed.

Print Assumptions commit_is_prefix.
Print Assumptions versions_retained.
Print Assumptions committed_version_stays_restorable.
Print Assumptions commit_replays_to_its_records.
Print Assumptions copy_move_retain_versions.
Print Assumptions moved_versions_follow.
Print Assumptions moved_versions_follow_fixed.
Print Assumptions cross_ext_class_empty_when_fixed.
Print Assumptions cross_ext_versions_refuted.
