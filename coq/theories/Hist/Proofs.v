(* History retention over M-ECS (used by C04): the store directory only grows along a history, so
   the set of event files a Git commit holds is a prefix of every later directory and replays to
   the records of the moment of the commit. *)
From Coq Require Import List Bool NArith Lia.
From XV Require Import Base.Amap Ecs.Model Ecs.Proofs.
Import ListNotations.

Section H.
Variable V : Type.
Variable veqb : V -> V -> bool.
Hypothesis veqb_spec : forall a b, reflect (a = b) (veqb a b).

Notation dir := (dir V).
Notation st := (st V).

Definition hi_after (o : op V) (hi : N) : N := match o with OSave ts => ts | _ => hi end.

Lemma to_dir_names_below ts (d : dir) (s : store V) hi :
  names_below d hi -> (hi < ts)%N -> names_below (to_dir ts d s) ts.
Proof.
  intros Hb Hlt n Hn. apply save_adds_at_most_ts in Hn. destruct Hn as [->|Hn]; [lia|].
  specialize (Hb n Hn). lia.
Qed.

Lemma names_below_mono (d : dir) a b : names_below d a -> (a <= b)%N -> names_below d b.
Proof. intros H L n Hn. specialize (H n Hn). lia. Qed.

Lemma step_dir_mono hi (x : st) o :
  fresh_names [o] hi = true -> names_below (snd x) hi ->
  (forall n c, dget (snd x) n = Some c -> dget (snd (step veqb x o)) n = Some c) /\
  names_below (snd (step veqb x o)) (hi_after o hi).
Proof.
  destruct x as [s d]. cbn [snd]. intros Hf Hb.
  destruct o as [e v|e v|e|ts|]; cbn [step snd hi_after]; try (split; [auto|exact Hb]).
  cbn in Hf. rewrite andb_true_r in Hf. apply N.ltb_lt in Hf. split.
  - intros n c G. apply save_append_only_lemma; [|exact G].
    intros E. subst n.
    assert (I : In ts (keys d)) by (exact (in_map fst _ _ (@get_In _ _ N.eqb Neqb_spec d ts c G))).
    specialize (Hb ts I). lia.
  - eapply to_dir_names_below; eauto.
Qed.

Lemma fresh_names_cons (o : op V) ops hi :
  fresh_names (o :: ops) hi = true -> fresh_names [o] hi = true /\ fresh_names ops (hi_after o hi) = true.
Proof.
  destruct o; cbn; try (intros H; split; [reflexivity|exact H]).
  intros H. apply andb_true_iff in H as [A B]. rewrite A. split; [reflexivity|exact B].
Qed.

Lemma run_dir_mono ops : forall hi (x : st),
  fresh_names ops hi = true -> names_below (snd x) hi ->
  forall n c, dget (snd x) n = Some c -> dget (snd (run veqb ops x)) n = Some c.
Proof.
  induction ops as [|o ops IH]; intros hi x Hf Hb n c G; [exact G|].
  apply fresh_names_cons in Hf as [Ho Hr].
  destruct (step_dir_mono hi x o Ho Hb) as [M B].
  cbn [run fold_left]. apply (IH (hi_after o hi) (step veqb x o) Hr B). apply M, G.
Qed.

Lemma run_names_below ops : forall hi (x : st) r,
  fresh_names (ops ++ r) hi = true -> names_below (snd x) hi ->
  exists hi', names_below (snd (run veqb ops x)) hi' /\ fresh_names r hi' = true.
Proof.
  induction ops as [|o ops IH]; intros hi x r Hf Hb.
  - exists hi. split; [exact Hb|exact Hf].
  - cbn [app] in Hf. apply fresh_names_cons in Hf as [Ho Hr].
    destruct (step_dir_mono hi x o Ho Hb) as [_ B].
    exact (IH (hi_after o hi) (step veqb x o) r Hr B).
Qed.

Lemma fresh_names_app (ops r : list (op V)) hi :
  fresh_names (ops ++ r) hi = true -> fresh_names ops hi = true.
Proof.
  revert hi; induction ops as [|o ops IH]; intros hi H; [reflexivity|].
  destruct o; cbn [app fresh_names] in *; try (apply IH; exact H).
  apply andb_true_iff in H as [A B]. rewrite A. cbn. apply IH, B.
Qed.

Lemma names_below_nil hi : names_below (@nil (N * list (event V))) hi.
Proof. intros n []. Qed.

(* the directory after a prefix of the history is contained, file by file and byte by byte, in the
   directory after the whole history: what a commit made at that point holds is still there, unchanged *)
Theorem commit_is_prefix_lemma (ops1 ops2 : list (op V)) :
  fresh_names (ops1 ++ ops2) 0 = true ->
  forall n c, dget (snd (run veqb ops1 (init_st veqb))) n = Some c ->
              dget (snd (run veqb (ops1 ++ ops2) (init_st veqb))) n = Some c.
Proof.
  intros Hf n c G. unfold run. rewrite fold_left_app. fold (run veqb ops1 (init_st veqb)).
  destruct (run_names_below ops1 0 (init_st veqb) ops2 Hf (names_below_nil 0)) as (hi' & B & E).
  exact (run_dir_mono ops2 hi' (run veqb ops1 (init_st veqb)) E B n c G).
Qed.

(* ... and it replays to the records as they were saved at that point *)
Theorem commit_replays_lemma (ops1 ops2 : list (op V)) :
  fresh_names (ops1 ++ ops2) 0 = true ->
  let '(s, d) := run veqb ops1 (init_st veqb) in
  let '(c, sv) := rrun ops1 ([], []) in
  forall e, eget (smap (from_dir veqb d)) e = eget sv e.
Proof.
  intros Hf. pose proof (fresh_names_app ops1 ops2 0 Hf) as H1.
  pose proof (@replay_refines_map_lemma V veqb veqb_spec ops1 H1) as R.
  destruct (run veqb ops1 (init_st veqb)) as [s d]. destruct (rrun ops1 ([], [])) as [c sv].
  exact (proj2 R).
Qed.
End H.
