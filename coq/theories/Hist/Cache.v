(* History retention over M-REPO (used by C04): along ANY history of unforced items no cache object is
   deleted or altered -- the run-level lift of Repo/Main.monotone_final. *)
From Coq Require Import List Bool NArith.
From XV Require Import Base.Amap Base.Bytes Repo.Model Repo.Inv Repo.Restore Repo.Stamps Repo.Main.
Import ListNotations.

Lemma objects_retained_run h : forall r b e,
  reachable_r r -> mon_run relink r h = false -> forallb unforced h = true ->
  oget (fs r) b = Some e ->
  oget (fs (run_items r h)) b = Some e /\ obj_read (fs (run_items r h)) b = obj_read (fs r) b.
Proof.
  induction h as [|it t IH]; intros r b e Hr G U O; [split; [exact O|reflexivity]|].
  cbn [mon_run] in G. apply orb_false_iff in G as [G1 G2].
  cbn [forallb] in U. apply andb_true_iff in U as [U1 U2].
  destruct (monotone_final r it b e Hr G1 U1 O) as [O1 R1].
  pose proof (reachable_r_step r it Hr G1) as Hr1.
  destruct (IH (fst (do_item r it)) b e Hr1 G2 U2 O1) as [O2 R2].
  unfold run_items in *. cbn [fold_left]. split; [exact O2|]. rewrite R2. exact R1.
Qed.
