(* Proofs about M-CWD: a command run from a subdirectory d plans exactly what the same command plans
   at the root with every relative argument prefixed by "d/". *)
From Coq Require Import List Bool NArith Lia.
From XV Require Import Base.Bytes Cwd.Model.
Import ListNotations.

(* ---- strings ------------------------------------------------------------------------------------ *)
Lemma ends_with_slash_app s : ends_with_slash (s ++ [slash]) = true.
Proof. unfold ends_with_slash. rewrite rev_app_distr. reflexivity. Qed.

Lemma ends_with_slash_inv s : ends_with_slash s = true -> exists s0, s = s0 ++ [slash].
Proof.
  unfold ends_with_slash. destruct (rev s) as [|c r] eqn:E; [discriminate|].
  intros H. apply N.eqb_eq in H. subst c. exists (rev r).
  rewrite <- (rev_involutive s), E. reflexivity.
Qed.

Lemma with_slash_ends d : ends_with_slash (with_slash d) = true.
Proof. unfold with_slash. destruct (ends_with_slash d) eqn:E; [exact E|apply ends_with_slash_app]. Qed.

Lemma with_slash_nonempty d : with_slash d <> [].
Proof.
  unfold with_slash. destruct (ends_with_slash d) eqn:E.
  - destruct d; [discriminate|discriminate].
  - destruct d; discriminate.
Qed.

Lemma with_slash_idem d : with_slash (with_slash d) = with_slash d.
Proof. unfold with_slash at 1. now rewrite with_slash_ends. Qed.

(* ---- components ----------------------------------------------------------------------------------- *)
Lemma split_slash_app s t cur :
  split_slash (s ++ slash :: t) cur = split_slash s cur ++ split_slash t [].
Proof.
  revert cur; induction s as [|c r IH]; intros cur; cbn [app split_slash].
  - rewrite N.eqb_refl. reflexivity.
  - destruct (N.eqb c slash); [rewrite IH; reflexivity|apply IH].
Qed.

Lemma comps_app_slash s t : comps (s ++ slash :: t) = comps s ++ comps t.
Proof. unfold comps. rewrite split_slash_app, filter_app. reflexivity. Qed.

Lemma comps_nil : comps [] = [].
Proof. reflexivity. Qed.

Lemma comps_with_slash d t : comps (with_slash d ++ t) = comps d ++ comps t.
Proof.
  unfold with_slash. destruct (ends_with_slash d) eqn:E.
  - destruct (ends_with_slash_inv d E) as [d0 ->].
    rewrite <- app_assoc. cbn [app]. rewrite comps_app_slash.
    replace (d0 ++ [slash]) with (d0 ++ slash :: []) by reflexivity.
    rewrite comps_app_slash, comps_nil, app_nil_r. reflexivity.
  - rewrite <- app_assoc. cbn [app]. apply comps_app_slash.
Qed.

Lemma absolutize_app acc a b : absolutize acc (a ++ b) = absolutize (absolutize acc a) b.
Proof.
  revert acc; induction a as [|c r IH]; intros acc; cbn [app absolutize]; [reflexivity|].
  destruct (is_dotdot c); apply IH.
Qed.

Definition clean (l : list str) : bool := forallb (fun c => negb (is_dotdot c)) l.

Lemma absolutize_clean acc a : clean a = true -> absolutize acc a = rev a ++ acc.
Proof.
  revert acc; induction a as [|c r IH]; intros acc H; cbn [absolutize rev app]; [reflexivity|].
  cbn in H. apply andb_true_iff in H as [Hc Hr]. apply negb_true_iff in Hc. rewrite Hc.
  rewrite IH by exact Hr. rewrite <- app_assoc. reflexivity.
Qed.

(* a directory the command can run in: its components contain no ".." (it comes from strip_prefix
   of two canonical absolute paths) and it is not the root *)
Definition subdir (d : str) : Prop := clean (comps d) = true /\ d <> [].

(* XvcPath::new relative to the subdirectory = XvcPath::new relative to the root of "d/" ++ s *)
Lemma xvcpath_new_rebase rootabs d s :
  clean (comps d) = true -> s <> [] ->
  xvcpath_new rootabs (Some (comps d)) s = xvcpath_new rootabs (Some []) (with_slash d ++ s).
Proof.
  intros Hd Hs. unfold xvcpath_new.
  destruct s as [|c r]; [congruence|].
  destruct (with_slash d ++ c :: r) eqn:E.
  - apply app_eq_nil in E as [_ E]. discriminate.
  - rewrite <- E. rewrite comps_with_slash, app_nil_r, absolutize_app.
    rewrite (absolutize_clean (rev rootabs) (comps d) Hd), <- rev_app_distr. reflexivity.
Qed.

Lemma strip_last_app a s : s <> [] -> strip_last (a ++ s) = a ++ strip_last s.
Proof.
  intros Hs. unfold strip_last. rewrite rev_app_distr.
  destruct (rev s) as [|x t] eqn:E.
  - apply (f_equal (@rev _)) in E. rewrite rev_involutive in E. now subst.
  - cbn [app tl]. rewrite rev_app_distr, rev_involutive. reflexivity.
Qed.

Lemma ends_with_slash_app_r a s : s <> [] -> ends_with_slash (a ++ s) = ends_with_slash s.
Proof.
  intros Hs. unfold ends_with_slash. rewrite rev_app_distr.
  destruct (rev s) as [|x t] eqn:E; [|reflexivity].
  apply (f_equal (@rev _)) in E. rewrite rev_involutive in E. now subst.
Qed.

(* a relative, non-empty command-line argument; a directory destination is more than the slash *)
Definition rel_arg (s : str) : bool :=
  match s with [] => false | c :: r => negb (N.eqb c slash) end.

Lemma rel_arg_strip_last s : rel_arg s = true -> ends_with_slash s = true -> strip_last s <> [].
Proof.
  intros Hr He. destruct (ends_with_slash_inv s He) as [s0 ->].
  unfold strip_last. rewrite rev_app_distr. cbn. rewrite rev_involutive.
  destruct s0; [cbn in Hr; discriminate|discriminate].
Qed.

(* ---- the plan ----------------------------------------------------------------------------------------- *)
Section Equivariance.
  Variable gms : list str -> str -> bool.
  Variable is_dir is_dir_out : str -> bool.
  Variable disk : list str.
  Variable file_out : str -> bool.
  Variable rootabs : list str.

  Let plan_of := plan_of gms is_dir is_dir_out disk file_out rootabs.
  Definition at_root : place := {| cwd := []; proc := Some [] |}.

  Lemma rebase_targets_sub sep d ts : d <> [] ->
    rebase_targets sep d ts =
    Some (match ts with Some l => map (fun t => (if sep then with_slash d else d) ++ t) l
                      | None => [if sep then with_slash d else d] end).
  Proof. destruct d; [congruence|reflexivity]. Qed.

  Lemma join_dir_sub d t : d <> [] -> join_dir d t = with_slash d ++ t.
  Proof. destruct d; [congruence|reflexivity]. Qed.

  Lemma rebase_targets_store_sub sep ec d ts : d <> [] ->
    rebase_targets_store sep ec d ts =
    Some (match ts with
          | Some [] => if ec then [if sep then with_slash d else d] else []
          | Some l => map (fun t => (if sep then with_slash d else d) ++ t) l
          | None => [if sep then with_slash d else d] end).
  Proof. destruct d; [congruence|reflexivity]. Qed.

  (* an empty target list has nothing to prefix: what it means from a subdirectory is the subject of
     no_targets_under_cwd / empty_targets_under_cwd below *)
  Lemma resolve_store_equivariant d pr ts stored : d <> [] -> ts <> Some [] ->
    resolve_store gms is_dir sites_fixed {| cwd := d; proc := pr |} ts stored =
    resolve_store gms is_dir sites_fixed at_root (a_targets (rebase_args d {| a_targets := ts; a_dest := None |})) stored.
  Proof.
    intros Hd Hne. unfold resolve_store. cbn [cwd st_store_sep st_store_empty_cwd sites_fixed at_root a_targets rebase_args].
    rewrite rebase_targets_store_sub by exact Hd. destruct ts as [[|t l]|]; [congruence|reflexivity|reflexivity].
  Qed.

  Lemma file_targets_root w w' ts :
    file_targets disk file_out BRoot w ts = file_targets disk file_out BRoot w' ts.
  Proof. induction ts as [|t r IH]; cbn; [reflexivity|]. now rewrite IH. Qed.

  Lemma resolve_disk_equivariant d pr ts : d <> [] ->
    resolve_disk gms is_dir is_dir_out disk file_out sites_fixed {| cwd := d; proc := pr |} ts =
    resolve_disk gms is_dir is_dir_out disk file_out sites_fixed at_root
                 (a_targets (rebase_args d {| a_targets := ts; a_dest := None |})).
  Proof.
    intros Hd. unfold resolve_disk. cbn [cwd st_disk_sep sites_fixed at_root a_targets rebase_args].
    rewrite rebase_targets_sub by exact Hd.
    cbn [st_disk_isdir st_disk_file]. unfold is_dir_at.
    destruct ts as [l|].
    - cbn [rebase_targets]. destruct (map (fun t => with_slash d ++ t) l) as [|g gs]; [reflexivity|].
      now rewrite (file_targets_root {| cwd := d; proc := pr |} at_root).
    - cbn [rebase_targets]. now rewrite (file_targets_root {| cwd := d; proc := pr |} at_root).
  Qed.

  Lemma track_dir_one_equivariant d pr t : subdir d ->
    track_dir_one is_dir is_dir_out rootabs sites_fixed {| cwd := d; proc := pr |} t =
    track_dir_one is_dir is_dir_out rootabs sites_fixed at_root (with_slash d ++ t).
  Proof.
    intros [Hc Hd]. unfold track_dir_one, is_dir_at.
    cbn [st_track_isdir st_track_resolve sites_fixed cwd at_root].
    rewrite (join_dir_sub d t Hd). cbn [join_dir].
    destruct (is_dir (with_slash d ++ t)); [|reflexivity].
    reflexivity.
  Qed.

  Lemma track_dirs_equivariant d pr ts : subdir d ->
    track_dir_targets is_dir is_dir_out rootabs sites_fixed {| cwd := d; proc := pr |} ts =
    track_dir_targets is_dir is_dir_out rootabs sites_fixed at_root
                      (a_targets (rebase_args d {| a_targets := ts; a_dest := None |})).
  Proof.
    intros Hs. unfold track_dir_targets. cbn [a_targets rebase_args]. f_equal.
    destruct ts as [l|].
    - rewrite map_map. apply map_ext. intros t. apply track_dir_one_equivariant, Hs.
    - cbn [map]. rewrite (track_dir_one_equivariant d pr [] Hs), app_nil_r. reflexivity.
  Qed.

  Lemma resolve_dest_cwd d pr s : subdir d -> rel_arg s = true ->
    resolve_dest rootabs BCwd BCwd {| cwd := d; proc := pr |} s =
    resolve_dest rootabs BCwd BCwd at_root (with_slash d ++ s).
  Proof.
    intros [Hc Hd] Hr. unfold resolve_dest.
    assert (Hs : s <> []) by (destruct s; [discriminate|discriminate]).
    rewrite (ends_with_slash_app_r (with_slash d) s Hs).
    cbn [dir_of cwd at_root]. rewrite comps_nil.
    destruct (ends_with_slash s) eqn:E.
    - rewrite (strip_last_app (with_slash d) s Hs).
      rewrite (xvcpath_new_rebase rootabs d (strip_last s) Hc (rel_arg_strip_last s Hr E)). reflexivity.
    - rewrite (xvcpath_new_rebase rootabs d s Hc Hs). reflexivity.
  Qed.

  (* THE property on the model: for the sites of the current code, the plan of a command run in the
     subdirectory d (from a process in d, or anywhere else with -C d) equals the plan of the same
     command at the root with its arguments rebased *)
  Theorem plan_equivariant_fixed d pr a stored :
    subdir d ->
    a_targets a <> Some [] ->
    match a_dest a with Some s => rel_arg s = true | None => True end ->
    plan_of sites_fixed {| cwd := d; proc := pr |} a stored =
    plan_of sites_fixed at_root (rebase_args d a) stored.
  Proof.
    intros Hs Hne Hdst. destruct a as [ts dst]. unfold plan_of, Model.plan_of.
    cbn [a_targets a_dest rebase_args]. cbn [a_targets] in Hne.
    pose proof (resolve_store_equivariant d pr ts stored (proj2 Hs) Hne) as E1.
    pose proof (resolve_disk_equivariant d pr ts (proj2 Hs)) as E2.
    pose proof (track_dirs_equivariant d pr ts Hs) as E3.
    cbn [a_targets rebase_args] in E1, E2, E3. rewrite E1, E2, E3.
    destruct dst as [s|]; [|reflexivity].
    cbn [st_copy_dirdest st_copy_filedest st_move_dirdest st_move_filedest sites_fixed].
    cbn in Hdst. rewrite (resolve_dest_cwd d pr s Hs Hdst). reflexivity.
  Qed.

  (* with no targets a store command applies to exactly the tracked paths under the current directory,
     for every matcher that reads "d/**" as "starts with d/" *)
  Hypothesis gms_dir : forall g p, ends_with_slash g = true -> gms [g ++ [star; star]] p = starts_with g p.

  Theorem no_targets_under_cwd d pr stored : d <> [] ->
    resolve_store gms is_dir sites_fixed {| cwd := d; proc := pr |} None stored =
    filter (starts_with (with_slash d)) stored.
  Proof.
    intros Hd. unfold resolve_store. cbn [cwd st_store_sep st_store_empty_cwd sites_fixed].
    rewrite rebase_targets_store_sub by exact Hd. unfold filter_by_globs. cbn [map].
    unfold norm_dir_glob. rewrite with_slash_ends. cbn [negb andb].
    unfold matcher_glob. rewrite with_slash_ends.
    apply filter_ext. intros p. apply gms_dir, with_slash_ends.
  Qed.

  (* the commands that hand over their target LIST (remove, untrack) give an empty list when no target is
     named: the same paths, those under the current directory *)
  Theorem empty_targets_under_cwd d pr stored : d <> [] ->
    resolve_store gms is_dir sites_fixed {| cwd := d; proc := pr |} (Some []) stored =
    filter (starts_with (with_slash d)) stored.
  Proof.
    intros Hd. rewrite <- (no_targets_under_cwd d pr stored Hd).
    unfold resolve_store. cbn [cwd st_store_sep st_store_empty_cwd sites_fixed].
    rewrite !rebase_targets_store_sub by exact Hd. reflexivity.
  Qed.

  Theorem no_targets_at_root stored :
    resolve_store gms is_dir sites_fixed at_root None stored = stored.
  Proof. reflexivity. Qed.
End Equivariance.
