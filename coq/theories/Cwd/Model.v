(* M-CWD: executable model of everything in the `xvc file` commands that depends on the directory
   the command is run from (the process directory, or the directory given with -C):
     file/src/common/mod.rs   filter_targets_from_store, filter_paths_by_globs, build_glob_matcher,
                              targets_from_disk
     core/src/types/xvcpath.rs XvcPath::new (absolutize_from + strip_prefix)
     file/src/copy/mod.rs, file/src/mv/mod.rs   destination resolution ("dest/" and "dest")
     file/src/track/mod.rs    directory targets (for the .gitignore rules)
     file/src/list/mod.rs     names printed relative to the current directory
   The places where the code chooses WHICH directory a string is relative to are parameters of the
   model (record [sites]); their current values are read from the source on every run
   (gen/cwd_sites.py -> Gen/CwdSites.v).  The glob set matcher (fast_glob::Glob) and the disk are
   Section variables: the theorems hold for every matcher and every disk.
   No proofs in this file. *)
From Coq Require Import List Bool NArith.
From XV Require Import Base.Bytes.
Import ListNotations.

Definition str := bytes.
Definition star : N := 42.

Definition ends_with_slash (s : str) : bool :=
  match rev s with c :: _ => N.eqb c slash | [] => false end.
Definition contains (c : N) (s : str) : bool := existsb (N.eqb c) s.
Fixpoint starts_with (pre s : str) : bool :=
  match pre, s with
  | [], _ => true
  | a :: p, b :: t => N.eqb a b && starts_with p t
  | _ :: _, [] => false
  end.
Fixpoint strip_prefix (pre s : str) : option str :=
  match pre, s with
  | [], _ => Some s
  | a :: p, b :: t => if N.eqb a b then strip_prefix p t else None
  | _ :: _, [] => None
  end.

(* ---- which directory is a string relative to?  (read from the source) ------------------------ *)
Inductive base := BRoot | BCwd | BProcess.
Record sites := {
  st_store_sep : bool;        (* filter_targets_from_store joins cwd and target with a '/' *)
  st_store_empty_cwd : bool;  (* from a subdirectory, an EMPTY target list (remove, untrack pass Some(vec![])) means the
                                 current directory, like no list; false: it stays empty and selects every path *)
  st_disk_sep : bool;         (* targets_from_disk does *)
  st_copy_dirdest : base;     (* second argument of XvcPath::new for "dest/" in copy *)
  st_move_dirdest : base;     (*   ... in move *)
  st_copy_filedest : base;    (* second argument of XvcPath::new for "dest" in copy *)
  st_move_filedest : base;
  st_disk_isdir : base;       (* is_dir test on plain targets in targets_from_disk (reached at the root only) *)
  st_disk_file : base;        (* where path_metadata_map_from_file_targets reads the metadata *)
  st_track_isdir : base;      (* is_dir test of cmd_track's directory targets *)
  st_track_resolve : base     (* base of XvcPath::new for a directory target; BRoot: the absolute path is
                                 resolved against the root and the root itself is skipped *)
}.

(* where the command runs: [cwd] = the current directory of the command relative to the root
   ("" at the root, "d" or "d/e" below, as strip_prefix gives it); [proc] = the directory of the
   process relative to the root, None when the process runs outside the repository (only
   possible with -C).  Without -C, proc = Some cwd. *)
Record place := { cwd : str; proc : option str }.

Definition with_slash (d : str) : str := if ends_with_slash d then d else d ++ [slash].
Definition join_dir (d t : str) : str := match d with [] => t | _ => with_slash d ++ t end.

(* ---- XvcPath::new ----------------------------------------------------------------------------- *)
(* components of a relative path string, as std::path::Path::components gives them for a relative
   path: empty components and "." are dropped (a leading "." too, after the join) *)
Fixpoint split_slash (s : str) (cur : str) : list str :=
  match s with
  | [] => [rev cur]
  | c :: r => if N.eqb c slash then rev cur :: split_slash r [] else split_slash r (c :: cur)
  end.
Definition is_dotc (c : str) : bool := beqb c [dot].
Definition is_dotdot (c : str) : bool := beqb c [dot; dot].
Definition comps (s : str) : list str :=
  filter (fun c => negb (beqb c []) && negb (is_dotc c)) (split_slash s []).
(* path-absolutize: ".." pops lexically (at "/" it stays at "/") *)
Fixpoint absolutize (acc : list str) (* reversed absolute components *) (p : list str) : list str :=
  match p with
  | [] => acc
  | c :: r => if is_dotdot c then absolutize (tl acc) r else absolutize (c :: acc) r
  end.
Fixpoint strip_comps (pre l : list str) : option (list str) :=
  match pre, l with
  | [], _ => Some l
  | a :: p, b :: t => if beqb a b then strip_comps p t else None
  | _ :: _, [] => None
  end.
Inductive pres := POk (p : str) | PErr | PPanic.
Fixpoint join_comps (l : list str) : str :=
  match l with [] => [] | [c] => c | c :: r => c ++ [slash] ++ join_comps r end.
(* rootabs: the absolute path of the repository root, as components; dir: the directory the string is
   relative to, root-relative components (None: outside the repository => the result is not below the
   root unless the string climbs back, which the model does not follow: PErr) *)
Definition xvcpath_new (rootabs : list str) (dir : option (list str)) (s : str) : pres :=
  match s with
  | [] => PPanic                                         (* "Path shouldn't be empty" *)
  | _ => match dir with
         | None => PErr
         | Some d => match strip_comps rootabs (rev (absolutize (rev (rootabs ++ d)) (comps s))) with
                     | Some rel => POk (join_comps rel)
                     | None => PErr
                     end
         end
  end.

Definition dir_of (b : base) (w : place) : option (list str) :=
  match b with
  | BRoot => Some []
  | BCwd => Some (comps (cwd w))
  | BProcess => match proc w with Some p => Some (comps p) | None => None end
  end.

(* ---- target resolution -------------------------------------------------------------------------- *)
Definition rebase_targets (sep : bool) (d : str) (ts : option (list str)) : option (list str) :=
  match d with
  | [] => ts
  | _ => let pre := if sep then with_slash d else d in
         Some (match ts with Some l => map (fun t => pre ++ t) l | None => [pre] end)
  end.

(* filter_targets_from_store *)
Definition rebase_targets_store (sep emptycwd : bool) (d : str) (ts : option (list str)) : option (list str) :=
  match d with
  | [] => ts
  | _ => let pre := if sep then with_slash d else d in
         Some (match ts with
               | Some [] => if emptycwd then [pre] else []
               | Some l => map (fun t => pre ++ t) l
               | None => [pre]
               end)
  end.

Section Resolve.
  Variable gms : list str -> str -> bool.    (* fast_glob::Glob built from the globs, is_match *)
  Variable is_dir : str -> bool.             (* the root-relative string names a directory on disk *)
  Variable is_dir_out : str -> bool.         (* a string relative to a process directory outside the repository *)

  Definition is_dir_at (b : base) (w : place) (t : str) : bool :=
    match b with
    | BRoot => is_dir t
    | BCwd => is_dir (join_dir (cwd w) t)
    | BProcess => match proc w with Some p => is_dir (join_dir p t) | None => is_dir_out t end
    end.

  (* filter_paths_by_globs: "Ensure directories end with /" *)
  Definition norm_dir_glob (stored : list str) (g : str) : str :=
    if negb (ends_with_slash g) && negb (contains star g)
    then if existsb (starts_with (g ++ [slash])) stored then g ++ [slash] else g
    else g.
  (* build_glob_matcher (dir = the repository root) *)
  Definition matcher_glob (t : str) : str :=
    if ends_with_slash t then t ++ [star; star]
    else if negb (contains star t) then (if is_dir t then t ++ [slash; star; star] else t)
    else t.
  Definition filter_by_globs (stored : list str) (globs : list str) : list str :=
    match globs with
    | [] => stored
    | _ => let gs := map matcher_glob (map (norm_dir_glob stored) globs) in
           filter (gms gs) stored
    end.
  (* filter_targets_from_store *)
  Definition resolve_store (st : sites) (w : place) (ts : option (list str)) (stored : list str) : list str :=
    match rebase_targets_store (st_store_sep st) (st_store_empty_cwd st) (cwd w) ts with
    | None => stored
    | Some gs => filter_by_globs stored gs
    end.

  (* targets_from_disk.  [disk]: the non-ignored paths the walk from the root reports;
     [file_at b w t]: Some p when the plain target t, read relative to base b, names an existing
     non-ignored file, p being the XvcPath it is recorded under *)
  Variable disk : list str.
  Variable file_out : str -> bool.
  Definition file_at (b : base) (w : place) (t : str) : option str :=
    match b with
    | BRoot => if existsb (beqb t) disk then Some t else None
    | BCwd => if existsb (beqb (join_dir (cwd w) t)) disk then Some t else None
    | BProcess => match proc w with
                  | Some p => if existsb (beqb (join_dir p t)) disk then Some t else None
                  | None => if file_out t then Some t else None
                  end
    end.
  Fixpoint file_targets (b : base) (w : place) (ts : list str) : list str :=
    match ts with
    | [] => []
    | t :: r => match file_at b w t with Some p => p :: file_targets b w r | None => file_targets b w r end
    end.
  Definition resolve_disk (st : sites) (w : place) (ts : option (list str)) : list str :=
    match rebase_targets (st_disk_sep st) (cwd w) ts with
    | None => disk
    | Some [] => []
    | Some gs =>
        (* the recursive call runs with current_dir = root, but the process has not moved *)
        let walk := existsb (fun t => contains star t || ends_with_slash t || contains slash t
                                      || is_dir_at (st_disk_isdir st) w t) gs in
        let all := if walk then disk else file_targets (st_disk_file st) w gs in
        filter (gms (map matcher_glob gs)) all
    end.

  (* cmd_track: the directory targets that get a "/dir/" rule *)
  Variable rootabs : list str.
  (* None: a panic (XvcPath::new on an empty remainder) aborts the command after the records were saved *)
  Fixpoint keep_ok (l : list pres) : option (list str) :=
    match l with
    | [] => Some []
    | POk p :: r => match keep_ok r with Some k => Some (p :: k) | None => None end
    | PErr :: r => keep_ok r
    | PPanic :: _ => None
    end.
  Definition track_dir_one (st : sites) (w : place) (t : str) : pres :=
    if is_dir_at (st_track_isdir st) w t then
      match st_track_resolve st with
      | BRoot => match join_dir (cwd w) t with
                 | [] => PErr                                    (* abs = root: skipped *)
                 | s => xvcpath_new rootabs (Some []) s
                 end
      | b => xvcpath_new rootabs (dir_of b w) t
      end
    else PErr.
  (* without targets the current directory itself ("" relative to it) is the only directory target *)
  Definition track_dir_targets (st : sites) (w : place) (ts : option (list str)) : option (list str) :=
    keep_ok (map (track_dir_one st w) (match ts with Some l => l | None => [[]] end)).

  (* copy / move destination: "dest/" (a directory: each source goes below it) or "dest" *)
  Definition strip_last (s : str) : str := rev (tl (rev s)).
  Inductive dest := DDir (d : pres) | DFile (p : pres).
  Definition resolve_dest (dirb fileb : base) (w : place) (s : str) : dest :=
    if ends_with_slash s then DDir (xvcpath_new rootabs (dir_of dirb w) (strip_last s))
    else DFile (xvcpath_new rootabs (dir_of fileb w) s).

  (* file list: names are printed relative to the current directory *)
  Definition list_name (w : place) (p : str) : str :=
    match cwd w with
    | [] => p
    | d => match strip_prefix (with_slash d) p with Some r => r | None => p end
    end.

  (* everything a file command takes from its command line and the place it runs in *)
  Record args := { a_targets : option (list str); a_dest : option str }.
  Record plan := {
    p_store : list str;            (* carry-in, recheck, list, send, bring, remove, untrack, copy/move sources *)
    p_disk : list str;             (* track, list *)
    p_dirs : option (list str);    (* track: directory rules; None = the command panics before committing *)
    p_copy_dest : option dest;
    p_move_dest : option dest
  }.
  Definition plan_of (st : sites) (w : place) (a : args) (stored : list str) : plan :=
    {| p_store := resolve_store st w (a_targets a) stored;
       p_disk := resolve_disk st w (a_targets a);
       p_dirs := track_dir_targets st w (a_targets a);
       p_copy_dest := match a_dest a with Some s => Some (resolve_dest (st_copy_dirdest st) (st_copy_filedest st) w s) | None => None end;
       p_move_dest := match a_dest a with Some s => Some (resolve_dest (st_move_dirdest st) (st_move_filedest st) w s) | None => None end |}.
End Resolve.

(* the same command line seen from the root: every target and the destination prefixed with "d/" *)
Definition rebase_args (d : str) (a : args) : args :=
  {| a_targets := match a_targets a with
                  | Some l => Some (map (fun t => with_slash d ++ t) l)
                  | None => Some [with_slash d]
                  end;
     a_dest := match a_dest a with Some s => Some (with_slash d ++ s) | None => None end |}.

(* the sites as they were on the pinned tree (P6, P29), for the refutation witnesses *)
Definition sites_pinned : sites :=
  {| st_store_sep := false; st_store_empty_cwd := false; st_disk_sep := true; st_copy_dirdest := BRoot; st_move_dirdest := BRoot;
     st_copy_filedest := BCwd; st_move_filedest := BCwd; st_disk_isdir := BProcess; st_disk_file := BProcess;
     st_track_isdir := BProcess; st_track_resolve := BCwd |}.
Definition sites_fixed : sites :=
  {| st_store_sep := true; st_store_empty_cwd := true; st_disk_sep := true; st_copy_dirdest := BCwd; st_move_dirdest := BCwd;
     st_copy_filedest := BCwd; st_move_filedest := BCwd; st_disk_isdir := BRoot; st_disk_file := BRoot;
     st_track_isdir := BCwd; st_track_resolve := BRoot |}.
