(* M-WALK, executable helpers for the correspondence check (no proofs in this file):
   - [rr_sched]: the round-robin schedule used to drain a run after a generated schedule prefix;
   - trace validation: a trace logged by hook H2 in walker/src/walk_parallel.rs (events start / pop /
     merge / check / push / exit with the thread that performed them) is replayed through
     [Model.par_step]; every event must be a transition the model allows from the configuration
     reconstructed so far, and every logged verdict must be the verdict the model computes from the
     rule set at that point.
   The calling thread of walk_parallel lists the start directory itself before the eight threads
   exist: in the replay it is one more thread (index [main_thread]) of a machine whose queue
   initially holds the start directory; it pops it at the `start` event. *)
From Coq Require Import List NArith Bool.
From XV Require Import Glob.Match Glob.Pattern Walker.Model.
Import ListNotations.
Open Scope N_scope.

Fixpoint path_eqb (a b : path) : bool :=
  match a, b with
  | [], [] => true
  | x :: a', y :: b' => bytes_eqb x y && path_eqb a' b'
  | _, _ => false
  end.

Definition verdict_eqb (a b : verdict) : bool :=
  match a, b with
  | NoMatch, NoMatch | Ignore, Ignore | Whitelist, Whitelist => true
  | _, _ => false
  end.

(* [(0,0); (1,0); ...; (n-1,0)] repeated [rounds] times: FIFO pops, every thread once per round *)
Fixpoint seq_sched (n : nat) : list (nat * nat) :=
  match n with O => [] | S m => seq_sched m ++ [(m, O)] end.
Fixpoint rr_sched (n rounds : nat) : list (nat * nat) :=
  match rounds with O => [] | S r => seq_sched n ++ rr_sched n r end.

Inductive event :=
| EStart (th : nat)
| EPop (th : nat) (p : path)
| EMerge (th : nat) (p : path)
| ECheck (th : nat) (q : path) (v : verdict)
| EPush (th : nat) (p : path)
| EExit (th : nat).

Fixpoint find_item (p : path) (q : list ditem) (k : nat) : option nat :=
  match q with
  | [] => None
  | (p', _, _) :: r => if path_eqb p p' then Some k else find_item p r (S k)
  end.

(* why a trace is rejected *)
Inductive tv_error :=
| NotIdle | NotInQueue | NotMerging | WrongDirectory | NotChecking | WrongChild
| WrongVerdict (model : verdict) | NotPushing | StepRefused | UnfinishedThread | QueueNotEmpty.

Section Validate.
Variable gm : bytes -> bytes -> bool.
Variable fixed_P17 : bool.
Variable fixed_P35 : bool.
Variable fixed_P37 : bool.

Definition step1 (c : config) (th k : nat) : config + tv_error :=
  match par_step gm fixed_P17 fixed_P35 fixed_P37 c th k with Some c' => inl c' | None => inr StepRefused end.

(* the return of a thread to the top of its loop is not an event: taken as soon as it is enabled *)
Definition settle (c : config) (th : nat) : config :=
  match nth_error (c_threads c) th with
  | Some (Work [] []) => match par_step gm fixed_P17 fixed_P35 fixed_P37 c th O with Some c' => c' | None => c end
  | _ => c
  end.

Definition tv_pop (c : config) (th : nat) (p : path) : config + tv_error :=
  match nth_error (c_threads c) th with
  | Some Idle =>
    match find_item p (c_queue c) O with
    | Some k => step1 c th k
    | None => inr NotInQueue
    end
  | _ => inr NotIdle
  end.

Definition tv_event (c : config) (e : event) : config + tv_error :=
  match e with
  | EStart th => tv_pop c th []
  | EPop th p => tv_pop c th p
  | EMerge th p =>
    match nth_error (c_threads c) th with
    | Some (M1 (p', _, _)) =>
      if path_eqb p p' then
        match step1 c th O with
        | inl c1 => match step1 c1 th O with inl c2 => inl (settle c2 th) | inr e => inr e end
        | inr e => inr e
        end
      else inr WrongDirectory
    | _ => inr NotMerging
    end
  | ECheck th q v =>
    match nth_error (c_threads c) th with
    | Some (Work ((q', t') :: _) _) =>
      if path_eqb q q' then
        let mv := check gm fixed_P17 fixed_P35 fixed_P37 (c_rules c) q (is_dir t') in
        if verdict_eqb v mv then
          match step1 c th O with inl c1 => inl (settle c1 th) | inr e => inr e end
        else inr (WrongVerdict mv)
      else inr WrongChild
    | _ => inr NotChecking
    end
  | EPush th p =>
    match nth_error (c_threads c) th with
    | Some (Work [] ((p', _, _) :: _)) =>
      if path_eqb p p' then
        match step1 c th O with inl c1 => inl (settle c1 th) | inr e => inr e end
      else inr WrongDirectory
    | _ => inr NotPushing
    end
  | EExit th =>
    match nth_error (c_threads c) th with
    | Some Idle => inl c
    | _ => inr UnfinishedThread
    end
  end.

(* number of events accepted, then the configuration or the reason for the rejection *)
Fixpoint tv_run (c : config) (evs : list event) (n : N) : N * (config + tv_error) :=
  match evs with
  | [] => (n, inl c)
  | e :: r => match tv_event c e with
              | inl c' => tv_run c' r (n + 1)
              | inr err => (n, inr err)
              end
  end.

Definition is_idle (ts : tstate) : bool := match ts with Idle => true | _ => false end.

Definition main_thread (nthreads : nat) : nat := nthreads.

Definition tv_init (nthreads : nat) (globals : bytes) (ign : option bytes) (ch : list (name * tree)) : config :=
  {| c_queue := [([], ign, ch)]; c_threads := repeat Idle (S nthreads);
     c_rules := global_rules globals; c_out := [] |}.

(* the whole trace: at its end every thread is back at the top of its loop and the queue is empty
   (then every thread finds it empty and leaves: the configuration is final with this output) *)
Definition tv_validate (nthreads : nat) (globals : bytes) ign ch (evs : list event)
  : N * (list path + tv_error) :=
  match tv_run (tv_init nthreads globals ign ch) evs 0 with
  | (n, inl c) =>
    if negb (forallb is_idle (c_threads c)) then (n, inr UnfinishedThread)
    else match c_queue c with
         | [] => (n, inl (c_out c))
         | _ => (n, inr QueueNotEmpty)
         end
  | (n, inr e) => (n, inr e)
  end.

(* a generated schedule prefix, then round robin *)
Definition par_walk_drained (nthreads : nat) (globals : bytes) ign ch (sched : list (nat * nat)) (rounds : nat)
  : config :=
  par_run gm fixed_P17 fixed_P35 fixed_P37 (par_walk gm fixed_P17 fixed_P35 fixed_P37 nthreads globals ign ch sched) (rr_sched nthreads rounds).
End Validate.
