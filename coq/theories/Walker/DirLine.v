(* M-WALK: a directory-only line of an ignore file ("<name>/") hides the directory it names and everything
   beneath it, whatever whitelist lines say about the descendants (finding P37).
   Reference meaning of such a line, as a small executable predicate ([line_names], [named_dir]): the line
   is "<name>/" with a name of plain bytes (no glob metacharacter, no separator, not a comment or a
   negation), it stands in the ignore file of a proper ancestor F of the directory D, and the last
   component of D is <name>.
   With [fixed_P37 = true] (the walkers ask about a directory with IgnoreRules::check_dir) no path strictly
   below such a D is reported unless a whitelist line matches D itself; the class [dir_leak] is empty.
   With [fixed_P37 = false] the statement is refuted (Props/C09.v). *)
From Coq Require Import List NArith Bool Lia Permutation Arith.
From XV Require Import Glob.Match Glob.Pattern Glob.Proofs Glob.LastComponent Glob.DirComponent Walker.Model Walker.Proofs.
Import ListNotations.
Open Scope N_scope.

(* ---- the reference reading of a line "<name>/" ------------------------------------------------------------ *)
Definition plain_byte (b : byte) : bool :=
  negb (N.eqb b c_star || N.eqb b c_q || N.eqb b c_lb || N.eqb b c_bs || N.eqb b c_slash).
Definition simple_name (n : bytes) : bool :=
  match n with
  | [] => false
  | b :: _ => negb (N.eqb b c_bang) && negb (N.eqb b c_hash) && forallb plain_byte n
  end.
(* the ignore text has the line "<n>/" *)
Definition line_names (content : bytes) (n : name) : bool :=
  simple_name n && existsb (bytes_eqb (n ++ [c_slash])) (lines content).
(* some proper ancestor of D (the first i components, i < |D|) has an ignore file with the line "<last D>/" *)
Definition named_dir (t : tree) (D : path) : bool :=
  match rev D with
  | [] => false
  | n :: _ => existsb (fun i => match node_at t (firstn i D) with
                               | Some (Dir (Some content) _) => line_names content n
                               | _ => false
                               end) (seq 0 (length D))
  end.

(* the glob Pattern::new builds for the line "<n>/" *)
Definition dir_glob (n : bytes) : bytes := [c_star; c_star; c_slash] ++ n ++ [c_slash; c_star; c_star].

(* What the walker needs from the matcher: that glob matches every string that ends in "/<n>/". *)
Definition matcher_finds_dir (gm : bytes -> bytes -> bool) : Prop :=
  forall X n, simple_name n = true -> gm (dir_glob n) (X ++ c_slash :: n ++ [c_slash]) = true.

(* Known class of P37 (boolean): the reference walk reports a path strictly below a directory D that a
   directory line names and that no whitelist line matches *)
Definition dir_leak gm (f17 f35 f37 : bool) globals ign ch : bool :=
  existsb (fun x => existsb (fun i => let D := firstn i x in
                       named_dir (Dir ign ch) D &&
                       negb (is_white (check gm f17 f35 f37 (RB globals ign ch D) D true)))
                    (seq 1 (length x - 1)))
          (spec_walk gm f17 f35 f37 globals ign ch).

(* ---- Pattern::new on such a line --------------------------------------------------------------------------- *)
Lemma plain_byte_plain b : plain_byte b = true -> plain b.
Proof.
  unfold plain_byte, plain. intros H. apply negb_true_iff in H.
  repeat (apply orb_false_iff in H as [H ?]). repeat split; assumption.
Qed.

Lemma simple_name_inv n : simple_name n = true ->
  exists b n', n = b :: n' /\ N.eqb b c_bang = false /\ N.eqb b c_hash = false /\ Forall plain (b :: n').
Proof.
  destruct n as [|b n']; [discriminate|]. cbn [simple_name]. intros H.
  apply andb_true_iff in H as [H H3]. apply andb_true_iff in H as [H1 H2].
  apply negb_true_iff in H1. apply negb_true_iff in H2.
  exists b, n'. repeat split; try assumption.
  apply Forall_forall. intros x Hx. apply plain_byte_plain. rewrite forallb_forall in H3. apply H3. exact Hx.
Qed.

Lemma last_byte_snoc s x : last_byte (s ++ [x]) = Some x.
Proof.
  induction s as [|a s IH]; [reflexivity|]. cbn [app last_byte]. destruct (s ++ [x]) eqn:E; [destruct s; discriminate|exact IH].
Qed.

Lemma drop_last_snoc s x : drop_last (s ++ [x]) = s.
Proof.
  induction s as [|a s IH]; [reflexivity|]. cbn [app drop_last]. destruct (s ++ [x]) eqn:E; [destruct s; discriminate|]. rewrite IH. reflexivity.
Qed.

Lemma ends_with_bs_space_slash s : ends_with_bs_space (s ++ [c_slash]) = false.
Proof.
  induction s as [|a s IH]; [reflexivity|].
  destruct s as [|b s].
  - cbn. apply andb_false_r.
  - change ((a :: b :: s) ++ [c_slash]) with (a :: (b :: s) ++ [c_slash]).
    cbn [ends_with_bs_space]. cbn [app] in *. destruct (s ++ [c_slash]) eqn:E; [destruct s; discriminate|]. exact IH.
Qed.

Lemma ws_len_slash r : ws_len (c_slash :: r) = O.
Proof.
  destruct r as [|b1 [|b2 r]]; cbn; rewrite ?andb_false_r; reflexivity.
Qed.

Lemma trim_end_slash s : trim_end (s ++ [c_slash]) = s ++ [c_slash].
Proof.
  unfold trim_end. rewrite rev_app_distr. cbn [rev app]. rewrite app_length. cbn [length].
  replace (length s + 1)%nat with (S (length s)) by lia. cbn [drop_ws_rev]. rewrite ws_len_slash.
  change (c_slash :: rev s) with ([c_slash] ++ rev s). rewrite rev_app_distr, rev_involutive. reflexivity.
Qed.

Lemma strip_trailing_blanks_slash s : strip_trailing_blanks (s ++ [c_slash]) = s ++ [c_slash].
Proof. unfold strip_trailing_blanks. rewrite ends_with_bs_space_slash. apply trim_end_slash. Qed.

Lemma existsb_drop_last (f : byte -> bool) s : existsb f s = false -> existsb f (drop_last s) = false.
Proof.
  induction s as [|a s IH]; [reflexivity|]. cbn [existsb]. intros H. apply orb_false_iff in H as [Ha Hs].
  cbn [drop_last]. destruct s as [|b s]; [reflexivity|]. cbn [existsb]. rewrite Ha. cbn [orb]. apply IH. exact Hs.
Qed.

Lemma plain_no_slash n : Forall plain n -> existsb (N.eqb c_slash) n = false.
Proof.
  induction 1 as [|b n Hb Hn IH]; [reflexivity|]. cbn [existsb]. rewrite IH.
  destruct Hb as (_ & _ & _ & _ & H5). rewrite N.eqb_sym, H5. reflexivity.
Qed.

Lemma pattern_new_dir_line src n : simple_name n = true ->
  pattern_new src (n ++ [c_slash]) =
  {| p_glob := dir_glob n; p_white := false; p_src := src; p_rel := None; p_dironly := true |}.
Proof.
  intros Hs. destruct (simple_name_inv n Hs) as (b & n' & -> & Hbang & Hhash & Hp).
  assert (Hb : plain b) by (inversion Hp; assumption).
  destruct Hb as (_ & _ & _ & Hbs & Hsl).
  unfold pattern_new, pattern_body.
  assert (E1 : starts_with c_bang ((b :: n') ++ [c_slash]) = false) by (cbn; exact Hbang).
  assert (E2 : match (b :: n') ++ [c_slash] with a :: b0 :: _ => N.eqb a c_bs && N.eqb b0 c_bang | _ => false end = false).
  { cbn [app]. destruct (n' ++ [c_slash]); [reflexivity|]. rewrite Hbs. reflexivity. }
  rewrite E1, E2. cbn [orb]. rewrite strip_trailing_blanks_slash.
  unfold ends_with. rewrite last_byte_snoc. change (N.eqb c_slash c_slash) with true. cbv iota. rewrite drop_last_snoc.
  assert (E3 : starts_with c_slash (b :: n') = false) by (cbn; exact Hsl).
  rewrite E3.
  assert (E4 : existsb (N.eqb c_slash) (drop_last (b :: n')) = false) by (apply existsb_drop_last; apply plain_no_slash; exact Hp).
  unfold bytes, byte in *. rewrite E4.
  destruct src; reflexivity.
Qed.

Lemma is_rule_line_dir_line n : simple_name n = true -> is_rule_line (n ++ [c_slash]) = true.
Proof.
  intros Hs. destruct (simple_name_inv n Hs) as (b & n' & -> & _ & Hhash & _).
  unfold is_rule_line, all_ws. rewrite trim_end_slash. cbn [app starts_with]. rewrite Hhash. reflexivity.
Qed.

Lemma dir_line_pattern F content n :
  In (n ++ [c_slash]) (lines content) -> simple_name n = true ->
  In {| p_glob := dir_glob n; p_white := false; p_src := SFile (dir_string F); p_rel := None; p_dironly := true |}
     (dir_patterns F (Some content)).
Proof.
  intros Hin Hs. cbn [dir_patterns]. unfold content_to_patterns. apply in_map_iff.
  exists (n ++ [c_slash]). split.
  - rewrite strip_trailing_blanks_slash. apply pattern_new_dir_line. exact Hs.
  - apply filter_In. split; [exact Hin|apply is_rule_line_dir_line; exact Hs].
Qed.

(* ---- the locality test lets a pattern act on everything below its directory ------------------------------- *)
Lemma strip_prefix_app a : forall b, strip_prefix a (a ++ b) = Some b.
Proof. induction a as [|x a IH]; intros b; [reflexivity|]. cbn [app strip_prefix]. rewrite N.eqb_refl. apply IH. Qed.

Lemma applies_above pat F rest :
  p_src pat = SFile (dir_string F) -> Forall good (F ++ rest) -> rest <> [] -> applies pat (render (F ++ rest)) = true.
Proof.
  intros Hsrc Hg Hr. unfold applies. rewrite Hsrc.
  destruct F as [|a F]; [reflexivity|].
  assert (HgF : Forall good (a :: F)) by (apply Forall_app in Hg as [H _]; exact H).
  rewrite (trim_slashes_dir_string (a :: F)) by (try discriminate; exact HgF).
  destruct (dir_string (a :: F)) as [|d0 d] eqn:Ed; [reflexivity|]. rewrite <- Ed.
  rewrite trim_start_render by (try discriminate; exact Hg).
  assert (E : dir_string ((a :: F) ++ rest) = dir_string (a :: F) ++ render rest).
  { cbn [app dir_string]. rewrite render_app, app_assoc. reflexivity. }
  rewrite E, strip_prefix_app. destruct rest as [|m rest]; [contradiction|]. reflexivity.
Qed.

(* ---- reported paths are paths of the tree ------------------------------------------------------------------- *)
Lemma spec_node_in_tree gm f17 f35 f37 : forall t R cur x, wf_tree t = true ->
  In x (spec_node gm f17 f35 f37 R cur t) -> exists q c, x = cur ++ q /\ node_at t q = Some c.
Proof.
  induction t as [|ign ch IH] using tree_ind'; intros R cur x Hw Hin; [contradiction|].
  rewrite spec_node_dir in Hin. apply in_flat_map in Hin as ([n0 c] & Hc & Hx).
  destruct (wf_children ign ch Hw) as [Hnd Hcw]. destruct (Hcw n0 c Hc) as [_ Hwc].
  unfold spec_child in Hx. cbn [fst snd] in Hx. destruct (is_ignore _); [contradiction|].
  destruct Hx as [<-|Hx].
  - exists [n0], c. split; [reflexivity|]. cbn [node_at]. rewrite (find_child_In ch n0 c Hnd Hc). reflexivity.
  - rewrite Forall_forall in IH. destruct (IH (n0, c) Hc _ _ _ Hwc Hx) as (q & c' & -> & Hq).
    exists (n0 :: q), c'. split; [rewrite <- app_assoc; reflexivity|]. cbn [node_at]. rewrite (find_child_In ch n0 c Hnd Hc). exact Hq.
Qed.

Lemma node_at_prefix_dir : forall p t m r c, node_at t (p ++ m :: r) = Some c -> exists i ch, node_at t p = Some (Dir i ch).
Proof.
  induction p as [|a p IH]; intros t m r c H.
  - cbn [app node_at] in *. destruct t as [|i ch]; [discriminate|]. exists i, ch. reflexivity.
  - cbn [app node_at] in *. destruct t as [|i ch]; [discriminate|]. destruct (find_child a ch) as [c1|]; [|discriminate].
    apply (IH c1 m r c H).
Qed.

Lemma named_dir_spec t D : named_dir t D = true ->
  exists F mid n content chF, D = F ++ mid ++ [n] /\ node_at t F = Some (Dir (Some content) chF) /\
                              In (n ++ [c_slash]) (lines content) /\ simple_name n = true.
Proof.
  unfold named_dir. destruct (rev D) as [|n l] eqn:Er; [discriminate|]. intros H.
  assert (ED : D = rev l ++ [n]).
  { rewrite <- (rev_involutive D), Er. reflexivity. }
  apply existsb_exists in H as (i & Hi & H). apply in_seq in Hi.
  destruct (node_at t (firstn i D)) as [[|[content|] chF]|] eqn:En; try discriminate.
  unfold line_names in H. apply andb_true_iff in H as [Hs Hl].
  apply existsb_exists in Hl as (l0 & Hl0 & Heq). apply bytes_eqb_spec in Heq. subst l0.
  assert (Hlen : (i <= length (rev l))%nat).
  { rewrite ED, app_length in Hi. cbn [length] in Hi. lia. }
  assert (Ef : firstn i D = firstn i (rev l)).
  { rewrite ED, firstn_app. replace (i - length (rev l))%nat with O by lia. cbn [firstn]. apply app_nil_r. }
  exists (firstn i (rev l)), (skipn i (rev l)), n, content, chF. split; [|split; [|split]].
  - rewrite app_assoc, firstn_skipn. exact ED.
  - rewrite <- Ef. exact En.
  - exact Hl0.
  - exact Hs.
Qed.

(* ---- the theorem, for the reference walk ---------------------------------------------------------------------- *)
Section DirLine.
Variable gm : bytes -> bytes -> bool.
Variable f17 f35 : bool.
Variable globals : bytes.
Variable ign0 : option bytes.
Variable ch0 : list (name * tree).
Let T0 := Dir ign0 ch0.
Hypothesis Hwf : wf_tree T0 = true.
Hypothesis Hgm : matcher_finds_dir gm.

Lemma dir_line_hides F content chF mid n x m r :
  node_at T0 F = Some (Dir (Some content) chF) ->
  In (n ++ [c_slash]) (lines content) -> simple_name n = true ->
  is_white (check gm f17 f35 true (RB globals ign0 ch0 (F ++ mid ++ [n])) (F ++ mid ++ [n]) true) = false ->
  In x (spec_walk gm f17 f35 true globals ign0 ch0) -> x = (F ++ mid ++ [n]) ++ m :: r -> False.
Proof.
  intros HF Hline Hs Hwhite Hin Ex.
  set (D := F ++ mid ++ [n]) in *.
  (* D is a directory of the tree *)
  destruct (spec_node_in_tree gm f17 f35 true T0 (global_rules globals) [] x Hwf Hin) as (q & c & Eq & Hq).
  cbn [app] in Eq. subst q. rewrite Ex in Hq.
  destruct (node_at_prefix_dir D T0 m r c Hq) as (i & chD & HD).
  assert (Hk : kind_at T0 D = true) by (unfold kind_at; rewrite HD; reflexivity).
  destruct (node_at_wf T0 D _ Hwf HD) as [HgD _].
  (* the walk did not find it ignored *)
  assert (Ex' : x = (F ++ mid) ++ n :: m :: r) by (rewrite Ex; unfold D; rewrite <- !app_assoc; reflexivity).
  assert (Hc := ignored_dir_hides_subtree_lemma gm f17 f35 true globals ign0 ch0 Hwf x (F ++ mid) n (m :: r) Hin Ex').
  match type of Hc with context [RB _ _ _ ?t] => assert (ED : t = D) by (unfold D; rewrite <- app_assoc; reflexivity) end.
  rewrite ED in Hc. fold T0 in Hc. rewrite Hk in Hc.
  (* but the pattern of the line is loaded and hits it *)
  set (pat := {| p_glob := dir_glob n; p_white := false; p_src := SFile (dir_string F); p_rel := None; p_dironly := true |}).
  assert (Hpat : In pat (dir_patterns F (Some content))) by (apply dir_line_pattern; assumption).
  assert (Hload : In pat (r_ign (RB globals ign0 ch0 D))).
  { assert (Hne : exists n1 r1, mid ++ [n] = n1 :: r1) by (destruct mid as [|a mid']; [exists n, []|exists a, (mid' ++ [n])]; reflexivity).
    destruct Hne as (n1 & r1 & Em).
    assert (L := node_loaded T0 F (global_rules globals) [] (Some content) chF n1 r1 HF). cbn [app] in L.
    unfold RB, D. rewrite Em. apply (proj1 L). apply filter_In. split; [exact Hpat|reflexivity]. }
  assert (Hhit : pat_hits_d gm f17 true (render D) true pat = true).
  { unfold pat_hits_d. apply andb_true_iff. split.
    - destruct f17; [|reflexivity]. unfold D. apply applies_above; [reflexivity| |destruct mid; discriminate]. exact HgD.
    - unfold glob_hit. cbn [p_dironly p_glob pat andb]. apply orb_true_iff. right.
      unfold D. rewrite app_assoc, render_app. cbn [render flat_map]. rewrite app_nil_r, <- app_assoc. cbn [app].
      apply Hgm. exact Hs. }
  unfold check, check_strd in Hc, Hwhite.
  destruct (f35 && global_hit_d gm true (RB globals ign0 ch0 D) (render D) true); [discriminate Hc|].
  destruct (existsb (pat_hits_d gm f17 true (render D) true) (r_white (RB globals ign0 ch0 D))); [discriminate Hwhite|].
  assert (He : existsb (pat_hits_d gm f17 true (render D) true) (r_ign (RB globals ign0 ch0 D)) = true).
  { apply existsb_exists. exists pat. split; assumption. }
  rewrite He in Hc. discriminate Hc.
Qed.

(* in terms of the executable predicate *)
Lemma named_dir_hides D x m r :
  named_dir T0 D = true ->
  is_white (check gm f17 f35 true (RB globals ign0 ch0 D) D true) = false ->
  In x (spec_walk gm f17 f35 true globals ign0 ch0) -> x = D ++ m :: r -> False.
Proof.
  intros Hn Hw Hin Ex. destruct (named_dir_spec T0 D Hn) as (F & mid & n & content & chF & -> & HF & Hl & Hs).
  exact (dir_line_hides F content chF mid n x m r HF Hl Hs Hw Hin Ex).
Qed.

Lemma dir_leak_false_when_fixed : dir_leak gm f17 f35 true globals ign0 ch0 = false.
Proof.
  destruct (dir_leak gm f17 f35 true globals ign0 ch0) eqn:E; [|reflexivity]. exfalso.
  unfold dir_leak in E. apply existsb_exists in E as (x & Hin & E). apply existsb_exists in E as (i & Hi & E).
  apply in_seq in Hi. apply andb_true_iff in E as [Hn Hw]. apply negb_true_iff in Hw.
  assert (Hsk : skipn i x <> []).
  { intros Hs. assert (L := skipn_length i x). rewrite Hs in L. cbn [length] in L. lia. }
  destruct (skipn i x) as [|m r] eqn:Es; [contradiction|].
  apply (named_dir_hides (firstn i x) x m r Hn Hw Hin). rewrite <- Es. symmetry. apply firstn_skipn.
Qed.
End DirLine.

(* for every setting of the switch: outside the class nothing below a named, not whitelisted directory is reported *)
Lemma dir_leak_outside gm f17 f35 f37 globals ign ch D x m r :
  dir_leak gm f17 f35 f37 globals ign ch = false -> named_dir (Dir ign ch) D = true ->
  is_white (check gm f17 f35 f37 (RB globals ign ch D) D true) = false ->
  In x (spec_walk gm f17 f35 f37 globals ign ch) -> x = D ++ m :: r -> False.
Proof.
  intros Hl Hn Hw Hin Ex.
  assert (HD : D <> []) by (intros ->; discriminate Hn).
  assert (Ht : dir_leak gm f17 f35 f37 globals ign ch = true); [|rewrite Ht in Hl; discriminate].
  unfold dir_leak. apply existsb_exists. exists x. split; [exact Hin|].
  apply existsb_exists. exists (length D). split.
  - apply in_seq. rewrite Ex, app_length. cbn [length]. destruct D; [contradiction|]. cbn [length]. lia.
  - assert (Ef : firstn (length D) x = D).
    { rewrite Ex, firstn_app, Nat.sub_diag, firstn_all. cbn [firstn]. apply app_nil_r. }
    cbv zeta. rewrite Ef, Hn, Hw. reflexivity.
Qed.

(* ---- walk_serial and every run of walk_parallel ---------------------------------------------------------------- *)
Lemma serial_named_dir_hides gm f35 globals ign ch D out x m r :
  wf_tree (Dir ign ch) = true -> matcher_finds_dir gm -> named_dir (Dir ign ch) D = true ->
  is_white (check gm true f35 true (RB globals ign ch D) D true) = false ->
  serial_walk gm true f35 true (S (dir_count (Dir ign ch))) globals ign ch = Some out ->
  In x out -> x = D ++ m :: r -> False.
Proof.
  intros Hwf Hgm Hn Hw Hs Hin Ex.
  destruct (serial_eq_spec_lemma gm true f35 true globals ign ch Hwf (local_of_fixed gm true true ign ch Hwf eq_refl)) as (out' & E & Hp & _).
  rewrite Hs in E. injection E as <-.
  apply (named_dir_hides gm true f35 globals ign ch Hwf Hgm D x m r Hn Hw); [|exact Ex].
  eapply Permutation_in; eassumption.
Qed.

Lemma par_named_dir_hides gm f35 globals ign ch D nth sched x m r :
  wf_tree (Dir ign ch) = true -> matcher_finds_dir gm -> (1 <= nth)%nat -> named_dir (Dir ign ch) D = true ->
  is_white (check gm true f35 true (RB globals ign ch D) D true) = false ->
  final (par_walk gm true f35 true nth globals ign ch sched) = true ->
  In x (c_out (par_walk gm true f35 true nth globals ign ch sched)) -> x = D ++ m :: r -> False.
Proof.
  intros Hwf Hgm Hnth Hn Hw Hf Hin Ex.
  destruct (par_walk_deterministic_lemma gm true f35 true globals ign ch Hwf (local_of_fixed gm true true ign ch Hwf eq_refl) nth sched Hnth Hf) as [Hp _].
  apply (named_dir_hides gm true f35 globals ign ch Hwf Hgm D x m r Hn Hw); [|exact Ex].
  eapply Permutation_in; eassumption.
Qed.

(* ---- the transliterated matcher satisfies the hypothesis ----------------------------------------------------------- *)
Lemma glob_matches_finds_dir : matcher_finds_dir glob_matches.
Proof.
  intros X n Hs. destruct (simple_name_inv n Hs) as (b & n' & -> & _ & _ & Hp).
  exact (glob_matches_dir_component b n' Hp X).
Qed.
