(* Proofs about M-WALK (Walker/Model.v): locality of the rule test, the invariant of the parallel machine
   (every schedule, every thread count), walk_serial, ignored directories, .xvc/.git, termination. *)
From Coq Require Import List NArith Bool Lia Permutation Arith.
From XV Require Import Glob.Match Glob.Pattern Glob.Proofs Walker.Model.
Import ListNotations.
Open Scope N_scope.

(* ---- byte strings, names, paths ------------------------------------------------------------------ *)
Lemma bytes_eqb_spec a : forall b, bytes_eqb a b = true <-> a = b.
Proof.
  induction a as [|x a IH]; intros [|y b]; cbn [bytes_eqb]; split; intros H; try discriminate; try reflexivity.
  - apply andb_true_iff in H as [H1 H2]. apply N.eqb_eq in H1. apply IH in H2. subst. reflexivity.
  - injection H as -> ->. rewrite N.eqb_refl. cbn [andb]. apply IH. reflexivity.
Qed.

Lemma bytes_eqb_refl a : bytes_eqb a a = true.
Proof. apply bytes_eqb_spec. reflexivity. Qed.

Definition path_eq_dec : forall a b : path, {a = b} + {a <> b} :=
  list_eq_dec (list_eq_dec N.eq_dec).

Definition noslash (n : name) : Prop := forall b, In b n -> b <> c_slash.
Definition good (n : name) : Prop := n <> [] /\ noslash n.

Lemma good_name_good n : good_name n = true -> good n.
Proof.
  unfold good_name, good, noslash. destruct n as [|x n]; [discriminate|]. intros H. split; [discriminate|].
  intros b Hb. rewrite forallb_forall in H. specialize (H b Hb).
  apply negb_true_iff in H. apply N.eqb_neq in H. exact H.
Qed.

(* a string that is empty or begins with '/' *)
Definition sl (s : bytes) : Prop := match s with [] => True | c :: _ => c = c_slash end.

Lemma render_sl p : sl (render p).
Proof. destruct p; cbn; auto. Qed.

Lemma render_app p q : render (p ++ q) = render p ++ render q.
Proof. unfold render. apply flat_map_app. Qed.

Lemma name_split m : forall n X Y, noslash m -> noslash n -> sl X -> sl Y -> Y <> [] ->
  m ++ X = n ++ Y -> m = n /\ X = Y.
Proof.
  induction m as [|a m IH]; intros n X Y Hm Hn HX HY HYne E.
  - destruct n as [|b n]; [split; [reflexivity|exact E]|].
    cbn in E. subst X. cbn in HX. exfalso. apply (Hn b); [left; reflexivity|exact HX].
  - destruct n as [|b n].
    + cbn in E. destruct Y as [|y Y]; [contradiction|]. cbn in HY. injection E as E1 E2. subst.
      exfalso. apply (Hm c_slash); [left; reflexivity|reflexivity].
    + cbn in E. injection E as -> E.
      destruct (IH n X Y) as [-> ->]; auto.
      * intros c Hc. apply Hm. right. exact Hc.
      * intros c Hc. apply Hn. right. exact Hc.
Qed.

(* "render D ++ '/' ++ rest" can only be the rendering of a path that properly extends D *)
Lemma render_prefix D : forall q rest, Forall noslash D -> Forall noslash q ->
  render q = render D ++ c_slash :: rest -> exists r, q = D ++ r /\ r <> [].
Proof.
  induction D as [|n D IH]; intros q rest HD Hq E.
  - exists q. split; [reflexivity|]. intros ->. cbn in E. discriminate.
  - destruct q as [|m q]; [cbn in E; discriminate|].
    cbn [render flat_map] in E. fold (render q) in E. fold (render D) in E.
    injection E as E. rewrite <- app_assoc in E.
    inversion HD as [|? ? Hn HD']. inversion Hq as [|? ? Hm Hq']. subst.
    assert (Hs : sl (render D ++ c_slash :: rest)).
    { destruct D; cbn; reflexivity. }
    assert (Hne : render D ++ c_slash :: rest <> []).
    { destruct (render D); discriminate. }
    destruct (name_split m n (render q) _ Hm Hn (render_sl q) Hs Hne E) as [-> E'].
    destruct (IH q rest HD' Hq' E') as (r & -> & Hr).
    exists r. split; [reflexivity|exact Hr].
Qed.

Lemma good_last n : good n -> exists s x, n = s ++ [x] /\ is_sep x = false.
Proof.
  intros [Hne Hns]. destruct (exists_last Hne) as (s & x & ->). exists s, x. split; [reflexivity|].
  unfold is_sep. apply N.eqb_neq. apply Hns. apply in_or_app. right. left. reflexivity.
Qed.

Lemma render_last p : p <> [] -> Forall good p -> exists s x, render p = s ++ [x] /\ is_sep x = false.
Proof.
  induction p as [|n p IH]; [contradiction|]. intros _ Hg. inversion Hg as [|? ? Hn Hp]. subst.
  destruct p as [|m p].
  - destruct (good_last n Hn) as (s & x & -> & Hx). exists (c_slash :: s), x. cbn. rewrite app_nil_r. split; [reflexivity|exact Hx].
  - destruct IH as (s & x & E & Hx); [discriminate|exact Hp|].
    exists (c_slash :: n ++ s), x. split; [|exact Hx].
    change (render (n :: m :: p)) with (c_slash :: n ++ render (m :: p)). rewrite E. cbn [app]. rewrite app_assoc. reflexivity.
Qed.

Lemma render_cons_dir_string p : p <> [] -> render p = c_slash :: dir_string p.
Proof. destruct p as [|n p]; [contradiction|]. intros _. reflexivity. Qed.

Lemma dir_string_first p : p <> [] -> Forall good p -> exists x r, dir_string p = x :: r /\ is_sep x = false.
Proof.
  destruct p as [|n p]; [contradiction|]. intros _ Hg. inversion Hg as [|? ? [Hne Hns] _]. subst.
  destruct n as [|x n]; [contradiction|]. exists x, (n ++ render p). split; [reflexivity|].
  unfold is_sep. apply N.eqb_neq. apply Hns. left. reflexivity.
Qed.

Lemma trim_slashes_dir_string p : p <> [] -> Forall good p -> trim_slashes (dir_string p) = dir_string p.
Proof.
  intros Hne Hg. unfold trim_slashes.
  destruct (dir_string_first p Hne Hg) as (x & r & E & Hx). rewrite E. rewrite trim_start_by_id by exact Hx. rewrite <- E.
  destruct (render_last p Hne Hg) as (s & y & E2 & Hy).
  rewrite render_cons_dir_string in E2 by exact Hne.
  destruct s as [|c s].
  - cbn in E2. injection E2 as E3 E4. destruct (dir_string p); [|discriminate]. rewrite E in *. discriminate.
  - cbn in E2. injection E2 as _ E2. rewrite E2. apply trim_end_by_nonempty. exact Hy.
Qed.

Lemma trim_start_render p : p <> [] -> Forall good p -> trim_start_by is_sep (render p) = dir_string p.
Proof.
  intros Hne Hg. rewrite render_cons_dir_string by exact Hne. cbn [trim_start_by].
  replace (is_sep c_slash) with true by reflexivity.
  destruct (dir_string_first p Hne Hg) as (x & r & E & Hx). rewrite E. apply trim_start_by_id. exact Hx.
Qed.

Lemma good_noslash p : Forall good p -> Forall noslash p.
Proof. intros H. eapply Forall_impl; [|exact H]. intros a [_ Ha]. exact Ha. Qed.

(* The locality test on paths: a pattern of the ignore file of directory D is consulted for the
   rendering of q only if q is properly below D. *)
Lemma applies_below pat D q :
  p_src pat = SFile (dir_string D) -> D <> [] -> Forall good D -> q <> [] -> Forall good q ->
  applies pat (render q) = true -> exists r, q = D ++ r /\ r <> [].
Proof.
  intros Hsrc HD HgD Hq Hgq Ha.
  assert (Hts : trim_slashes (dir_string D) = dir_string D) by (apply trim_slashes_dir_string; assumption).
  destruct (applies_local pat (dir_string D) (render q) Hsrc) as (rest & E).
  - rewrite Hts. destruct (dir_string_first D HD HgD) as (x & r & -> & _). discriminate.
  - exact Ha.
  - rewrite Hts in E. rewrite trim_start_render in E by assumption.
    apply (render_prefix D q rest (good_noslash _ HgD) (good_noslash _ Hgq)).
    rewrite (render_cons_dir_string q Hq), (render_cons_dir_string D HD). rewrite E. reflexivity.
Qed.

(* ---- trees ------------------------------------------------------------------------------------------ *)
Section TreeInd.
Variable P : tree -> Prop.
Hypothesis HF : P File.
Hypothesis HD : forall ign ch, Forall (fun nt => P (snd nt)) ch -> P (Dir ign ch).
Fixpoint tree_ind' (t : tree) : P t :=
  match t with
  | File => HF
  | Dir ign ch =>
    HD ign ch ((fix go (l : list (name * tree)) : Forall (fun nt => P (snd nt)) l :=
                 match l with
                 | [] => Forall_nil _
                 | nt :: r => Forall_cons nt (tree_ind' (snd nt)) (go r)
                 end) ch)
  end.
End TreeInd.

Lemma wf_tree_dir ign ch :
  wf_tree (Dir ign ch) = nodup_names (map fst ch) && forallb good_name (map fst ch) && forallb (fun nt => wf_tree (snd nt)) ch.
Proof.
  cbn [wf_tree]. f_equal. induction ch as [|[n c] r IH]; [reflexivity|]. cbn [forallb snd]. rewrite IH. reflexivity.
Qed.

Fixpoint find_child (n : name) (ch : list (name * tree)) : option tree :=
  match ch with
  | [] => None
  | (m, t) :: r => if bytes_eqb n m then Some t else find_child n r
  end.

Lemma mem_name_In n l : mem_name n l = true <-> In n l.
Proof.
  induction l as [|x l IH]; cbn [mem_name]; [split; [discriminate|contradiction]|].
  rewrite orb_true_iff, IH, bytes_eqb_spec. split; intros [H|H]; [left; symmetry; exact H|right; exact H|left; symmetry; exact H|right; exact H].
Qed.

Lemma nodup_names_NoDup l : nodup_names l = true -> NoDup l.
Proof.
  induction l as [|x l IH]; cbn [nodup_names]; intros H; [constructor|].
  apply andb_true_iff in H as [H1 H2]. constructor; [|apply IH; exact H2].
  intros Hin. apply mem_name_In in Hin. rewrite Hin in H1. discriminate.
Qed.

Lemma find_child_In ch : forall n c, NoDup (map fst ch) -> In (n, c) ch -> find_child n ch = Some c.
Proof.
  induction ch as [|[m t] r IH]; intros n c Hnd Hin; [contradiction|].
  cbn [map fst] in Hnd. inversion Hnd as [|? ? Hm Hr]. subst. cbn [find_child].
  destruct Hin as [E|Hin].
  - injection E as -> ->. rewrite bytes_eqb_refl. reflexivity.
  - destruct (bytes_eqb n m) eqn:Eb.
    + apply bytes_eqb_spec in Eb. subst. exfalso. apply Hm. apply in_map_iff. exists (m, c). split; [reflexivity|exact Hin].
    + apply IH; assumption.
Qed.

Lemma find_child_Some ch : forall n c, find_child n ch = Some c -> In (n, c) ch.
Proof.
  induction ch as [|[m t] r IH]; intros n c H; [discriminate|]. cbn [find_child] in H.
  destruct (bytes_eqb n m) eqn:Eb.
  - apply bytes_eqb_spec in Eb. injection H as ->. subst. left. reflexivity.
  - right. apply IH. exact H.
Qed.

(* the node reached by following p from t *)
Fixpoint node_at (t : tree) (p : path) : option tree :=
  match p with
  | [] => Some t
  | n :: r => match t with
              | File => None
              | Dir _ ch => match find_child n ch with Some c => node_at c r | None => None end
              end
  end.

(* the entry at p is a directory *)
Definition kind_at (t : tree) (p : path) : bool :=
  match node_at t p with Some c => is_dir c | None => false end.

Lemma node_at_snoc t : forall p ign ch n c,
  node_at t p = Some (Dir ign ch) -> find_child n ch = Some c -> node_at t (p ++ [n]) = Some c.
Proof.
  intros p. revert t. induction p as [|m p IH]; intros t ign ch n c H Hf.
  - cbn in H. injection H as ->. cbn. rewrite Hf. reflexivity.
  - cbn [node_at app] in *. destruct t as [|i c0]; [discriminate|]. destruct (find_child m c0); [|discriminate].
    eapply IH; eassumption.
Qed.

Lemma wf_children ign ch : wf_tree (Dir ign ch) = true ->
  NoDup (map fst ch) /\ (forall n c, In (n, c) ch -> good n /\ wf_tree c = true).
Proof.
  rewrite wf_tree_dir. intros H. apply andb_true_iff in H as [H H3]. apply andb_true_iff in H as [H1 H2].
  split; [apply nodup_names_NoDup; exact H1|]. intros n c Hin. split.
  - apply good_name_good. rewrite forallb_forall in H2. apply H2. apply in_map_iff. exists (n, c). split; [reflexivity|exact Hin].
  - rewrite forallb_forall in H3. apply (H3 (n, c) Hin).
Qed.

Lemma node_at_wf t : forall p t', wf_tree t = true -> node_at t p = Some t' -> Forall good p /\ wf_tree t' = true.
Proof.
  intros p. revert t. induction p as [|n p IH]; intros t t' Hwf H.
  - cbn in H. injection H as <-. split; [constructor|exact Hwf].
  - cbn [node_at] in H. destruct t as [|i ch]; [discriminate|]. destruct (find_child n ch) as [c|] eqn:Ef; [|discriminate].
    apply find_child_Some in Ef. destruct (wf_children i ch Hwf) as [_ Hc]. destruct (Hc n c Ef) as [Hg Hwc].
    destruct (IH c t' Hwc H) as [Hp Hw']. split; [constructor; assumption|exact Hw'].
Qed.

(* ---- rule sets ---------------------------------------------------------------------------------------- *)
Definition sub (R1 R2 : rules) : Prop := incl (r_ign R1) (r_ign R2) /\ incl (r_white R1) (r_white R2).

Lemma sub_refl R : sub R R.
Proof. split; apply incl_refl. Qed.
Lemma sub_trans R1 R2 R3 : sub R1 R2 -> sub R2 R3 -> sub R1 R3.
Proof. intros [A B] [C D]. split; eapply incl_tran; eassumption. Qed.
Lemma sub_merge_ign R ps : sub R (merge_ign R ps).
Proof. split; cbn; [apply incl_appl|]; apply incl_refl. Qed.
Lemma sub_merge_white R ps : sub R (merge_white R ps).
Proof. split; cbn; [|apply incl_appl]; apply incl_refl. Qed.
Lemma sub_add R ps : sub R (add_patterns R ps).
Proof. unfold add_patterns. eapply sub_trans; [apply sub_merge_ign|apply sub_merge_white]. Qed.

(* the patterns ps are loaded in R *)
Definition loaded (ps : list pattern) (R : rules) : Prop :=
  incl (filter (fun p => negb (p_white p)) ps) (r_ign R) /\ incl (filter p_white ps) (r_white R).

Lemma loaded_add R ps : loaded ps (add_patterns R ps).
Proof. split; cbn; [apply incl_appr|apply incl_appr]; apply incl_refl. Qed.
Lemma loaded_sub ps R R' : loaded ps R -> sub R R' -> loaded ps R'.
Proof. intros [A B] [C D]. split; eapply incl_tran; eassumption. Qed.
Lemma sub_add_l R R' ps : sub R R' -> loaded ps R' -> sub (add_patterns R ps) R'.
Proof.
  intros [A B] [C D]. split; cbn; apply incl_app; assumption.
Qed.

(* the rules accumulated from the ignore files of the proper ancestors of cur ++ p, starting from R at
   cur (t is the node at cur): what spec_node hands down *)
Fixpoint rb (R : rules) (cur : path) (t : tree) (p : path) : rules :=
  match p with
  | [] => R
  | n :: r =>
    match t with
    | File => R
    | Dir ign ch =>
      let R' := add_patterns R (dir_patterns cur ign) in
      match find_child n ch with Some c => rb R' (cur ++ [n]) c r | None => R' end
    end
  end.

Lemma rb_snoc t : forall p R cur ign ch n,
  node_at t p = Some (Dir ign ch) ->
  rb R cur t (p ++ [n]) = add_patterns (rb R cur t p) (dir_patterns (cur ++ p) ign).
Proof.
  intros p. revert t. induction p as [|m p IH]; intros t R cur ign ch n H.
  - cbn in H. injection H as ->. cbn [app rb]. rewrite app_nil_r. destruct (find_child n ch); reflexivity.
  - cbn [node_at app rb] in *. destruct t as [|i c0]; [discriminate|]. destruct (find_child m c0) as [c|]; [|discriminate].
    rewrite (IH c _ _ ign ch n H). rewrite <- app_assoc. reflexivity.
Qed.

Lemma rb_mono t : forall p R cur, sub R (rb R cur t p).
Proof.
  intros p. revert t. induction p as [|n p IH]; intros t R cur; cbn [rb]; [apply sub_refl|].
  destruct t as [|i ch]; [apply sub_refl|]. destruct (find_child n ch).
  - eapply sub_trans; [apply sub_add|apply IH].
  - apply sub_add.
Qed.

(* the patterns of every node properly above q are loaded in the rules before q *)
Lemma node_loaded t : forall p R cur ign ch n r,
  node_at t p = Some (Dir ign ch) -> loaded (dir_patterns (cur ++ p) ign) (rb R cur t (p ++ n :: r)).
Proof.
  intros p. revert t. induction p as [|m p IH]; intros t R cur ign ch n r H.
  - cbn in H. injection H as ->. cbn [app rb]. rewrite app_nil_r. destruct (find_child n ch).
    + eapply loaded_sub; [apply loaded_add|apply rb_mono].
    + apply loaded_add.
  - cbn [node_at app rb] in *. destruct t as [|i c0]; [discriminate|]. destruct (find_child m c0) as [c|]; [|discriminate].
    specialize (IH c (add_patterns R (dir_patterns cur i)) (cur ++ [m]) ign ch n r H).
    rewrite <- app_assoc in IH. exact IH.
Qed.

Lemma dir_patterns_src p ign pat : In pat (dir_patterns p ign) -> p_src pat = SFile (dir_string p).
Proof.
  destruct ign as [c|]; cbn [dir_patterns]; [|contradiction]. apply content_to_patterns_src.
Qed.

(* ---- the known class of P17, as a boolean on trees -------------------------------------------------------- *)
(* every entry of the tree (reported or not), with its path from cur *)
Fixpoint entries (cur : path) (t : tree) {struct t} : list (path * bool) :=
  match t with
  | File => []
  | Dir _ ch =>
    (fix go (l : list (name * tree)) : list (path * bool) :=
       match l with
       | [] => []
       | (n, c) :: r => ((cur ++ [n], is_dir c) :: entries (cur ++ [n]) c) ++ go r
       end) ch
  end.

(* every pattern of every ignore file of the tree, with the directory of the file *)
Fixpoint dirpats (cur : path) (t : tree) {struct t} : list (path * pattern) :=
  match t with
  | File => []
  | Dir ign ch =>
    map (pair cur) (dir_patterns cur ign) ++
    (fix go (l : list (name * tree)) : list (path * pattern) :=
       match l with
       | [] => []
       | (n, c) :: r => dirpats (cur ++ [n]) c ++ go r
       end) ch
  end.

Lemma entries_dir cur ign ch :
  entries cur (Dir ign ch) = flat_map (fun nt => (cur ++ [fst nt], is_dir (snd nt)) :: entries (cur ++ [fst nt]) (snd nt)) ch.
Proof. cbn [entries]. induction ch as [|[n c] r IH]; [reflexivity|]. cbn [flat_map fst snd]. rewrite <- IH. reflexivity. Qed.

Lemma dirpats_dir cur ign ch :
  dirpats cur (Dir ign ch) = map (pair cur) (dir_patterns cur ign) ++ flat_map (fun nt => dirpats (cur ++ [fst nt]) (snd nt)) ch.
Proof. cbn [dirpats]. f_equal. induction ch as [|[n c] r IH]; [reflexivity|]. cbn [flat_map fst snd]. rewrite <- IH. reflexivity. Qed.

Lemma entries_node t : forall p cur ign ch n c,
  node_at t p = Some (Dir ign ch) -> In (n, c) ch -> In (cur ++ p ++ [n], is_dir c) (entries cur t).
Proof.
  intros p. revert t. induction p as [|m p IH]; intros t cur ign ch n c H Hin.
  - cbn in H. injection H as ->. rewrite entries_dir. apply in_flat_map. exists (n, c). split; [exact Hin|]. left. reflexivity.
  - cbn [node_at] in H. destruct t as [|i c0]; [discriminate|]. destruct (find_child m c0) as [c1|] eqn:Ef; [|discriminate].
    apply find_child_Some in Ef. rewrite entries_dir. apply in_flat_map. exists (m, c1). split; [exact Ef|]. right. cbn [fst snd].
    specialize (IH c1 (cur ++ [m]) ign ch n c H Hin). rewrite <- app_assoc in IH. exact IH.
Qed.

Lemma dirpats_node t : forall p cur ign ch pat,
  node_at t p = Some (Dir ign ch) -> In pat (dir_patterns (cur ++ p) ign) -> In (cur ++ p, pat) (dirpats cur t).
Proof.
  intros p. revert t. induction p as [|m p IH]; intros t cur ign ch pat H Hin.
  - cbn in H. injection H as ->. rewrite app_nil_r in *. rewrite dirpats_dir. apply in_or_app. left. apply in_map. exact Hin.
  - cbn [node_at] in H. destruct t as [|i c0]; [discriminate|]. destruct (find_child m c0) as [c1|] eqn:Ef; [|discriminate].
    apply find_child_Some in Ef. rewrite dirpats_dir. apply in_or_app. right. apply in_flat_map. exists (m, c1). split; [exact Ef|]. cbn [fst snd].
    specialize (IH c1 (cur ++ [m]) ign ch pat H). rewrite <- app_assoc in IH. apply IH. exact Hin.
Qed.

Definition proper_prefixb (D q : path) : bool :=
  if path_eq_dec (firstn (length D) q) D then negb (Nat.eqb (length q) (length D)) else false.

Lemma proper_prefixb_spec D q : proper_prefixb D q = true -> exists r, q = D ++ r /\ r <> [].
Proof.
  unfold proper_prefixb. destruct (path_eq_dec _ _) as [E|]; [|discriminate]. intros H.
  exists (skipn (length D) q). split.
  - rewrite <- E at 1. symmetry. apply firstn_skipn.
  - intros Hs. apply negb_true_iff in H. apply Nat.eqb_neq in H. apply H.
    rewrite <- (firstn_skipn (length D) q) at 1. rewrite Hs, app_nil_r, E. reflexivity.
Qed.

(* some pattern of an ignore file below the root matches (as a glob, the way the walkers ask: [glob_hit]) an
   entry that is not below the directory of that file *)
Definition known_P17 (gm : bytes -> bytes -> bool) (f37 : bool) (t : tree) : bool :=
  existsb (fun dp => match fst dp with
                     | [] => false
                     | _ => existsb (fun qd => glob_hit gm f37 (render (fst qd)) (snd qd) (snd dp) && negb (proper_prefixb (fst dp) (fst qd))) (entries [] t)
                     end) (dirpats [] t).

Lemma if_true_same (b : bool) : (if b then true else true) = true.
Proof. destruct b; reflexivity. Qed.

(* ---- the walk of one tree ---------------------------------------------------------------------------- *)
Section Walk.
Variable gm : bytes -> bytes -> bool.
Variable fixed_P17 : bool.
Variable fixed_P35 : bool.
Variable fixed_P37 : bool.
Variable globals : bytes.
Variable ign0 : option bytes.
Variable ch0 : list (name * tree).

Let T0 := Dir ign0 ch0.
Let G := global_rules globals.
Definition RB (p : path) : rules := rb G [] T0 p.

Notation check' := (check gm fixed_P17 fixed_P35 fixed_P37).
Notation hits := (pat_hits_d gm fixed_P17 fixed_P37).

Definition spec_child (R' : rules) (p : path) (nt : name * tree) : list path :=
  if is_ignore (check' R' (p ++ [fst nt]) (is_dir (snd nt))) then []
  else (p ++ [fst nt]) :: spec_node gm fixed_P17 fixed_P35 fixed_P37 R' (p ++ [fst nt]) (snd nt).

Lemma spec_node_dir R p ign ch :
  spec_node gm fixed_P17 fixed_P35 fixed_P37 R p (Dir ign ch) = flat_map (spec_child (add_patterns R (dir_patterns p ign)) p) ch.
Proof.
  cbn [spec_node]. induction ch as [|[n c] r IH]; [reflexivity|].
  cbn [flat_map]. rewrite <- IH. reflexivity.
Qed.

Lemma spec_node_file R p : spec_node gm fixed_P17 fixed_P35 fixed_P37 R p File = [].
Proof. reflexivity. Qed.

(* is a directory of the tree, with this ignore text and these entries *)
Definition is_node (p : path) (ign : option bytes) (ch : list (name * tree)) : Prop :=
  node_at T0 p = Some (Dir ign ch).

(* every pattern of R is a global one or comes from the ignore file of a directory of the tree *)
Definition sourced (R : rules) : Prop :=
  (forall pat, In pat (r_ign R) ->
     In pat (r_ign G) \/ exists p ign ch, is_node p ign ch /\ In pat (filter (fun x => negb (p_white x)) (dir_patterns p ign))) /\
  (forall pat, In pat (r_white R) ->
     In pat (r_white G) \/ exists p ign ch, is_node p ign ch /\ In pat (filter p_white (dir_patterns p ign))).

Lemma sourced_G : sourced G.
Proof. split; intros pat H; left; exact H. Qed.

Lemma sourced_merge_ign R p ign ch : sourced R -> is_node p ign ch -> sourced (merge_ign R (dir_patterns p ign)).
Proof.
  intros [A B] Hn. split; cbn; [|exact B]. intros pat H. apply in_app_or in H as [H|H]; [apply A; exact H|].
  right. exists p, ign, ch. split; assumption.
Qed.
Lemma sourced_merge_white R p ign ch : sourced R -> is_node p ign ch -> sourced (merge_white R (dir_patterns p ign)).
Proof.
  intros [A B] Hn. split; cbn; [exact A|]. intros pat H. apply in_app_or in H as [H|H]; [apply B; exact H|].
  right. exists p, ign, ch. split; assumption.
Qed.
Lemma sourced_add R p ign ch : sourced R -> is_node p ign ch -> sourced (add_patterns R (dir_patterns p ign)).
Proof. intros H Hn. unfold add_patterns. apply (sourced_merge_white _ p ign ch); [apply (sourced_merge_ign _ p ign ch)|]; assumption. Qed.

Lemma existsb_incl {A} (f : A -> bool) l1 l2 : incl l1 l2 -> existsb f l1 = true -> existsb f l2 = true.
Proof.
  intros Hi H. apply existsb_exists in H as (x & Hx & Hf). apply existsb_exists. exists x. split; [apply Hi; exact Hx|exact Hf].
Qed.

Lemma sub_G_RB p : sub G (RB p).
Proof. apply rb_mono. Qed.

Hypothesis Hwf : wf_tree T0 = true.
(* Locality of the rules of this tree: a pattern of the ignore file of a directory of the tree that hits
   an entry of the tree sits above that entry.  With the P17 fix this is what the explicit prefix test
   of IgnoreRules::check gives for every tree ([local_of_fixed]); without it, it holds exactly for the
   trees outside the known class ([local_of_not_known]). *)
Definition local_rules : Prop :=
  forall pat p' ign' ch' p ign ch n t,
    is_node p' ign' ch' -> In pat (dir_patterns p' ign') ->
    is_node p ign ch -> In (n, t) ch -> hits (render (p ++ [n])) (is_dir t) pat = true ->
    exists r, p ++ [n] = p' ++ r /\ r <> [].

Lemma entry_good p ign ch n t : is_node p ign ch -> In (n, t) ch -> Forall good (p ++ [n]).
Proof.
  intros Hn Hin. destruct (node_at_wf T0 p _ Hwf Hn) as [Hp Hwd]. destruct (wf_children ign ch Hwd) as [_ Hc].
  apply Forall_app. split; [exact Hp|constructor; [apply (Hc n t Hin)|constructor]].
Qed.

Lemma local_of_fixed : fixed_P17 = true -> local_rules.
Proof.
  intros Hfixed pat p' ign' ch' p ign ch n t Hn' Hin Hn Hc Hh.
  unfold pat_hits_d in Hh. rewrite Hfixed in Hh. apply andb_true_iff in Hh as [Ha _].
  destruct p' as [|m p']; [exists (p ++ [n]); split; [reflexivity|destruct p; discriminate]|].
  destruct (node_at_wf T0 (m :: p') _ Hwf Hn') as [Hgp' _].
  apply (applies_below pat (m :: p') (p ++ [n]) (dir_patterns_src _ _ _ Hin)); try assumption.
  - discriminate.
  - destruct p; discriminate.
  - eapply entry_good; eassumption.
Qed.

Lemma local_of_not_known : known_P17 gm fixed_P37 T0 = false -> local_rules.
Proof.
  intros Hk pat p' ign' ch' p ign ch n t Hn' Hin Hn Hc Hh.
  destruct p' as [|m p']; [exists (p ++ [n]); split; [reflexivity|destruct p; discriminate]|].
  apply proper_prefixb_spec. destruct (proper_prefixb (m :: p') (p ++ [n])) eqn:Ep; [reflexivity|]. exfalso.
  unfold pat_hits_d in Hh. apply andb_true_iff in Hh as [_ Hg].
  assert (Hd := dirpats_node T0 (m :: p') [] ign' ch' pat Hn' Hin). assert (He := entries_node T0 p [] ign ch n t Hn Hc). cbn [app] in Hd, He.
  assert (Ht : known_P17 gm fixed_P37 T0 = true); [|rewrite Ht in Hk; discriminate].
  unfold known_P17. apply existsb_exists. exists (m :: p', pat). split; [exact Hd|]. cbn [fst snd].
  apply existsb_exists. exists (p ++ [n], is_dir t). split; [exact He|]. cbn [fst snd]. rewrite Hg, Ep. reflexivity.
Qed.

Hypothesis Hlocal : local_rules.

(* The heart of the argument: for an entry q of a directory of the tree, any rule set that contains the
   rules of q's ancestors and otherwise only patterns of other directories of the tree gives the verdict
   of the reference walk -- patterns of other directories do not hit q. *)
Lemma check_stable R p ign ch n t :
  is_node p ign ch -> In (n, t) ch -> sub (RB (p ++ [n])) R -> sourced R ->
  check' R (p ++ [n]) (is_dir t) = check' (RB (p ++ [n])) (p ++ [n]) (is_dir t).
Proof.
  intros Hn Hc Hsub Hsrc.
  set (q := p ++ [n]) in *. set (s := render q). set (d := is_dir t).
  (* a pattern of a directory of the tree that hits q is loaded in RB q *)
  assert (Hloc : forall pat p' ign' ch', is_node p' ign' ch' -> In pat (dir_patterns p' ign') -> hits s d pat = true ->
                   loaded (dir_patterns p' ign') (RB q)).
  { intros pat p' ign' ch' Hn' Hin Hh.
    destruct (Hlocal pat p' ign' ch' p ign ch n t Hn' Hin Hn Hc Hh) as (r & Eq & Hr).
    destruct r as [|n0 r0]; [contradiction|]. unfold RB, q. rewrite Eq.
    apply (node_loaded T0 p' G [] ign' ch' n0 r0 Hn'). }
  destruct Hsub as [Hsi Hsw]. destruct Hsrc as [Hi Hw].
  assert (Ew : existsb (hits s d) (r_white R) = existsb (hits s d) (r_white (RB q))).
  { apply eq_true_iff_eq. split; intros H.
    - apply existsb_exists in H as (pat & Hin & Hh). apply existsb_exists. exists pat. split; [|exact Hh].
      destruct (Hw pat Hin) as [Hg|(p' & ign' & ch' & Hn' & Hin')].
      + apply (proj2 (sub_G_RB q)). exact Hg.
      + assert (Hin2 := proj1 (filter_In _ _ _) Hin'). destruct (Hloc pat p' ign' ch' Hn' (proj1 Hin2) Hh) as [_ L]. apply L. exact Hin'.
    - eapply existsb_incl; eassumption. }
  assert (Ei : existsb (hits s d) (r_ign R) = existsb (hits s d) (r_ign (RB q))).
  { apply eq_true_iff_eq. split; intros H.
    - apply existsb_exists in H as (pat & Hin & Hh). apply existsb_exists. exists pat. split; [|exact Hh].
      destruct (Hi pat Hin) as [Hg|(p' & ign' & ch' & Hn' & Hin')].
      + apply (proj1 (sub_G_RB q)). exact Hg.
      + assert (Hin2 := proj1 (filter_In _ _ _) Hin'). destruct (Hloc pat p' ign' ch' Hn' (proj1 Hin2) Hh) as [L _]. apply L. exact Hin'.
    - eapply existsb_incl; eassumption. }
  assert (Eg : global_hit_d gm fixed_P37 (RB q) s d = global_hit_d gm fixed_P37 R s d).
  { unfold global_hit_d. apply eq_true_iff_eq. split; intros H.
    - eapply existsb_incl; eassumption.
    - apply existsb_exists in H as (pat & Hin & Hh). apply existsb_exists. exists pat. split; [|exact Hh].
      destruct (Hi pat Hin) as [Hg|(p' & ign' & ch' & Hn' & Hin')].
      + apply (proj1 (sub_G_RB q)). exact Hg.
      + exfalso. assert (Hin2 := proj1 (filter_In _ _ _) Hin'). apply andb_true_iff in Hh as [Hgl _].
        unfold is_global in Hgl. rewrite (dir_patterns_src _ _ _ (proj1 Hin2)) in Hgl. discriminate. }
  unfold check, check_strd. fold s. rewrite Ew, Ei, Eg. reflexivity.
Qed.

(* ---- counting --------------------------------------------------------------------------------------- *)
Definition cnt (l : list path) (x : path) : nat := count_occ path_eq_dec l x.

Lemma cnt_app l1 l2 x : cnt (l1 ++ l2) x = (cnt l1 x + cnt l2 x)%nat.
Proof. apply count_occ_app. Qed.
Lemma cnt_nil x : cnt [] x = O.
Proof. reflexivity. Qed.
Lemma cnt_cons a l x : cnt (a :: l) x = (cnt [a] x + cnt l x)%nat.
Proof. change (a :: l) with ([a] ++ l). apply cnt_app. Qed.
Lemma cnt_flat_map_app {A} (f : A -> list path) l1 l2 x :
  cnt (flat_map f (l1 ++ l2)) x = (cnt (flat_map f l1) x + cnt (flat_map f l2) x)%nat.
Proof. rewrite flat_map_app. apply cnt_app. Qed.
Lemma cnt_flat_map_cons {A} (f : A -> list path) a l x :
  cnt (flat_map f (a :: l)) x = (cnt (f a) x + cnt (flat_map f l) x)%nat.
Proof. cbn [flat_map]. apply cnt_app. Qed.

(* what is still to be reported for a pending directory / a child not yet checked *)
Definition contrib_item (d : ditem) : list path :=
  let '(p, ign, ch) := d in spec_node gm fixed_P17 fixed_P35 fixed_P37 (RB p) p (Dir ign ch).
Definition contrib_child (qt : path * tree) : list path :=
  let '(q, t) := qt in
  if is_ignore (check' (RB q) q (is_dir t)) then [] else q :: spec_node gm fixed_P17 fixed_P35 fixed_P37 (RB q) q t.

Definition item_ok (R : rules) (d : ditem) : Prop :=
  let '(p, ign, ch) := d in is_node p ign ch /\ sub (RB p) R.
Definition child_ok (R : rules) (qt : path * tree) : Prop :=
  let '(q, t) := qt in
  exists p n ign ch, q = p ++ [n] /\ is_node p ign ch /\ In (n, t) ch /\ sub (RB q) R.

Lemma item_ok_mono R R' d : sub R R' -> item_ok R d -> item_ok R' d.
Proof. destruct d as [[p i] c]. intros Hs [A B]. split; [exact A|eapply sub_trans; eassumption]. Qed.
Lemma child_ok_mono R R' qt : sub R R' -> child_ok R qt -> child_ok R' qt.
Proof.
  destruct qt as [q t]. intros Hs (p & n & i & c & E & A & B & S). exists p, n, i, c.
  repeat split; try assumption. - apply (proj1 (sub_trans _ _ _ S Hs)). - apply (proj2 (sub_trans _ _ _ S Hs)).
Qed.

Lemma RB_snoc p ign ch n : is_node p ign ch -> RB (p ++ [n]) = add_patterns (RB p) (dir_patterns p ign).
Proof. intros H. unfold RB. rewrite (rb_snoc T0 p G [] ign ch n H). reflexivity. Qed.

(* listing a directory whose own patterns are loaded: what [contrib_item] promises is what the children
   promise *)
Lemma contrib_item_children p ign ch x : is_node p ign ch ->
  cnt (contrib_item (p, ign, ch)) x = cnt (flat_map contrib_child (children_of p ch)) x.
Proof.
  intros Hn. unfold contrib_item. rewrite spec_node_dir. f_equal. unfold children_of.
  generalize ch at 1 2. intros l.
  induction l as [|[n c] r IH]; [reflexivity|]. cbn [map flat_map fst snd]. rewrite IH. f_equal.
  unfold spec_child, contrib_child. cbn [fst snd]. rewrite (RB_snoc p ign ch n Hn). reflexivity.
Qed.

Lemma children_ok R p ign ch : is_node p ign ch -> sub (add_patterns (RB p) (dir_patterns p ign)) R ->
  Forall (child_ok R) (children_of p ch).
Proof.
  intros Hn Hs. apply Forall_forall. intros [q t] Hin. unfold children_of in Hin. apply in_map_iff in Hin as ([n c] & E & Hin).
  cbn [fst snd] in E. injection E as <- <-. exists p, n, ign, ch. split; [reflexivity|]. split; [exact Hn|]. split; [exact Hin|].
  rewrite (RB_snoc p ign ch n Hn). exact Hs.
Qed.

Lemma child_node q t R : child_ok R (q, t) ->
  (exists p n ign ch, q = p ++ [n] /\ is_node p ign ch /\ good n) /\
  (forall i c, t = Dir i c -> is_node q i c).
Proof.
  intros (p & n & ign & ch & E & Hn & Hin & Hs).
  destruct (node_at_wf T0 p _ Hwf Hn) as [_ Hwd]. destruct (wf_children ign ch Hwd) as [Hnd Hc]. destruct (Hc n t Hin) as [Hg _].
  split; [exists p, n, ign, ch; auto|]. intros i c ->. subst q. unfold is_node.
  eapply node_at_snoc; [exact Hn|]. apply find_child_In; assumption.
Qed.

(* one child check, as both walkers do it, with any adequate rule set *)
Lemma check_child R q t : child_ok R (q, t) -> sourced R -> check' R q (is_dir t) = check' (RB q) q (is_dir t).
Proof.
  intros (p & n & ign & ch & -> & Hn & Hin & Hs) Hsrc.
  eapply check_stable; eassumption.
Qed.

(* [scan]: the filter_map of both walkers over the children of one directory *)
Lemma scan_spec R p : forall l, Forall (child_ok R) (children_of p l) -> sourced R ->
  let '(o, k) := scan gm fixed_P17 fixed_P35 fixed_P37 R p l in
  (forall x, (cnt o x + cnt (flat_map contrib_item k) x)%nat = cnt (flat_map contrib_child (children_of p l)) x) /\
  Forall (item_ok R) k.
Proof.
  induction l as [|[n t] r IH]; intros Hok Hsrc.
  - cbn. split; [reflexivity|constructor].
  - cbn [children_of map fst snd] in Hok. inversion Hok as [|? ? Hc Hr]. subst.
    specialize (IH Hr Hsrc). cbn [scan]. destruct (scan gm fixed_P17 fixed_P35 fixed_P37 R p r) as [o k]. destruct IH as [IHc IHk].
    assert (Ec := check_child R (p ++ [n]) t Hc Hsrc).
    cbn [children_of map fst snd]. fold (children_of p r).
    destruct (is_ignore (check' R (p ++ [n]) (is_dir t))) eqn:Ei.
    + split; [|exact IHk]. intros x. rewrite cnt_flat_map_cons. unfold contrib_child at 1. rewrite <- Ec, Ei. rewrite cnt_nil. apply IHc.
    + destruct (child_node _ _ _ Hc) as [_ Hd]. destruct Hc as (p' & n' & i' & c' & E & Hn' & Hin' & Hs).
      split.
      * intros x. rewrite cnt_flat_map_cons. unfold contrib_child at 1. rewrite <- Ec, Ei.
        rewrite (cnt_cons (p ++ [n]) o), (cnt_cons (p ++ [n]) (spec_node _ _ _ _ _ _ _)). specialize (IHc x).
        destruct t as [|i c]; [rewrite spec_node_file, cnt_nil; lia|].
        rewrite cnt_flat_map_cons. unfold contrib_item at 1. lia.
      * destruct t as [|i c]; [exact IHk|]. constructor; [|exact IHk]. split; [apply Hd; reflexivity|exact Hs].
Qed.

(* ---- walk_parallel: the invariant of the small-step machine ---------------------------------------------- *)
Definition contrib_thread (ts : tstate) : list path :=
  match ts with
  | Idle | Done => []
  | M1 d | M2 d => contrib_item d
  | Work rest kept => flat_map contrib_child rest ++ flat_map contrib_item kept
  end.

Definition own_ign_loaded (R : rules) (d : ditem) : Prop :=
  let '(p, ign, ch) := d in incl (filter (fun x => negb (p_white x)) (dir_patterns p ign)) (r_ign R).

Definition thread_ok (R : rules) (ts : tstate) : Prop :=
  match ts with
  | Idle | Done => True
  | M1 d => item_ok R d
  | M2 d => item_ok R d /\ own_ign_loaded R d
  | Work rest kept => Forall (child_ok R) rest /\ Forall (item_ok R) kept
  end.

(* reported so far + still to be reported, as a multiset *)
Definition phi (c : config) (x : path) : nat :=
  (cnt (c_out c) x + cnt (flat_map contrib_item (c_queue c)) x + cnt (flat_map contrib_thread (c_threads c)) x)%nat.

Definition live (c : config) : Prop :=
  c_queue c <> [] -> exists ts, In ts (c_threads c) /\ is_done ts = false.

Record Inv (c : config) : Prop := {
  inv_src : sourced (c_rules c);
  inv_queue : Forall (item_ok (c_rules c)) (c_queue c);
  inv_threads : Forall (thread_ok (c_rules c)) (c_threads c);
  inv_live : live c }.

Lemma thread_ok_mono R R' ts : sub R R' -> thread_ok R ts -> thread_ok R' ts.
Proof.
  intros Hs. destruct ts as [|d|d|rest kept|]; cbn [thread_ok]; auto.
  - apply item_ok_mono; exact Hs.
  - intros [A B]. split; [eapply item_ok_mono; eassumption|]. destruct d as [[p i] c]. cbn in *. eapply incl_tran; [exact B|apply Hs].
  - intros [A B]. split; (eapply Forall_impl; [|eassumption]); intros a; [apply child_ok_mono|apply item_ok_mono]; exact Hs.
Qed.

Lemma nth_split {A} (l : list A) : forall i x, nth_error l i = Some x ->
  exists l1 l2, l = l1 ++ x :: l2 /\ forall y, set_nth l i y = l1 ++ y :: l2.
Proof.
  induction l as [|a l IH]; intros [|i] x H; cbn in H; try discriminate.
  - injection H as ->. exists [], l. split; [reflexivity|]. intros y. reflexivity.
  - destruct (IH i x H) as (l1 & l2 & -> & Hs). exists (a :: l1), l2. split; [reflexivity|]. intros y. cbn. rewrite Hs. reflexivity.
Qed.

Lemma take_nth_split {A} (l : list A) : forall k d l', take_nth l k = Some (d, l') ->
  exists l1 l2, l = l1 ++ d :: l2 /\ l' = l1 ++ l2.
Proof.
  induction l as [|a l IH]; intros [|k] d l' H; cbn in H; try discriminate.
  - injection H as -> ->. exists [], l'. split; reflexivity.
  - destruct (take_nth l k) as [[y r']|] eqn:E; [|discriminate]. injection H as -> <-.
    destruct (IH k d r' E) as (l1 & l2 & -> & ->). exists (a :: l1), l2. split; reflexivity.
Qed.

(* the frame of every step: thread i goes from ts to ts', the rest of the configuration changes as given *)
Lemma step_frame c l1 l2 ts ts' q' R' o' :
  Inv c -> c_threads c = l1 ++ ts :: l2 ->
  sub (c_rules c) R' -> sourced R' -> Forall (item_ok R') q' -> thread_ok R' ts' ->
  (is_done ts' = false \/ q' = []) ->
  (forall x, (cnt o' x + cnt (flat_map contrib_item q') x + cnt (contrib_thread ts') x
              = cnt (c_out c) x + cnt (flat_map contrib_item (c_queue c)) x + cnt (contrib_thread ts) x)%nat) ->
  let c' := {| c_queue := q'; c_threads := l1 ++ ts' :: l2; c_rules := R'; c_out := o' |} in
  Inv c' /\ forall x, phi c' x = phi c x.
Proof.
  intros [Is Iq It Il] Et Hsub Hsrc Hq Hts Hlive Hcnt c'. split.
  - constructor; cbn.
    + exact Hsrc.
    + exact Hq.
    + rewrite Et in It. apply Forall_app in It as [A B]. inversion B as [|? ? _ B']. subst.
      apply Forall_app. split; [|constructor; [exact Hts|]]; (eapply Forall_impl; [|eassumption]); intros a; apply thread_ok_mono; exact Hsub.
    + intros Hne. destruct Hlive as [Hd|Hd]; [|contradiction]. exists ts'. split; [apply in_or_app; right; left; reflexivity|exact Hd].
  - intros x. unfold phi. cbn [c_out c_queue c_threads c']. rewrite Et. rewrite !cnt_flat_map_app, !cnt_flat_map_cons. specialize (Hcnt x). lia.
Qed.

Lemma par_step_inv c i k c' : Inv c -> par_step gm fixed_P17 fixed_P35 fixed_P37 c i k = Some c' -> Inv c' /\ forall x, phi c' x = phi c x.
Proof.
  intros HI H. unfold par_step in H. destruct (nth_error (c_threads c) i) as [ts|] eqn:En; [|discriminate].
  destruct (nth_split _ _ _ En) as (l1 & l2 & Et & Hset).
  assert (HIc := HI). destruct HIc as [Is Iq It Il].
  assert (Hts : thread_ok (c_rules c) ts).
  { rewrite Et in It. apply Forall_app in It as [_ B]. inversion B. assumption. }
  destruct ts as [|[[p ign] ch]|[[p ign] ch]|rest kept|].
  - (* Idle *)
    destruct (c_queue c) as [|d0 q0] eqn:Eq.
    + injection H as <-. rewrite Hset. apply (step_frame c l1 l2 Idle Done [] (c_rules c) (c_out c)); auto using sub_refl.
      intros x. rewrite Eq. reflexivity.
    + destruct (take_nth (d0 :: q0) k) as [[d q']|] eqn:Etk; [|discriminate]. injection H as <-. rewrite Hset.
      destruct (take_nth_split _ _ _ _ Etk) as (q1 & q2 & Eq1 & ->).
      rewrite Eq1 in Iq. apply Forall_app in Iq as [A B]. inversion B as [|? ? Hd B']. subst.
      apply (step_frame c l1 l2 Idle (M1 d) (q1 ++ q2) (c_rules c) (c_out c)); auto using sub_refl.
      * apply Forall_app. split; assumption.
      * intros x. rewrite Eq, Eq1. rewrite !cnt_flat_map_app, cnt_flat_map_cons. cbn [contrib_thread]. rewrite cnt_nil. lia.
  - (* M1 *)
    injection H as <-. rewrite Hset. cbn [thread_ok item_ok] in Hts. destruct Hts as [Hn Hs].
    apply (step_frame c l1 l2 (M1 (p, ign, ch)) (M2 (p, ign, ch)) (c_queue c) (merge_ign (c_rules c) (dir_patterns p ign)) (c_out c)); auto using sub_merge_ign.
    + eapply sourced_merge_ign; eassumption.
    + eapply Forall_impl; [|exact Iq]. intros a. apply item_ok_mono. apply sub_merge_ign.
    + cbn [thread_ok item_ok own_ign_loaded]. split; [split; [exact Hn|eapply sub_trans; [exact Hs|apply sub_merge_ign]]|].
      cbn. apply incl_appr. apply incl_refl.
  - (* M2 *)
    injection H as <-. rewrite Hset. cbn [thread_ok item_ok own_ign_loaded] in Hts. destruct Hts as [[Hn Hs] Hl].
    apply (step_frame c l1 l2 (M2 (p, ign, ch)) (Work (children_of p ch) []) (c_queue c) (merge_white (c_rules c) (dir_patterns p ign)) (c_out c)); auto using sub_merge_white.
    + eapply sourced_merge_white; eassumption.
    + eapply Forall_impl; [|exact Iq]. intros a. apply item_ok_mono. apply sub_merge_white.
    + cbn [thread_ok]. split; [|constructor]. apply (children_ok _ p ign ch Hn).
      apply sub_add_l; [eapply sub_trans; [exact Hs|apply sub_merge_white]|].
      split; cbn; [exact Hl|apply incl_appr; apply incl_refl].
    + intros x. cbn [contrib_thread flat_map]. rewrite app_nil_r. rewrite (contrib_item_children p ign ch x Hn). reflexivity.
  - (* Work *)
    cbn [thread_ok] in Hts. destruct Hts as [Hrest Hkept].
    destruct rest as [|[q t] rest].
    + destruct kept as [|d kept].
      * injection H as <-. rewrite Hset. apply (step_frame c l1 l2 (Work [] []) Idle (c_queue c) (c_rules c) (c_out c)); cbn [thread_ok]; auto using sub_refl.
      * injection H as <-. rewrite Hset. inversion Hkept as [|? ? Hd Hk]. subst.
        apply (step_frame c l1 l2 (Work [] (d :: kept)) (Work [] kept) (c_queue c ++ [d]) (c_rules c) (c_out c)); cbn [thread_ok]; auto using sub_refl.
        -- apply Forall_app. split; [exact Iq|constructor; [exact Hd|constructor]].
        -- intros x. cbn [contrib_thread]. rewrite cnt_flat_map_app, !cnt_app, !cnt_flat_map_cons. cbn [flat_map]. rewrite !cnt_nil. lia.
    + inversion Hrest as [|? ? Hc Hr]. subst.
      assert (Ec := check_child _ q t Hc Is).
      destruct (is_ignore (check' (c_rules c) q (is_dir t))) eqn:Ei.
      * injection H as <-. rewrite Hset.
        apply (step_frame c l1 l2 (Work ((q, t) :: rest) kept) (Work rest kept) (c_queue c) (c_rules c) (c_out c)); cbn [thread_ok]; auto using sub_refl.
        intros x. cbn [contrib_thread]. rewrite cnt_app, (cnt_app (flat_map contrib_child ((q, t) :: rest))), cnt_flat_map_cons.
        unfold contrib_child at 2. rewrite <- Ec, Ei, cnt_nil. lia.
      * injection H as <-. rewrite Hset.
        destruct (child_node _ _ _ Hc) as [_ Hd]. destruct Hc as (p' & n' & i' & c0 & E & Hn' & Hin' & Hs).
        apply (step_frame c l1 l2 (Work ((q, t) :: rest) kept)
                 (Work rest (kept ++ match t with Dir i ch => [(q, i, ch)] | File => [] end)) (c_queue c) (c_rules c) (c_out c ++ [q]));
          cbn [thread_ok]; auto using sub_refl.
        -- split; [exact Hr|]. apply Forall_app. split; [exact Hkept|]. destruct t as [|ti tch]; constructor; [|constructor].
           split; [apply Hd; reflexivity|exact Hs].
        -- intros x. cbn [contrib_thread]. rewrite !cnt_app, cnt_flat_map_cons, cnt_flat_map_app.
           unfold contrib_child at 2. rewrite <- Ec, Ei. rewrite (cnt_cons q (spec_node _ _ _ _ _ _ _)).
           destruct t as [|ti tch]; [rewrite spec_node_file; cbn [flat_map]; rewrite !cnt_nil; lia|].
           cbn [flat_map]. rewrite app_nil_r. unfold contrib_item at 3. lia.
  - discriminate.
Qed.

Lemma par_run_inv sched : forall c, Inv c ->
  Inv (par_run gm fixed_P17 fixed_P35 fixed_P37 c sched) /\ forall x, phi (par_run gm fixed_P17 fixed_P35 fixed_P37 c sched) x = phi c x.
Proof.
  induction sched as [|[i k] r IH]; intros c HI; [split; [exact HI|reflexivity]|].
  cbn [par_run]. destruct (par_step gm fixed_P17 fixed_P35 fixed_P37 c i k) as [c'|] eqn:E; [|apply IH; exact HI].
  destruct (par_step_inv c i k c' HI E) as [HI' Hp]. destruct (IH c' HI') as [HI'' Hp'].
  split; [exact HI''|]. intros x. rewrite Hp', Hp. reflexivity.
Qed.

Lemma root_node : is_node [] ign0 ch0.
Proof. reflexivity. Qed.

Lemma cnt_idle n x : cnt (flat_map contrib_thread (repeat Idle n)) x = O.
Proof. induction n as [|n IH]; [reflexivity|]. cbn [repeat flat_map contrib_thread app]. exact IH. Qed.

Lemma par_init_inv n : (1 <= n)%nat ->
  let c := par_init gm fixed_P17 fixed_P35 fixed_P37 n globals ign0 ch0 in
  Inv c /\ forall x, phi c x = cnt (spec_walk gm fixed_P17 fixed_P35 fixed_P37 globals ign0 ch0) x.
Proof.
  intros Hn. unfold par_init. fold G.
  set (R0 := add_patterns G (dir_patterns [] ign0)).
  assert (Hsrc : sourced R0) by (apply (sourced_add G [] ign0 ch0 sourced_G root_node)).
  assert (Hch : Forall (child_ok R0) (children_of [] ch0)).
  { apply (children_ok R0 [] ign0 ch0 root_node). apply sub_refl. }
  assert (Hs := scan_spec R0 [] ch0 Hch Hsrc). destruct (scan gm fixed_P17 fixed_P35 fixed_P37 R0 [] ch0) as [o kept]. destruct Hs as [Hc Hk].
  split.
  - constructor; cbn.
    + exact Hsrc.
    + exact Hk.
    + apply Forall_forall. intros ts Hin. apply repeat_spec in Hin. subst. exact I.
    + intros _. exists Idle. split; [|reflexivity]. destruct n; [lia|]. left. reflexivity.
  - intros x. unfold phi. cbn [c_out c_queue c_threads]. rewrite cnt_idle. rewrite Nat.add_0_r, (Hc x).
    rewrite <- (contrib_item_children [] ign0 ch0 x root_node). reflexivity.
Qed.

Lemma final_phi c : Inv c -> final c = true -> forall x, phi c x = cnt (c_out c) x.
Proof.
  intros [_ _ _ Hl] Hf x. unfold final in Hf. rewrite forallb_forall in Hf.
  assert (Hq : c_queue c = []).
  { destruct (c_queue c) as [|d q] eqn:E; [reflexivity|]. destruct Hl as (ts & Hin & Hd); [rewrite E; discriminate|].
    rewrite (Hf ts Hin) in Hd. discriminate. }
  unfold phi. rewrite Hq. cbn [flat_map]. rewrite cnt_nil.
  assert (Ht : forall l, (forall ts, In ts l -> is_done ts = true) -> cnt (flat_map contrib_thread l) x = O).
  { induction l as [|ts l IH]; intros H; [reflexivity|]. rewrite cnt_flat_map_cons, IH by (intros t Ht; apply H; right; exact Ht).
    specialize (H ts (or_introl eq_refl)). destruct ts; try discriminate. reflexivity. }
  rewrite (Ht _ Hf). lia.
Qed.

(* ---- the reference walk reports every path once ---------------------------------------------------- *)
Lemma nodup_app {A} (l1 l2 : list A) : NoDup l1 -> NoDup l2 -> (forall x, In x l1 -> ~ In x l2) -> NoDup (l1 ++ l2).
Proof.
  induction l1 as [|a l1 IH]; intros H1 H2 Hd; [exact H2|]. inversion H1 as [|? ? Ha H1']. subst. cbn. constructor.
  - intros Hin. apply in_app_or in Hin as [Hin|Hin]; [contradiction|]. apply (Hd a); [left; reflexivity|exact Hin].
  - apply IH; [assumption|assumption|]. intros x Hx. apply Hd. right. exact Hx.
Qed.

Lemma spec_node_below : forall t R p x, In x (spec_node gm fixed_P17 fixed_P35 fixed_P37 R p t) -> exists n r, x = p ++ n :: r.
Proof.
  induction t as [|ign ch IH] using tree_ind'; intros R p x Hin; [contradiction|].
  rewrite spec_node_dir in Hin. apply in_flat_map in Hin as ([n c] & Hc & Hx).
  unfold spec_child in Hx. cbn [fst snd] in Hx. destruct (is_ignore _); [contradiction|].
  destruct Hx as [<-|Hx]; [exists n, []; reflexivity|].
  rewrite Forall_forall in IH. destruct (IH (n, c) Hc _ _ _ Hx) as (n' & r' & ->).
  exists n, (n' :: r'). rewrite <- app_assoc. reflexivity.
Qed.

Lemma spec_child_below R p nt x : In x (spec_child R p nt) -> exists r, x = p ++ fst nt :: r.
Proof.
  unfold spec_child. destruct (is_ignore _); [contradiction|]. intros [<-|Hx]; [exists []; reflexivity|].
  destruct (spec_node_below _ _ _ _ Hx) as (n' & r' & ->). exists (n' :: r'). rewrite <- app_assoc. reflexivity.
Qed.

Lemma spec_node_nodup : forall t R p, wf_tree t = true -> NoDup (spec_node gm fixed_P17 fixed_P35 fixed_P37 R p t).
Proof.
  induction t as [|ign ch IH] using tree_ind'; intros R p Hw; [constructor|].
  rewrite spec_node_dir. destruct (wf_children ign ch Hw) as [Hnd Hc]. set (R' := add_patterns R (dir_patterns p ign)).
  rewrite Forall_forall in IH.
  assert (Hsc : forall nt, In nt ch -> NoDup (spec_child R' p nt)).
  { intros [n c] Hin. unfold spec_child. cbn [fst snd]. destruct (is_ignore _); [constructor|]. constructor.
    - intros Hx. destruct (spec_node_below _ _ _ _ Hx) as (n' & r' & E).
      apply (f_equal (@length name)) in E. rewrite !app_length in E. cbn in E. lia.
    - apply (IH (n, c) Hin). apply (Hc n c Hin). }
  clear IH Hc Hw. induction ch as [|[n c] r IHr]; [constructor|]. cbn [flat_map].
  cbn [map fst] in Hnd. inversion Hnd as [|? ? Hn Hr]. subst. apply nodup_app.
  - apply Hsc. left. reflexivity.
  - apply IHr; [exact Hr|]. intros nt Hin. apply Hsc. right. exact Hin.
  - intros x Hx Hx'. destruct (spec_child_below _ _ _ _ Hx) as (r1 & E1). cbn [fst] in E1.
    apply in_flat_map in Hx' as ([m c'] & Hm & Hx'). destruct (spec_child_below _ _ _ _ Hx') as (r2 & E2). cbn [fst] in E2.
    rewrite E1 in E2. apply app_inv_head in E2. injection E2 as -> _.
    apply Hn. apply in_map_iff. exists (m, c'). split; [reflexivity|exact Hm].
Qed.

Lemma spec_walk_nodup : NoDup (spec_walk gm fixed_P17 fixed_P35 fixed_P37 globals ign0 ch0).
Proof. apply spec_node_nodup. exact Hwf. Qed.

(* ---- the theorem about walk_parallel ----------------------------------------------------------------- *)
Lemma par_walk_deterministic_lemma n sched : (1 <= n)%nat ->
  let c := par_walk gm fixed_P17 fixed_P35 fixed_P37 n globals ign0 ch0 sched in
  final c = true ->
  Permutation (c_out c) (spec_walk gm fixed_P17 fixed_P35 fixed_P37 globals ign0 ch0) /\ NoDup (c_out c).
Proof.
  intros Hn c Hf. destruct (par_init_inv n Hn) as [HI0 Hp0].
  destruct (par_run_inv sched _ HI0) as [HI Hp]. fold (par_walk gm fixed_P17 fixed_P35 fixed_P37 n globals ign0 ch0 sched) in HI, Hp. fold c in HI, Hp.
  assert (Hperm : Permutation (c_out c) (spec_walk gm fixed_P17 fixed_P35 fixed_P37 globals ign0 ch0)).
  { apply (Permutation_count_occ path_eq_dec). intros x. fold (cnt (c_out c) x). rewrite <- (final_phi c HI Hf x), Hp, Hp0. reflexivity. }
  split; [exact Hperm|]. eapply Permutation_NoDup; [apply Permutation_sym; exact Hperm|apply spec_walk_nodup].
Qed.

(* ---- walk_serial --------------------------------------------------------------------------------------- *)
Definition dcount (d : ditem) : nat := let '(p, ign, ch) := d in dir_count (Dir ign ch).
Definition dsum (l : list ditem) : nat := list_sum (map dcount l).

Lemma list_sum_cons a l : list_sum (a :: l) = (a + list_sum l)%nat.
Proof. reflexivity. Qed.
Lemma list_sum_nil : list_sum [] = O.
Proof. reflexivity. Qed.

Lemma dir_count_dir ign ch : dir_count (Dir ign ch) = S (list_sum (map (fun nt => dir_count (snd nt)) ch)).
Proof.
  cbn [dir_count]. f_equal. induction ch as [|[n c] r IH]; [reflexivity|]. cbn [map snd]; rewrite ?list_sum_cons, ?list_sum_nil. rewrite IH. reflexivity.
Qed.

Lemma dsum_app l1 l2 : dsum (l1 ++ l2) = (dsum l1 + dsum l2)%nat.
Proof. unfold dsum. rewrite map_app, list_sum_app. reflexivity. Qed.

Lemma dsum_rev l : dsum (rev l) = dsum l.
Proof.
  induction l as [|a l IH]; [reflexivity|]. cbn [rev]. rewrite dsum_app, IH. unfold dsum. cbn [map]; rewrite ?list_sum_cons, ?list_sum_nil. lia.
Qed.

Lemma cnt_flat_map_rev {A} (f : A -> list path) l x : cnt (flat_map f (rev l)) x = cnt (flat_map f l) x.
Proof.
  induction l as [|a l IH]; [reflexivity|]. cbn [rev]. rewrite cnt_flat_map_app, IH, (cnt_flat_map_cons f a l). cbn [flat_map]. rewrite app_nil_r. lia.
Qed.

Lemma scan_dsum R p : forall l, (dsum (snd (scan gm fixed_P17 fixed_P35 fixed_P37 R p l)) <= list_sum (map (fun nt => dir_count (snd nt)) l))%nat.
Proof.
  induction l as [|[n t] r IH]; [cbn; lia|]. cbn [scan]. destruct (scan gm fixed_P17 fixed_P35 fixed_P37 R p r) as [o k]. cbn [snd] in IH.
  cbn [map snd]; rewrite ?list_sum_cons, ?list_sum_nil. destruct (is_ignore _); cbn [snd]; [lia|].
  destruct t as [|i c]; [cbn [dir_count]; lia|]. unfold dsum in *. cbn [map dcount]; rewrite ?list_sum_cons, ?list_sum_nil. lia.
Qed.

Lemma serial_loop_spec : forall fuel s,
  (dsum (s_stack s) < fuel)%nat -> sourced (s_rules s) -> Forall (item_ok (s_rules s)) (s_stack s) ->
  exists out, serial_loop gm fixed_P17 fixed_P35 fixed_P37 fuel s = Some out /\
              forall x, cnt out x = (cnt (s_out s) x + cnt (flat_map contrib_item (s_stack s)) x)%nat.
Proof.
  induction fuel as [|f IH]; intros s Hf Hsrc Hok; [lia|]. cbn [serial_loop].
  destruct (s_stack s) as [|[[p ign] ch] rest] eqn:Es.
  - exists (s_out s). split; [reflexivity|]. intros x. cbn [flat_map]. rewrite cnt_nil. lia.
  - inversion Hok as [|? ? Hi Hrest]. subst. cbn [item_ok] in Hi. destruct Hi as [Hn Hs].
    set (R' := add_patterns (s_rules s) (dir_patterns p ign)).
    assert (Hsrc' : sourced R') by (apply (sourced_add _ p ign ch Hsrc Hn)).
    assert (Hch : Forall (child_ok R') (children_of p ch)).
    { apply (children_ok R' p ign ch Hn). apply sub_add_l; [eapply sub_trans; [exact Hs|apply sub_add]|apply loaded_add]. }
    assert (Hsc := scan_spec R' p ch Hch Hsrc'). assert (Hd := scan_dsum R' p ch).
    destruct (scan gm fixed_P17 fixed_P35 fixed_P37 R' p ch) as [o kept]. destruct Hsc as [Hc Hk]. cbn [snd] in Hd.
    destruct (IH {| s_stack := rev kept ++ rest; s_rules := R'; s_out := s_out s ++ o |}) as (out & Eo & Ho); cbn [s_stack s_rules s_out].
    + rewrite dsum_app, dsum_rev. unfold dsum in Hf. cbn [map dcount] in Hf; rewrite ?list_sum_cons, ?list_sum_nil in Hf. rewrite dir_count_dir in Hf. fold (dsum rest) in Hf. lia.
    + exact Hsrc'.
    + apply Forall_app. split; [apply Forall_rev; exact Hk|]. eapply Forall_impl; [|exact Hrest]. intros a. apply item_ok_mono. apply sub_add.
    + exists out. split; [exact Eo|]. intros x. rewrite (Ho x). cbn [s_out s_stack]. rewrite cnt_app, !cnt_flat_map_app, cnt_flat_map_rev, cnt_flat_map_cons.
      rewrite (contrib_item_children p ign ch x Hn). specialize (Hc x). lia.
Qed.

Lemma serial_eq_spec_lemma :
  exists out, serial_walk gm fixed_P17 fixed_P35 fixed_P37 (S (dir_count T0)) globals ign0 ch0 = Some out /\
              Permutation out (spec_walk gm fixed_P17 fixed_P35 fixed_P37 globals ign0 ch0) /\ NoDup out.
Proof.
  unfold serial_walk. fold G.
  destruct (serial_loop_spec (S (dir_count T0)) {| s_stack := [([], ign0, ch0)]; s_rules := G; s_out := [] |}) as (out & Eo & Ho); cbn [s_stack s_rules s_out].
  - unfold dsum. cbn [map dcount]; rewrite ?list_sum_cons, ?list_sum_nil. fold T0. lia.
  - exact sourced_G.
  - constructor; [|constructor]. split; [exact root_node|apply sub_refl].
  - exists out. split; [exact Eo|].
    assert (Hperm : Permutation out (spec_walk gm fixed_P17 fixed_P35 fixed_P37 globals ign0 ch0)).
    { apply (Permutation_count_occ path_eq_dec). intros x. fold (cnt out x). rewrite (Ho x). cbn [s_out s_stack]. rewrite cnt_flat_map_cons. cbn [flat_map]. rewrite !cnt_nil. unfold contrib_item, spec_walk, cnt. fold G. change (RB []) with G. lia. }
    split; [exact Hperm|]. eapply Permutation_NoDup; [apply Permutation_sym; exact Hperm|apply spec_walk_nodup].
Qed.

(* ---- an ignored directory hides everything beneath it ------------------------------------------------ *)
(* every reported path, and every directory on the way to it, was judged "not ignored" by the rules of its
   own ancestors *)
Lemma spec_node_sound : forall t R cur x, wf_tree t = true -> In x (spec_node gm fixed_P17 fixed_P35 fixed_P37 R cur t) ->
  forall p n r, x = cur ++ p ++ n :: r ->
  is_ignore (check' (rb R cur t (p ++ [n])) (cur ++ p ++ [n]) (kind_at t (p ++ [n]))) = false.
Proof.
  induction t as [|ign ch IH] using tree_ind'; intros R cur x Hw Hin p n r Ex; [contradiction|].
  rewrite spec_node_dir in Hin. apply in_flat_map in Hin as ([n0 c] & Hc & Hx).
  destruct (spec_child_below _ _ _ _ Hx) as (rest & E0). cbn [fst] in E0.
  destruct (wf_children ign ch Hw) as [Hnd Hcw]. destruct (Hcw n0 c Hc) as [_ Hwc].
  unfold spec_child in Hx. cbn [fst snd] in Hx. destruct (is_ignore (check' _ (cur ++ [n0]) _)) eqn:Ei; [contradiction|].
  rewrite Ex in E0. apply app_inv_head in E0.
  destruct p as [|m p2].
  - cbn [app] in E0. injection E0 as -> _. cbn [app rb]. unfold kind_at. cbn [node_at]. rewrite (find_child_In ch n0 c Hnd Hc). exact Ei.
  - cbn [app] in E0. injection E0 as -> E0. cbn [app rb]. unfold kind_at. cbn [node_at]. rewrite (find_child_In ch n0 c Hnd Hc). fold (kind_at c (p2 ++ [n])).
    destruct Hx as [Hx|Hx].
    + exfalso. rewrite Ex in Hx. apply app_inv_head in Hx. cbn [app] in Hx. injection Hx as Hx. destruct p2; discriminate.
    + rewrite Forall_forall in IH. specialize (IH (n0, c) Hc _ _ _ Hwc Hx p2 n r).
      rewrite <- !app_assoc in IH. cbn [app] in IH. apply IH. exact Ex.
Qed.

Lemma ignored_dir_hides_subtree_lemma x p n r :
  In x (spec_walk gm fixed_P17 fixed_P35 fixed_P37 globals ign0 ch0) -> x = p ++ n :: r ->
  is_ignore (check' (RB (p ++ [n])) (p ++ [n]) (kind_at T0 (p ++ [n]))) = false.
Proof.
  intros Hin E. apply (spec_node_sound T0 G [] x Hwf Hin p n r). exact E.
Qed.

(* ---- .xvc and .git ---------------------------------------------------------------------------------------- *)
Section Special.
Variable special : name -> bool.
(* the global rules hold, for every special name, a global ignore pattern that matches every path ending
   in that name *)
Hypothesis Hspecial : forall p n, special n = true ->
  exists pat, In pat (r_ign G) /\ p_src pat = SGlobal /\ gm (p_glob pat) (render (p ++ [n])) = true.

Definition is_white (v : verdict) : bool := match v with Whitelist => true | _ => false end.

(* Known class: some directory that the reference walk visits has an entry with a special name that a
   whitelist ('!') line re-includes *)
Fixpoint wl_special (R : rules) (p : path) (t : tree) {struct t} : bool :=
  match t with
  | File => false
  | Dir ign ch =>
    let R' := add_patterns R (dir_patterns p ign) in
    (fix go (l : list (name * tree)) : bool :=
       match l with
       | [] => false
       | (n, c) :: r =>
         (special n && is_white (check' R' (p ++ [n]) (is_dir c)))
         || (if is_ignore (check' R' (p ++ [n]) (is_dir c)) then false else wl_special R' (p ++ [n]) c)
         || go r
       end) ch
  end.

Definition wl_child (R' : rules) (p : path) (nt : name * tree) : bool :=
  (special (fst nt) && is_white (check' R' (p ++ [fst nt]) (is_dir (snd nt))))
  || (if is_ignore (check' R' (p ++ [fst nt]) (is_dir (snd nt))) then false else wl_special R' (p ++ [fst nt]) (snd nt)).

Lemma wl_special_dir R p ign ch :
  wl_special R p (Dir ign ch) = existsb (wl_child (add_patterns R (dir_patterns p ign)) p) ch.
Proof.
  cbn [wl_special]. induction ch as [|[n c] r IH]; [reflexivity|]. cbn [existsb]. rewrite <- IH. reflexivity.
Qed.

Lemma special_not_nomatch R p n d : sub G R -> special n = true ->
  is_ignore (check' R (p ++ [n]) d) = false -> is_white (check' R (p ++ [n]) d) = true.
Proof.
  intros Hs Hsp. destruct (Hspecial p n Hsp) as (pat & Hin & Hsrc & Hgm).
  unfold check, check_strd. destruct (fixed_P35 && global_hit_d gm fixed_P37 R (render (p ++ [n])) d); [cbn; discriminate|].
  destruct (existsb _ (r_white R)); [reflexivity|].
  assert (He : existsb (hits (render (p ++ [n])) d) (r_ign R) = true).
  { apply existsb_exists. exists pat. split; [apply (proj1 Hs); exact Hin|].
    unfold pat_hits_d, glob_hit, applies. rewrite Hsrc, Hgm, if_true_same. reflexivity. }
  rewrite He. cbn. discriminate.
Qed.

Lemma spec_node_special : forall t R cur x, sub G R -> wl_special R cur t = false ->
  In x (spec_node gm fixed_P17 fixed_P35 fixed_P37 R cur t) -> forall p n r, x = cur ++ p ++ n :: r -> special n = false.
Proof.
  induction t as [|ign ch IH] using tree_ind'; intros R cur x Hs Hwl Hin p n r Ex; [contradiction|].
  rewrite spec_node_dir in Hin. apply in_flat_map in Hin as ([n0 c] & Hc & Hx).
  destruct (spec_child_below _ _ _ _ Hx) as (rest & E0). cbn [fst] in E0.
  rewrite wl_special_dir in Hwl. set (R' := add_patterns R (dir_patterns cur ign)) in *.
  assert (Hs' : sub G R') by (eapply sub_trans; [exact Hs|apply sub_add]).
  assert (Hw0 : wl_child R' cur (n0, c) = false).
  { destruct (wl_child R' cur (n0, c)) eqn:E; [|reflexivity]. rewrite <- Hwl. symmetry. apply existsb_exists. exists (n0, c). split; assumption. }
  unfold wl_child in Hw0. cbn [fst snd] in Hw0. apply orb_false_iff in Hw0 as [Hw1 Hw2].
  unfold spec_child in Hx. cbn [fst snd] in Hx. destruct (is_ignore (check' R' (cur ++ [n0]) (is_dir c))) eqn:Ei; [contradiction|].
  assert (Hn0 : special n0 = false).
  { destruct (special n0) eqn:Esp; [|reflexivity]. rewrite (special_not_nomatch R' cur n0 (is_dir c) Hs' Esp Ei) in Hw1. discriminate. }
  rewrite Ex in E0. apply app_inv_head in E0.
  destruct p as [|m p2].
  - cbn [app] in E0. injection E0 as -> _. exact Hn0.
  - cbn [app] in E0. injection E0 as -> E0.
    destruct Hx as [Hx|Hx].
    + exfalso. rewrite Ex in Hx. apply app_inv_head in Hx. cbn [app] in Hx. injection Hx as Hx. destruct p2; discriminate.
    + rewrite Forall_forall in IH. apply (IH (n0, c) Hc R' (cur ++ [n0]) x Hs' Hw2 Hx p2 n r).
      rewrite <- !app_assoc. cbn [app]. exact Ex.
Qed.

(* with the repair of P35 a special name is Ignore under every rule set that contains the global rules,
   whatever the whitelist patterns say: the known class is empty *)
Lemma special_ignored_when_fixed R p n d : fixed_P35 = true -> sub G R -> special n = true ->
  check' R (p ++ [n]) d = Ignore.
Proof.
  intros Hf Hs Hsp. destruct (Hspecial p n Hsp) as (pat & Hin & Hsrc & Hgm).
  unfold check, check_strd. rewrite Hf. cbn [andb].
  assert (He : global_hit_d gm fixed_P37 R (render (p ++ [n])) d = true).
  { unfold global_hit_d. apply existsb_exists. exists pat. split; [apply (proj1 Hs); exact Hin|].
    unfold is_global, glob_hit. rewrite Hsrc, Hgm. reflexivity. }
  rewrite He. reflexivity.
Qed.

Lemma wl_special_false_when_fixed : fixed_P35 = true ->
  forall t R cur, sub G R -> wl_special R cur t = false.
Proof.
  intros Hf. induction t as [|ign ch IH] using tree_ind'; intros R cur Hs; [reflexivity|].
  rewrite wl_special_dir. set (R' := add_patterns R (dir_patterns cur ign)).
  assert (Hs' : sub G R') by (eapply sub_trans; [exact Hs|apply sub_add]).
  destruct (existsb (wl_child R' cur) ch) eqn:E; [|reflexivity]. exfalso.
  apply existsb_exists in E as ([n0 c] & Hc & Hw). unfold wl_child in Hw. cbn [fst snd] in Hw.
  apply orb_true_iff in Hw as [Hw|Hw].
  - apply andb_true_iff in Hw as [Hsp Hw]. rewrite (special_ignored_when_fixed R' cur n0 (is_dir c) Hf Hs' Hsp) in Hw. discriminate.
  - destruct (is_ignore (check' R' (cur ++ [n0]) (is_dir c))); [discriminate|].
    rewrite Forall_forall in IH. assert (E := IH (n0, c) Hc R' (cur ++ [n0]) Hs'). cbn [snd] in E. rewrite E in Hw. discriminate.
Qed.

Lemma never_enters_special_lemma x p n r :
  wl_special G [] T0 = false -> In x (spec_walk gm fixed_P17 fixed_P35 fixed_P37 globals ign0 ch0) -> x = p ++ n :: r -> special n = false.
Proof.
  intros Hwl Hin E. apply (spec_node_special T0 G [] x (sub_refl G) Hwl Hin p n r). exact E.
Qed.
End Special.
End Walk.

(* ---- the queue discipline terminates --------------------------------------------------------------------- *)
Section Termination.
Variable gm : bytes -> bytes -> bool.
Variable fixed_P17 : bool.
Variable fixed_P35 : bool.
Variable fixed_P37 : bool.

Fixpoint tsize (t : tree) : nat :=
  match t with
  | File => 1
  | Dir _ ch => 6 + (fix go (l : list (name * tree)) : nat :=
                       match l with [] => O | (_, c) :: r => (tsize c + go r)%nat end) ch
  end.

Definition csum (ch : list (name * tree)) : nat := list_sum (map (fun nt => tsize (snd nt)) ch).

Lemma tsize_dir i ch : tsize (Dir i ch) = (6 + csum ch)%nat.
Proof.
  cbn [tsize]. f_equal. unfold csum. induction ch as [|[n c] r IH]; [reflexivity|]. cbn [map snd]. rewrite list_sum_cons, IH. reflexivity.
Qed.

Lemma tsize_pos t : (1 <= tsize t)%nat.
Proof. destruct t; [cbn; lia|rewrite tsize_dir; lia]. Qed.

Definition witem (d : ditem) : nat := let '(_, _, ch) := d in (4 + csum ch)%nat.
Definition wrest (l : list (path * tree)) : nat := list_sum (map (fun qt => tsize (snd qt)) l).
Definition wkept (l : list ditem) : nat := list_sum (map (fun d => S (witem d)) l).
Definition wthread (ts : tstate) : nat :=
  match ts with
  | Idle => 1
  | Done => 0
  | M1 d => witem d
  | M2 d => witem d - 1
  | Work rest kept => 2 + wrest rest + wkept kept
  end.
Definition wqueue (q : list ditem) : nat := list_sum (map witem q).
(* an upper bound on the number of steps that can still be taken *)
Definition mu (c : config) : nat := (wqueue (c_queue c) + list_sum (map wthread (c_threads c)))%nat.

Lemma wrest_children p ch : wrest (children_of p ch) = csum ch.
Proof. unfold wrest, csum, children_of. rewrite map_map. reflexivity. Qed.

Lemma wkept_app l1 l2 : wkept (l1 ++ l2) = (wkept l1 + wkept l2)%nat.
Proof. unfold wkept. rewrite map_app, list_sum_app. reflexivity. Qed.
Lemma wqueue_app l1 l2 : wqueue (l1 ++ l2) = (wqueue l1 + wqueue l2)%nat.
Proof. unfold wqueue. rewrite map_app, list_sum_app. reflexivity. Qed.

Lemma par_step_decreases c i k c' : par_step gm fixed_P17 fixed_P35 fixed_P37 c i k = Some c' -> (mu c' < mu c)%nat.
Proof.
  intros H. unfold par_step in H. destruct (nth_error (c_threads c) i) as [ts|] eqn:En; [|discriminate].
  destruct (nth_split _ _ _ En) as (l1 & l2 & Et & Hset).
  assert (Hm : forall ts' q', (wqueue q' + wthread ts' < wqueue (c_queue c) + wthread ts)%nat ->
               (mu {| c_queue := q'; c_threads := set_nth (c_threads c) i ts'; c_rules := c_rules c'; c_out := c_out c' |} < mu c)%nat).
  { intros ts' q' Hlt. unfold mu. cbn [c_queue c_threads]. rewrite Hset, Et. rewrite !map_app, !list_sum_app. cbn [map]. rewrite !list_sum_cons. lia. }
  assert (Hmu : forall q' ts' R' o', mu {| c_queue := q'; c_threads := set_nth (c_threads c) i ts'; c_rules := R'; c_out := o' |}
                                   = mu {| c_queue := q'; c_threads := set_nth (c_threads c) i ts'; c_rules := c_rules c'; c_out := c_out c' |}) by reflexivity.
  destruct ts as [|[[p ign] ch]|[[p ign] ch]|rest kept|].
  - destruct (c_queue c) as [|d0 q0] eqn:Eq.
    + injection H as <-. rewrite Hmu. apply Hm. cbn. lia.
    + destruct (take_nth (d0 :: q0) k) as [[d q']|] eqn:Etk; [|discriminate]. injection H as <-. rewrite Hmu. apply Hm.
      destruct (take_nth_split _ _ _ _ Etk) as (q1 & q2 & -> & ->). rewrite !wqueue_app. unfold wqueue at 4. cbn [map wthread]. rewrite list_sum_cons.
      fold (wqueue q2). lia.
  - injection H as <-. rewrite Hmu. apply Hm. cbn [wthread witem]. lia.
  - injection H as <-. rewrite Hmu. apply Hm. cbn [wthread witem]. rewrite wrest_children. unfold wkept. cbn [map]. rewrite list_sum_nil. lia.
  - destruct rest as [|[q t] rest].
    + destruct kept as [|d kept].
      * injection H as <-. rewrite Hmu. apply Hm. cbn. lia.
      * injection H as <-. rewrite Hmu. apply Hm. rewrite wqueue_app. unfold wqueue at 2. cbn [map wthread]. unfold wkept. cbn [map]. rewrite !list_sum_cons, list_sum_nil. lia.
    + destruct (is_ignore _).
      * injection H as <-. rewrite Hmu. apply Hm. cbn [wthread]. unfold wrest. cbn [map snd]. rewrite list_sum_cons. assert (Hp := tsize_pos t). lia.
      * injection H as <-. rewrite Hmu. apply Hm. cbn [wthread]. unfold wrest. cbn [map snd]. rewrite list_sum_cons. rewrite wkept_app.
        destruct t as [|ti tch].
        -- unfold wkept at 2. cbn [map]. rewrite list_sum_nil. cbn [tsize]. lia.
        -- unfold wkept at 2. cbn [map witem]. rewrite list_sum_cons, list_sum_nil, tsize_dir. lia.
  - discriminate.
Qed.

(* number of schedule entries that were steps *)
Fixpoint steps (c : config) (sched : list (nat * nat)) : nat :=
  match sched with
  | [] => O
  | (i, k) :: r => match par_step gm fixed_P17 fixed_P35 fixed_P37 c i k with Some c' => S (steps c' r) | None => steps c r end
  end.

Lemma steps_bounded sched : forall c, (steps c sched <= mu c)%nat.
Proof.
  induction sched as [|[i k] r IH]; intros c; cbn [steps]; [lia|].
  destruct (par_step gm fixed_P17 fixed_P35 fixed_P37 c i k) as [c'|] eqn:E; [|apply IH].
  assert (H := par_step_decreases c i k c' E). specialize (IH c'). lia.
Qed.

Lemma progress c : final c = false -> exists i, par_step gm fixed_P17 fixed_P35 fixed_P37 c i O <> None.
Proof.
  intros Hf. unfold final in Hf.
  assert (Hex : exists ts, In ts (c_threads c) /\ is_done ts = false).
  { induction (c_threads c) as [|ts l IH]; [discriminate|]. cbn [forallb] in Hf. destruct (is_done ts) eqn:E.
    - destruct (IH Hf) as (t & Hin & Hd). exists t. split; [right; exact Hin|exact Hd].
    - exists ts. split; [left; reflexivity|exact E]. }
  destruct Hex as (ts & Hin & Hd). apply In_nth_error in Hin as (i & Hi). exists i. unfold par_step. rewrite Hi.
  destruct ts as [|[[p ign] ch]|[[p ign] ch]|rest kept|]; try discriminate.
  - destruct (c_queue c); cbn; discriminate.
  - destruct rest as [|[q t] rest]; [destruct kept; discriminate|]. destruct (is_ignore _); discriminate.
Qed.

(* every configuration can be driven to a final one, in at most [mu] steps *)
Lemma terminates_lemma : forall n c, (mu c <= n)%nat ->
  exists sched, final (par_run gm fixed_P17 fixed_P35 fixed_P37 c sched) = true /\ (length sched <= mu c)%nat.
Proof.
  induction n as [|n IH]; intros c Hn.
  - destruct (final c) eqn:Ef; [exists []; split; [exact Ef|cbn; lia]|].
    destruct (progress c Ef) as (i & Hi). destruct (par_step gm fixed_P17 fixed_P35 fixed_P37 c i O) as [c'|] eqn:E; [|contradiction].
    assert (H := par_step_decreases c i O c' E). lia.
  - destruct (final c) eqn:Ef; [exists []; split; [exact Ef|cbn; lia]|].
    destruct (progress c Ef) as (i & Hi). destruct (par_step gm fixed_P17 fixed_P35 fixed_P37 c i O) as [c'|] eqn:E; [|contradiction].
    assert (H := par_step_decreases c i O c' E).
    destruct (IH c') as (sched & Hfin & Hlen); [lia|].
    exists ((i, O) :: sched). cbn [par_run length]. rewrite E. split; [exact Hfin|lia].
Qed.

(* a run that cannot be continued is final *)
Lemma stuck_final c : (forall i k, par_step gm fixed_P17 fixed_P35 fixed_P37 c i k = None) -> final c = true.
Proof.
  intros Hs. destruct (final c) eqn:Ef; [reflexivity|]. destruct (progress c Ef) as (i & Hi). rewrite Hs in Hi. contradiction.
Qed.
End Termination.

(* ---- statements in the form Props/C09.v uses ------------------------------------------------------------ *)
Lemma forallb_good p : forallb good_name p = true -> Forall good p.
Proof.
  intros H. apply Forall_forall. intros n Hn. apply good_name_good. rewrite forallb_forall in H. apply H. exact Hn.
Qed.

(* with the locality test, a pattern of D/.xvcignore that hits the rendering of q sits properly above q *)
Lemma pattern_local_lemma gm pat D ign q :
  In pat (dir_patterns D ign) -> D <> [] -> forallb good_name D = true -> q <> [] -> forallb good_name q = true ->
  pat_hits gm true (render q) pat = true -> exists r, q = D ++ r /\ r <> [].
Proof.
  intros Hin HD HgD Hq Hgq Hh. unfold pat_hits in Hh. apply andb_true_iff in Hh as [Ha _].
  apply (applies_below pat D q (dir_patterns_src _ _ _ Hin) HD (forallb_good _ HgD) Hq (forallb_good _ Hgq) Ha).
Qed.

Definition walk_deterministic gm (fixed f35 f37 : bool) globals ign ch : Prop :=
  forall n sched, (1 <= n)%nat ->
    let c := par_walk gm fixed f35 f37 n globals ign ch sched in
    final c = true ->
    Permutation (c_out c) (spec_walk gm fixed f35 f37 globals ign ch) /\ NoDup (c_out c).

Lemma par_ignored_dir_hides_subtree_lemma gm fixed f35 f37 globals ign ch n sched x p m r :
  wf_tree (Dir ign ch) = true -> local_rules gm fixed f37 ign ch -> (1 <= n)%nat ->
  let c := par_walk gm fixed f35 f37 n globals ign ch sched in
  final c = true -> In x (c_out c) -> x = p ++ m :: r ->
  is_ignore (check gm fixed f35 f37 (RB globals ign ch (p ++ [m])) (p ++ [m]) (kind_at (Dir ign ch) (p ++ [m]))) = false.
Proof.
  intros Hwf Hl Hn c Hf Hin E.
  destruct (par_walk_deterministic_lemma gm fixed f35 f37 globals ign ch Hwf Hl n sched Hn Hf) as [Hp _].
  apply (ignored_dir_hides_subtree_lemma gm fixed f35 f37 globals ign ch Hwf x p m r); [|exact E].
  eapply Permutation_in; eassumption.
Qed.

(* ---- panics (finding P36) ----------------------------------------------------------------------------------- *)
Lemma pattern_new_panics_fixed l : pattern_new_panics true l = false.
Proof. reflexivity. Qed.

Lemma content_panics_fixed content : content_panics true content = false.
Proof.
  unfold content_panics. induction (filter is_rule_line (lines content)) as [|l r IH]; [reflexivity|].
  cbn [existsb]. rewrite IH. reflexivity.
Qed.

Lemma ign_panics_fixed ign : ign_panics true ign = false.
Proof. destruct ign; [apply content_panics_fixed|reflexivity]. Qed.

Lemma panics_node_fixed gm fixed f35 f37 : forall t R p, panics_node gm fixed f35 f37 true R p t = false.
Proof.
  induction t as [|ign ch IH] using tree_ind'; intros R p; [reflexivity|].
  cbn [panics_node]. rewrite ign_panics_fixed. cbn [orb].
  generalize (add_patterns R (dir_patterns p ign)). intros R'.
  induction ch as [|[n c] r IHr]; [reflexivity|].
  inversion IH as [|? ? Hc Hr]. subst. cbn [snd] in Hc.
  destruct (is_ignore (check gm fixed f35 f37 R' (p ++ [n]) (is_dir c))); cbn [orb]; [|rewrite Hc; cbn [orb]]; apply IHr; exact Hr.
Qed.

Lemma globals_panic_fixed globals : existsb (pattern_new_panics true) (lines globals) = false.
Proof. induction (lines globals) as [|l r IH]; [reflexivity|]. cbn [existsb]. rewrite IH. reflexivity. Qed.

Lemma walk_panics_fixed gm fixed f35 f37 globals ign ch : walk_panics gm fixed f35 f37 true globals ign ch = false.
Proof. unfold walk_panics. rewrite globals_panic_fixed, panics_node_fixed. reflexivity. Qed.

Lemma tree_mb_line_fixed : forall t, tree_mb_line true t = false.
Proof.
  induction t as [|ign ch IH] using tree_ind'; [reflexivity|].
  cbn [tree_mb_line]. rewrite ign_panics_fixed. cbn [orb].
  induction ch as [|[n c] r IHr]; [reflexivity|].
  inversion IH as [|? ? Hc Hr]. subst. cbn [snd] in Hc. rewrite Hc. cbn [orb]. apply IHr. exact Hr.
Qed.

Lemma known_P36_fixed globals t : known_P36 true globals t = false.
Proof. unfold known_P36. rewrite globals_panic_fixed, tree_mb_line_fixed. reflexivity. Qed.

(* outside the class nothing panics, whatever the switch: the files the walk reads are files of the tree *)
Lemma panics_node_outside gm fixed f35 f37 f36 : forall t R p, tree_mb_line f36 t = false -> panics_node gm fixed f35 f37 f36 R p t = false.
Proof.
  induction t as [|ign ch IH] using tree_ind'; intros R p Hk; [reflexivity|].
  cbn [panics_node tree_mb_line] in *. apply orb_false_iff in Hk as [Hi Hk]. rewrite Hi. cbn [orb].
  generalize (add_patterns R (dir_patterns p ign)). intros R'.
  induction ch as [|[n c] r IHr]; [reflexivity|].
  inversion IH as [|? ? Hc Hr]. subst. cbn [snd] in Hc. apply orb_false_iff in Hk as [Hk1 Hk2].
  destruct (is_ignore (check gm fixed f35 f37 R' (p ++ [n]) (is_dir c))); cbn [orb]; [|rewrite (Hc R' (p ++ [n]) Hk1); cbn [orb]]; apply IHr; assumption.
Qed.

Lemma walk_panics_outside gm fixed f35 f37 f36 globals ign ch :
  known_P36 f36 globals (Dir ign ch) = false -> walk_panics gm fixed f35 f37 f36 globals ign ch = false.
Proof.
  unfold known_P36, walk_panics. intros H. apply orb_false_iff in H as [Hg Ht]. rewrite Hg. cbn [orb].
  apply panics_node_outside. exact Ht.
Qed.
