(* M-WALK and the regenerated table Gen/CommonIgnore.v: .xvc and .git are never entered.
   The global ignore text is COMMON_IGNORE_PATTERNS as the translator read it from
   core/src/util/xvcignore.rs; the special names are XVC_DIR and ".git". *)
From Coq Require Import List NArith Bool Lia Permutation.
From XV Require Import Glob.Match Glob.Pattern Glob.Proofs Glob.LastComponent Walker.Model Walker.Proofs Gen.CommonIgnore.
Import ListNotations.
Open Scope N_scope.

Definition is_special (n : name) : bool := bytes_eqb n xvc_dir_name || bytes_eqb n git_dir_name.

(* What the walker needs from the matcher: the glob "**/<name>" matches every path whose last component
   is <name>.  The transliterated fast-glob matcher has this property ([glob_matches_finds_last_component],
   from Glob/LastComponent.v). *)
Definition matcher_finds_last_component (gm : bytes -> bytes -> bool) : Prop :=
  forall p n, is_special n = true -> gm (c_star :: c_star :: c_slash :: n) (render (p ++ [n])) = true.

(* the global rules built from the regenerated text: exactly the two name-only ignore patterns *)
Lemma common_rules_shape :
  map (fun pat => (p_glob pat, p_src pat, p_white pat)) (r_ign (global_rules common_ignore_patterns))
  = [(c_star :: c_star :: c_slash :: xvc_dir_name, SGlobal, false); (c_star :: c_star :: c_slash :: git_dir_name, SGlobal, false)]
  /\ r_white (global_rules common_ignore_patterns) = [].
Proof. split; vm_compute; reflexivity. Qed.

Lemma common_special gm : matcher_finds_last_component gm ->
  forall p n, is_special n = true ->
  exists pat, In pat (r_ign (global_rules common_ignore_patterns)) /\ p_src pat = SGlobal /\
              gm (p_glob pat) (render (p ++ [n])) = true.
Proof.
  intros Hm p n Hs. assert (Hg := Hm p n Hs). destruct common_rules_shape as [Hshape _].
  destruct (r_ign (global_rules common_ignore_patterns)) as [|p1 [|p2 [|p3 l]]]; try discriminate.
  cbn [map] in Hshape. injection Hshape as G1 S1 _ G2 S2 _.
  unfold is_special in Hs. apply orb_true_iff in Hs as [Hs|Hs]; apply bytes_eqb_spec in Hs; subst n.
  - exists p1. split; [left; reflexivity|]. split; [exact S1|]. rewrite G1. exact Hg.
  - exists p2. split; [right; left; reflexivity|]. split; [exact S2|]. rewrite G2. exact Hg.
Qed.

(* Known class of the second finding: a whitelist line re-includes a directory named .xvc / .git that
   the reference walk reaches *)
Definition whitelists_special gm fixed f35 f37 (ign : option bytes) (ch : list (name * tree)) : bool :=
  wl_special gm fixed f35 f37 is_special (global_rules common_ignore_patterns) [] (Dir ign ch).

Lemma never_enters_xvc_git_lemma gm fixed f35 f37 ign ch x p n r :
  matcher_finds_last_component gm -> whitelists_special gm fixed f35 f37 ign ch = false ->
  In x (spec_walk gm fixed f35 f37 common_ignore_patterns ign ch) -> x = p ++ n :: r -> is_special n = false.
Proof.
  intros Hm Hw Hin E.
  apply (never_enters_special_lemma gm fixed f35 f37 common_ignore_patterns ign ch is_special (common_special gm Hm) x p n r Hw Hin E).
Qed.

(* ... and so for every run of walk_parallel (any schedule, any thread count) and for walk_serial *)
Lemma par_never_enters_xvc_git_lemma gm fixed f35 f37 ign ch nth sched x p n r :
  wf_tree (Dir ign ch) = true -> local_rules gm fixed f37 ign ch -> (1 <= nth)%nat ->
  matcher_finds_last_component gm -> whitelists_special gm fixed f35 f37 ign ch = false ->
  let c := par_walk gm fixed f35 f37 nth common_ignore_patterns ign ch sched in
  final c = true -> In x (c_out c) -> x = p ++ n :: r -> is_special n = false.
Proof.
  intros Hwf Hl Hn Hm Hw c Hf Hin E.
  destruct (par_walk_deterministic_lemma gm fixed f35 f37 common_ignore_patterns ign ch Hwf Hl nth sched Hn Hf) as [Hp _].
  apply (never_enters_xvc_git_lemma gm fixed f35 f37 ign ch x p n r Hm Hw); [|exact E].
  eapply Permutation_in; eassumption.
Qed.

(* ---- the transliterated matcher satisfies the hypothesis ------------------------------------------------- *)
Lemma special_plain n : is_special n = true -> exists n0 n', n = n0 :: n' /\ Forall LastComponent.plain (n0 :: n').
Proof.
  unfold is_special. intros H. apply orb_true_iff in H as [H|H]; apply bytes_eqb_spec in H; subst n.
  - eexists _, _. split; [reflexivity|]. repeat constructor.
  - eexists _, _. split; [reflexivity|]. repeat constructor.
Qed.

Lemma glob_matches_finds_last_component : matcher_finds_last_component glob_matches.
Proof.
  intros p n Hs. destruct (special_plain n Hs) as (n0 & n' & -> & Hp).
  rewrite render_app. cbn [render flat_map]. rewrite app_nil_r.
  apply (glob_matches_last_component n0 n' Hp (render p)).
Qed.

Lemma never_enters_xvc_git_glob_lemma fixed f35 f37 ign ch x p n r :
  whitelists_special glob_matches fixed f35 f37 ign ch = false ->
  In x (spec_walk glob_matches fixed f35 f37 common_ignore_patterns ign ch) -> x = p ++ n :: r -> is_special n = false.
Proof. exact (never_enters_xvc_git_lemma glob_matches fixed f35 f37 ign ch x p n r glob_matches_finds_last_component). Qed.

Lemma par_never_enters_xvc_git_glob_lemma fixed f35 f37 ign ch nth sched x p n r :
  wf_tree (Dir ign ch) = true -> local_rules glob_matches fixed f37 ign ch -> (1 <= nth)%nat ->
  whitelists_special glob_matches fixed f35 f37 ign ch = false ->
  let c := par_walk glob_matches fixed f35 f37 nth common_ignore_patterns ign ch sched in
  final c = true -> In x (c_out c) -> x = p ++ n :: r -> is_special n = false.
Proof.
  exact (fun Hwf Hl Hn => par_never_enters_xvc_git_lemma glob_matches fixed f35 f37 ign ch nth sched x p n r Hwf Hl Hn glob_matches_finds_last_component).
Qed.

(* ---- with the repair of P35 the class is empty and the statement holds for every tree -------------------------- *)
Lemma whitelist_class_empty_lemma gm fixed f37 ign ch :
  matcher_finds_last_component gm -> whitelists_special gm fixed true f37 ign ch = false.
Proof.
  intros Hm. unfold whitelists_special.
  apply (wl_special_false_when_fixed gm fixed true f37 common_ignore_patterns is_special (common_special gm Hm) eq_refl).
  apply sub_refl.
Qed.

Lemma never_enters_xvc_git_fixed_lemma fixed f37 ign ch x p n r :
  In x (spec_walk glob_matches fixed true f37 common_ignore_patterns ign ch) -> x = p ++ n :: r -> is_special n = false.
Proof.
  apply never_enters_xvc_git_glob_lemma. apply whitelist_class_empty_lemma. exact glob_matches_finds_last_component.
Qed.

Lemma par_never_enters_xvc_git_fixed_lemma fixed f37 ign ch nth sched x p n r :
  wf_tree (Dir ign ch) = true -> local_rules glob_matches fixed f37 ign ch -> (1 <= nth)%nat ->
  let c := par_walk glob_matches fixed true f37 nth common_ignore_patterns ign ch sched in
  final c = true -> In x (c_out c) -> x = p ++ n :: r -> is_special n = false.
Proof.
  intros Hwf Hl Hn. apply (par_never_enters_xvc_git_glob_lemma fixed true f37 ign ch nth sched x p n r Hwf Hl Hn).
  apply whitelist_class_empty_lemma. exact glob_matches_finds_last_component.
Qed.
