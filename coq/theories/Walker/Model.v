(* M-WALK: directory trees with per-directory ignore files, the shared rule set of xvc-walker,
   [IgnoreRules::check], the reference walk [spec_walk], [walk_serial] with its explicit stack and
   [walk_parallel] as an executable small-step machine driven by a schedule.
   Mirrors walker/src/{ignore_rules.rs, walk_serial.rs, walk_parallel.rs, lib.rs}.
   The glob matcher is a Section variable [gm] (instantiated with [Glob.Match.glob_matches] by the
   drivers and in the refutation witnesses): the walker theorems hold for every matcher.
   [fixed_P17 = true] models the locality test added to [IgnoreRules::check] by the P17 fix;
   [fixed_P17 = false] is the code before the fix.
   [fixed_P35 = true] models the repair of P35 in [IgnoreRules::check]: a path that matches a global
   ignore pattern (Source::Global, e.g. `.xvc` / `.git` of COMMON_IGNORE_PATTERNS) is Ignore before
   the whitelist patterns are consulted; [fixed_P35 = false] is the code without it (whitelist first).
   [walk_panics fixed_P36]: the walk reads an ignore file (or a global line) on which [Pattern::new]
   panics (finding P36, Glob/Pattern.v [pattern_new_panics]); never with [fixed_P36 = true].
   [fixed_P37 = true] models the repair of P37: the walkers ask about a directory with
   IgnoreRules::check_dir, for which a directory-only pattern (`build/`, glob `**/build/**`) also matches
   the path of the directory with a final slash; [fixed_P37 = false] is the code without it (every entry
   is asked about with IgnoreRules::check).
   [check_str] / [check_str35] keep their signatures (they are also used by Gitignore/Model.v: they are
   IgnoreRules::check on a string); the walkers use [check], which is [check_strd] on the rendered path
   and the kind of the entry.
   No proofs in this file. *)
From Coq Require Import List NArith Bool.
From XV Require Import Glob.Match Glob.Pattern.
Import ListNotations.
Open Scope N_scope.

Definition name := bytes.
Definition path := list name.          (* components below the walk root; [] is the root itself *)

(* a directory carries the content of its ignore file (if it has one) and its entries; the ignore
   file itself is an ordinary [File] entry among the children *)
Inductive tree := File | Dir (ign : option bytes) (ch : list (name * tree)).

(* IgnoreRules: two growing vectors, each behind its own lock *)
Record rules := { r_ign : list pattern; r_white : list pattern }.
Inductive verdict := NoMatch | Ignore | Whitelist.

(* "/" + path relative to the root, as [IgnoreRules::check] builds it for absolute paths *)
Definition render (p : path) : bytes := flat_map (fun n => c_slash :: n) p.
(* parent of "<p>/.xvcignore" relative to the root: "" at the root, "a/b" below *)
Definition dir_string (p : path) : bytes := match p with [] => [] | n :: r => n ++ render r end.

Definition is_ignore (v : verdict) : bool := match v with Ignore => true | _ => false end.

(* a directory waiting to be listed: path, ignore-file content, entries *)
Definition ditem := (path * option bytes * list (name * tree))%type.

Definition empty_rules : rules := {| r_ign := []; r_white := [] |}.

(* IgnoreRules::merge_with: the ignore vector, then the whitelist vector, each under its own lock.
   [add_patterns] = from_patterns (split by effect) + merge_with. *)
Definition merge_ign (R : rules) (ps : list pattern) : rules :=
  {| r_ign := r_ign R ++ filter (fun p => negb (p_white p)) ps; r_white := r_white R |}.
Definition merge_white (R : rules) (ps : list pattern) : rules :=
  {| r_ign := r_ign R; r_white := r_white R ++ filter p_white ps |}.
Definition add_patterns (R : rules) (ps : list pattern) : rules := merge_white (merge_ign R ps) ps.

(* IgnoreRules::from_global_patterns: every line of the given text, no comment/blank filtering *)
Definition global_rules (given : bytes) : rules :=
  add_patterns empty_rules (map (pattern_new SGlobal) (lines given)).

(* update_ignore_rules: the patterns of the ignore file of directory p (none if there is no file) *)
Definition dir_patterns (p : path) (ign : option bytes) : list pattern :=
  match ign with
  | None => []
  | Some content => content_to_patterns (SFile (dir_string p)) content
  end.

Definition is_dir (t : tree) : bool := match t with Dir _ _ => true | File => false end.

Definition is_global (pat : pattern) : bool := match p_src pat with SGlobal => true | SFile _ => false end.

Section Walk.
Variable gm : bytes -> bytes -> bool.
Variable fixed_P17 : bool.
Variable fixed_P35 : bool.

Definition pat_hits (s : bytes) (pat : pattern) : bool :=
  (if fixed_P17 then applies pat s else true) && gm (p_glob pat) s.

(* IgnoreRules::check: whitelist first, then ignore; each an any-match (par_iter().find_any) *)
Definition check_str (R : rules) (s : bytes) : verdict :=
  if existsb (pat_hits s) (r_white R) then Whitelist
  else if existsb (pat_hits s) (r_ign R) then Ignore
  else NoMatch.
(* the repair of P35: the global ignore patterns are consulted first and are final *)
Definition global_hit (R : rules) (s : bytes) : bool :=
  existsb (fun pat => is_global pat && gm (p_glob pat) s) (r_ign R).
Definition check_str35 (R : rules) (s : bytes) : verdict :=
  if fixed_P35 && global_hit R s then Ignore else check_str R s.

(* the repair of P37.  A directory-only line (`build/`) is compiled by Pattern::new to a glob for what is
   BELOW the directory (`**/build/**`), which does not match the path of the directory itself.
   [fixed_P37 = true]: the walkers ask about a directory with IgnoreRules::check_dir, which shows the path
   with a final slash to the directory-only patterns as well; [d] says that the path is a directory.
   [fixed_P37 = false] (or d = false) is IgnoreRules::check: [check_strd R s false = check_str35 R s].
   The locality test [applies] looks at the path without the slash in both. *)
Variable fixed_P37 : bool.
Definition glob_hit (s : bytes) (d : bool) (pat : pattern) : bool :=
  gm (p_glob pat) s || (fixed_P37 && d && p_dironly pat && gm (p_glob pat) (s ++ [c_slash])).
Definition pat_hits_d (s : bytes) (d : bool) (pat : pattern) : bool :=
  (if fixed_P17 then applies pat s else true) && glob_hit s d pat.
Definition global_hit_d (R : rules) (s : bytes) (d : bool) : bool :=
  existsb (fun pat => is_global pat && glob_hit s d pat) (r_ign R).
Definition check_strd (R : rules) (s : bytes) (d : bool) : verdict :=
  if fixed_P35 && global_hit_d R s d then Ignore
  else if existsb (pat_hits_d s d) (r_white R) then Whitelist
  else if existsb (pat_hits_d s d) (r_ign R) then Ignore
  else NoMatch.
(* what both walkers ask about the entry at path p; d: the entry is a directory *)
Definition check (R : rules) (p : path) (d : bool) : verdict := check_strd R (render p) d.

(* ---- the reference walk -------------------------------------------------------------------------
   A path's verdict uses exactly the patterns of the ignore files of its proper ancestors plus the
   global ones; an ignored directory is not entered. *)
Fixpoint spec_node (R : rules) (p : path) (t : tree) {struct t} : list path :=
  match t with
  | File => []
  | Dir ign ch =>
    let R' := add_patterns R (dir_patterns p ign) in
    (fix go (l : list (name * tree)) : list path :=
       match l with
       | [] => []
       | (n, c) :: r =>
         (if is_ignore (check R' (p ++ [n]) (is_dir c)) then [] else (p ++ [n]) :: spec_node R' (p ++ [n]) c) ++ go r
       end) ch
  end.

Definition spec_walk (globals : bytes) (ign : option bytes) (ch : list (name * tree)) : list path :=
  spec_node (global_rules globals) [] (Dir ign ch).

(* ---- panics (finding P36) ------------------------------------------------------------------------
   The walk panics when it reads an ignore file with a rule line on which Pattern::new panics: the
   files of the directories the reference walk enters, and the lines of the global text. *)
Definition ign_panics (fixed_P36 : bool) (ign : option bytes) : bool :=
  match ign with None => false | Some content => content_panics fixed_P36 content end.

Fixpoint panics_node (fixed_P36 : bool) (R : rules) (p : path) (t : tree) {struct t} : bool :=
  match t with
  | File => false
  | Dir ign ch =>
    ign_panics fixed_P36 ign ||
    let R' := add_patterns R (dir_patterns p ign) in
    (fix go (l : list (name * tree)) : bool :=
       match l with
       | [] => false
       | (n, c) :: r =>
         (if is_ignore (check R' (p ++ [n]) (is_dir c)) then false else panics_node fixed_P36 R' (p ++ [n]) c) || go r
       end) ch
  end.

Definition walk_panics (fixed_P36 : bool) (globals : bytes) (ign : option bytes) (ch : list (name * tree)) : bool :=
  existsb (pattern_new_panics fixed_P36) (lines globals) || panics_node fixed_P36 (global_rules globals) [] (Dir ign ch).

(* ---- listing one directory with the rules R (the filter_map of both walkers) ------------------ *)
Fixpoint scan (R : rules) (p : path) (ch : list (name * tree)) : list path * list ditem :=
  match ch with
  | [] => ([], [])
  | (n, t) :: r =>
    let '(o, k) := scan R p r in
    if is_ignore (check R (p ++ [n]) (is_dir t)) then (o, k)
    else ((p ++ [n]) :: o, match t with Dir i c => (p ++ [n], i, c) :: k | File => k end)
  end.

(* ---- walk_serial ---------------------------------------------------------------------------------
   dir_stack is a Vec used as a stack (head of the list = top); one shared rule set that only grows. *)
Record sstate := { s_stack : list ditem; s_rules : rules; s_out : list path }.

Fixpoint serial_loop (fuel : nat) (s : sstate) : option (list path) :=
  match fuel with
  | O => None                                      (* OutOfFuel *)
  | S f =>
    match s_stack s with
    | [] => Some (s_out s)
    | (p, ign, ch) :: rest =>
      let R' := add_patterns (s_rules s) (dir_patterns p ign) in
      let '(o, kept) := scan R' p ch in
      serial_loop f {| s_stack := rev kept ++ rest; s_rules := R'; s_out := s_out s ++ o |}
    end
  end.

Definition serial_walk (fuel : nat) (globals : bytes) (ign : option bytes) (ch : list (name * tree))
  : option (list path) :=
  serial_loop fuel {| s_stack := [([], ign, ch)]; s_rules := global_rules globals; s_out := [] |}.

(* ---- walk_parallel -------------------------------------------------------------------------------
   Shared: the directory queue, the rule set, the output channel.  Per thread:
     Idle           at `while let Some(pm) = dir_queue.pop()`
     M1 d           popped d, about to append d's ignore patterns   (merge_with, first block)
     M2 d           about to append d's whitelist patterns          (merge_with, second block)
     Work rest kept checking the remaining children one by one, then pushing the kept directories
     Done           found the queue empty and left the loop
   A schedule is a list of (thread id, k); k is the queue position an Idle thread pops (SegQueue
   is FIFO: k = 0; the theorems hold for every k).  A schedule entry that names a thread which
   cannot move is skipped. *)
Inductive tstate :=
| Idle | M1 (d : ditem) | M2 (d : ditem)
| Work (rest : list (path * tree)) (kept : list ditem) | Done.

Record config := { c_queue : list ditem; c_threads : list tstate; c_rules : rules; c_out : list path }.

Fixpoint set_nth {A} (l : list A) (i : nat) (x : A) : list A :=
  match l, i with
  | [], _ => []
  | _ :: r, O => x :: r
  | y :: r, S j => y :: set_nth r j x
  end.

Fixpoint take_nth {A} (l : list A) (k : nat) : option (A * list A) :=
  match l, k with
  | [], _ => None
  | x :: r, O => Some (x, r)
  | x :: r, S j => match take_nth r j with Some (y, r') => Some (y, x :: r') | None => None end
  end.

Definition children_of (p : path) (ch : list (name * tree)) : list (path * tree) :=
  map (fun nt => (p ++ [fst nt], snd nt)) ch.

Definition par_step (c : config) (i k : nat) : option config :=
  match nth_error (c_threads c) i with
  | None => None
  | Some ts =>
    let upd ts' q R o := Some {| c_queue := q; c_threads := set_nth (c_threads c) i ts'; c_rules := R; c_out := o |} in
    match ts with
    | Idle =>
      match c_queue c with
      | [] => upd Done [] (c_rules c) (c_out c)
      | _ => match take_nth (c_queue c) k with
             | Some (d, q') => upd (M1 d) q' (c_rules c) (c_out c)
             | None => None
             end
      end
    | M1 (p, ign, ch) => upd (M2 (p, ign, ch)) (c_queue c) (merge_ign (c_rules c) (dir_patterns p ign)) (c_out c)
    | M2 (p, ign, ch) => upd (Work (children_of p ch) []) (c_queue c) (merge_white (c_rules c) (dir_patterns p ign)) (c_out c)
    | Work ((q, t) :: rest) kept =>
      if is_ignore (check (c_rules c) q (is_dir t)) then upd (Work rest kept) (c_queue c) (c_rules c) (c_out c)
      else upd (Work rest (kept ++ match t with Dir i ch => [(q, i, ch)] | File => [] end))
               (c_queue c) (c_rules c) (c_out c ++ [q])
    | Work [] (d :: kept) => upd (Work [] kept) (c_queue c ++ [d]) (c_rules c) (c_out c)
    | Work [] [] => upd Idle (c_queue c) (c_rules c) (c_out c)
    | Done => None
    end
  end.

Fixpoint par_run (c : config) (sched : list (nat * nat)) : config :=
  match sched with
  | [] => c
  | (i, k) :: r => match par_step c i k with Some c' => par_run c' r | None => par_run c r end
  end.

(* walk_parallel processes the start directory inline, then spawns the threads *)
Definition par_init (nthreads : nat) (globals : bytes) (ign : option bytes) (ch : list (name * tree)) : config :=
  let R0 := add_patterns (global_rules globals) (dir_patterns [] ign) in
  let '(o, kept) := scan R0 [] ch in
  {| c_queue := kept; c_threads := repeat Idle nthreads; c_rules := R0; c_out := o |}.

Definition is_done (ts : tstate) : bool := match ts with Done => true | _ => false end.
Definition final (c : config) : bool := forallb is_done (c_threads c).

Definition par_walk (nthreads : nat) (globals : bytes) ign ch (sched : list (nat * nat)) : config :=
  par_run (par_init nthreads globals ign ch) sched.
End Walk.

(* ---- well-formed trees: what every file system guarantees -------------------------------------- *)
Definition good_name (n : name) : bool :=
  match n with [] => false | _ => forallb (fun b => negb (N.eqb b c_slash)) n end.
Fixpoint mem_name (n : name) (l : list name) : bool :=
  match l with [] => false | x :: r => bytes_eqb n x || mem_name n r end.
Fixpoint nodup_names (l : list name) : bool :=
  match l with [] => true | x :: r => negb (mem_name x r) && nodup_names r end.

Fixpoint wf_tree (t : tree) : bool :=
  match t with
  | File => true
  | Dir _ ch =>
    nodup_names (map fst ch) && forallb good_name (map fst ch) &&
    (fix go (l : list (name * tree)) : bool :=
       match l with [] => true | (_, c) :: r => wf_tree c && go r end) ch
  end.

(* Known class of P36 (boolean on trees): some ignore file of the tree, wherever it is, has a rule line on
   which Pattern::new panics; empty when the repair is in *)
Fixpoint tree_mb_line (fixed_P36 : bool) (t : tree) : bool :=
  match t with
  | File => false
  | Dir ign ch =>
    ign_panics fixed_P36 ign ||
    (fix go (l : list (name * tree)) : bool :=
       match l with [] => false | (_, c) :: r => tree_mb_line fixed_P36 c || go r end) ch
  end.
Definition known_P36 (fixed_P36 : bool) (globals : bytes) (t : tree) : bool :=
  existsb (pattern_new_panics fixed_P36) (lines globals) || tree_mb_line fixed_P36 t.

(* number of directories, for the fuel of [serial_walk] *)
Fixpoint dir_count (t : tree) : nat :=
  match t with
  | File => O
  | Dir _ ch => S ((fix go (l : list (name * tree)) : nat :=
                      match l with [] => O | (_, c) :: r => (dir_count c + go r)%nat end) ch)
  end.
