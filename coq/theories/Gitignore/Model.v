(* M-GITIGNORE: (1) a reference semantics of gitignore for the grammar of property C16
   (per-directory .gitignore files, last matching pattern wins, deeper files win, `!` negation,
   directory-only `dir/`, anchoring `/x` and `a/b`, `*`, `?`, `**`, backslash escapes, trailing blanks
   removed unless escaped; a path below an excluded directory cannot be re-included), written from gitignore(5) / dir.c / wildmatch.c and validated against the
   real `git check-ignore` by its own differential test (vlib/c16.py);
   (2) xvc's editing of .gitignore files, from file/src/common/gitignore.rs as the code is now:
   update_dir_gitignores / update_file_gitignores (`/name/` in the parent's file for directory targets,
   `/name` in the directory's file for file targets, each only if xvc's OWN matcher says NoMatch;
   Ignore => nothing, Whitelist => error and nothing; one OpenOptions::append write per file: a dated
   header line and the lines), track's two-phase use of them (file/src/track/mod.rs), the ignore
   handler thread of recheck / copy / move / bring / carry-in (make_ignore_handler), the rename branch
   of cmd_move (file/src/mv/mod.rs), build_gitignore (core/src/util/git.rs -> xvc_walker
   build_ignore_patterns: every .gitignore below the root merged into ONE rule set, whitelist first),
   and the initial root .gitignore (Gen/GitignoreInitial.v, regenerated from the source).
   Boolean parameters: [fixed_P17] (locality test in IgnoreRules::check, repo-patches/51), [fixed_P35] (the
   global patterns `.xvc` / `.git` are final in IgnoreRules::check, 9cb79112; [xvc_chk] = Walker check_str35),
   [fixed_P5] (cmd_move writes the rule for a renamed destination), [fixed_nl] (a rule block never
   continues the user's unterminated last line), [fixed_sn] (repo-patches/75: the written name is
   escaped, [escape_name] = escape_gitignore_name), [fixed_em] (repo-patches/76: Git itself -- here the
   reference semantics -- decides whether a path is ignored already; xvc's matcher only reports
   whitelisting).
   Strings are byte lists; paths are lists of components below the repository root.
   No proofs in this file. *)
From Coq Require Import List NArith Bool.
From XV Require Import Glob.Match Glob.Pattern Walker.Model.
From XV Require Gen.GitignoreInitial Gen.CommonIgnore.
Import ListNotations.
Open Scope N_scope.

Definition gname := bytes.
Definition gpath := list gname.

Fixpoint path_eqb (a b : gpath) : bool :=
  match a, b with
  | [], [] => true
  | x :: a', y :: b' => bytes_eqb x y && path_eqb a' b'
  | _, _ => false
  end.

(* the .gitignore files of the work tree: directory |-> content (first binding wins); a directory
   without a binding has no .gitignore, which reads as the empty content *)
Definition gfiles := list (gpath * bytes).

Fixpoint content (gf : gfiles) (d : gpath) : bytes :=
  match gf with
  | [] => []
  | (k, v) :: r => if path_eqb k d then v else content r d
  end.

(* OpenOptions::new().create(true).append(true) + write: the only way xvc touches a .gitignore *)
Fixpoint append_to (gf : gfiles) (d : gpath) (s : bytes) : gfiles :=
  match gf with
  | [] => [(d, s)]
  | (k, v) :: r => if path_eqb k d then (k, v ++ s) :: r else (k, v) :: append_to r d s
  end.

Fixpoint split_last (p : gpath) : option (gpath * gname) :=
  match p with
  | [] => None
  | [n] => Some ([], n)
  | x :: r => match split_last r with Some (d, n) => Some (x :: d, n) | None => None end
  end.

(* ================================================================================================
   (1) reference semantics of gitignore
   ================================================================================================ *)

(* lines of a .gitignore: split at '\n'; a final line without '\n' counts, a final '\n' adds none *)
Fixpoint glines (s : bytes) : list bytes :=
  match s with
  | [] => []
  | x :: r =>
    if N.eqb x c_nl then [] :: glines r
    else match glines r with
         | [] => [[x]]
         | l :: ls => (x :: l) :: ls
         end
  end.

(* a pattern after lexing: `*`, `?`, an unescaped `/`, a literal byte (also `\x` for every x) *)
Inductive gtok := TStar | TQ | TSlash | TLit (b : byte).
Definition is_tslash (t : gtok) : bool := match t with TSlash => true | _ => false end.
Definition is_tstar (t : gtok) : bool := match t with TStar => true | _ => false end.

Inductive gseg := GSS | GSG (g : list gtok).          (* a `**` segment / a segment glob *)
Record gpat := { g_neg : bool; g_dir : bool; g_anch : bool; g_segs : list gseg }.
(* blank line or comment / outside the supported grammar / a pattern *)
Inductive pline := LNone | LUnsup | LPat (p : gpat).

Definition tok_of (c : byte) : gtok :=
  if N.eqb c c_star then TStar else if N.eqb c c_q then TQ else if N.eqb c c_slash then TSlash else TLit c.
Definition all_spaces (s : bytes) : bool := forallb (N.eqb c_space) s.

(* dir.c trim_trailing_spaces + the lexical layer of wildmatch.c: a backslash makes the next byte
   literal; the final run of unescaped blanks is dropped; None = outside the grammar: an unescaped
   '[' or ']' (character classes), a backslash at the end of the line or before '/', a NUL byte *)
Fixpoint lex (s : bytes) : option (list gtok) :=
  match s with
  | [] => Some []
  | c :: r =>
    if N.eqb c c_bs then
      match r with
      | [] => None
      | d :: r' => if N.eqb d c_slash || N.eqb d 0 then None
                   else match lex r' with Some t => Some (TLit d :: t) | None => None end
      end
    else if N.eqb c c_space && all_spaces r then Some []
    else if N.eqb c c_lb || N.eqb c c_rb || N.eqb c 0 then None
    else match lex r with Some t => Some (tok_of c :: t) | None => None end
  end.

(* split at an unescaped '/' (always at least one piece) *)
Fixpoint split_tslash (s : list gtok) : list (list gtok) :=
  match s with
  | [] => [[]]
  | x :: r =>
    if is_tslash x then [] :: split_tslash r
    else match split_tslash r with
         | [] => [[x]]
         | h :: t => (x :: h) :: t
         end
  end.

(* remove ONE trailing '/' (dir.c parse_path_pattern: PATTERN_FLAG_MUSTBEDIR) *)
Fixpoint strip_last_slash (s : list gtok) : bool * list gtok :=
  match s with
  | [] => (false, [])
  | [x] => if is_tslash x then (true, []) else (false, [x])
  | x :: r => let '(d, r') := strip_last_slash r in (d, x :: r')
  end.

Definition is_empty (s : bytes) : bool := match s with [] => true | _ => false end.
Definition is_nil (s : list gtok) : bool := match s with [] => true | _ => false end.
Definition is_star2 (s : list gtok) : bool := match s with [TStar; TStar] => true | _ => false end.
(* two stars in a row *)
Fixpoint has_star2 (s : list gtok) : bool :=
  match s with
  | a :: r => match r with
              | b :: _ => (is_tstar a && is_tstar b) || has_star2 r
              | [] => false
              end
  | [] => false
  end.
(* `**` glued to other characters of a component (`a**`, `**b`): wildmatch reads it as `*`, but the
   literal-prefix shortcut of dir.c match_pathname can turn what is left of `a**/d` into `**/d`;
   outside the grammar *)
Definition bad_piece (s : list gtok) : bool := has_star2 s && negb (is_star2 s).

Definition ends_cr (l : bytes) : bool := match last_byte l with Some b => N.eqb b c_cr | None => false end.

Definition parse_line (l : bytes) : pline :=
  match l with
  | [] => LNone
  | c :: _ =>
    if N.eqb c c_hash then LNone
    else if ends_cr l then LUnsup          (* Git drops a carriage return before the line break: outside the grammar *)
    else
      let '(neg, l1) := if N.eqb c c_bang then (true, tl l) else (false, l) in
      match lex l1 with
      | None => LUnsup
      | Some t1 =>
        let '(dir, t2) := strip_last_slash t1 in
        if is_nil t2 then LNone
        else if existsb is_tslash t2 then
          let body := match t2 with TSlash :: b => b | _ => t2 end in
          let pieces := split_tslash body in
          if existsb is_nil pieces || existsb bad_piece pieces then LUnsup
          else LPat {| g_neg := neg; g_dir := dir; g_anch := true;
                       g_segs := map (fun s => if is_star2 s then GSS else GSG s) pieces |}
        else if bad_piece t2 then LUnsup
        else LPat {| g_neg := neg; g_dir := dir; g_anch := false; g_segs := [GSG t2] |}
      end
  end.

Definition plines (c : bytes) : list pline := map parse_line (glines c).

(* wildmatch inside one path component: '*' any run, '?' one byte, a literal itself *)
Fixpoint wm (p : list gtok) (s : bytes) {struct p} : bool :=
  match p with
  | [] => is_empty s
  | TStar :: p' =>
      (fix star (s : bytes) : bool :=
         wm p' s || match s with [] => false | _ :: s' => star s' end) s
  | TQ :: p' => match s with [] => false | _ :: s' => wm p' s' end
  | TLit c :: p' => match s with [] => false | x :: s' => N.eqb c x && wm p' s' end
  | TSlash :: _ => false
  end.

(* an anchored pattern against the components relative to the directory of its .gitignore:
   `**` spans zero or more components, a final `**` at least one *)
Fixpoint pm (segs : list gseg) (comps : gpath) {struct segs} : bool :=
  match segs with
  | [] => match comps with [] => true | _ => false end
  | GSS :: rest =>
    match rest with
    | [] => match comps with [] => false | _ => true end
    | _ => (fix go (comps : gpath) : bool :=
              pm rest comps || match comps with [] => false | _ :: c' => go c' end) comps
    end
  | GSG g :: rest =>
    match comps with
    | [] => false
    | c :: cs => wm g c && pm rest cs
    end
  end.

Fixpoint last_name (p : gpath) : option gname :=
  match p with [] => None | [n] => Some n | _ :: r => last_name r end.

Definition pat_match (p : gpat) (rel : gpath) (isdir : bool) : bool :=
  (negb (g_dir p) || isdir) &&
  (if g_anch p then pm (g_segs p) rel
   else match g_segs p, last_name rel with
        | [GSG g], Some b => wm g b
        | _, _ => false
        end).

(* the last matching pattern of one file decides; [acc] is the decision of the files above *)
Fixpoint last_match (ls : list pline) (rel : gpath) (isdir : bool) (acc : option bool) : option bool :=
  match ls with
  | [] => acc
  | LPat p :: r => last_match r rel isdir (if pat_match p rel isdir then Some (negb (g_neg p)) else acc)
  | _ :: r => last_match r rel isdir acc
  end.

(* from the root down to the directory of the path: deeper files override *)
Fixpoint excl_from (gf : gfiles) (pre rest : gpath) (isdir : bool) (acc : option bool) : option bool :=
  match rest with
  | [] => acc
  | n :: rest' => excl_from gf (pre ++ [n]) rest' isdir (last_match (plines (content gf pre)) rest isdir acc)
  end.

Definition excluded (gf : gfiles) (q : gpath) (isdir : bool) : bool :=
  match excl_from gf [] q isdir None with Some true => true | _ => false end.

(* a file is ignored when one of its directories is excluded (it cannot be re-included then) or,
   failing that, when the file itself is excluded *)
Fixpoint ign_from (gf : gfiles) (isdir : bool) (pre rest : gpath) : bool :=
  match rest with
  | [] => false
  | [n] => excluded gf (pre ++ [n]) isdir
  | n :: rest' => excluded gf (pre ++ [n]) true || ign_from gf isdir (pre ++ [n]) rest'
  end.

Definition ignored (gf : gfiles) (p : gpath) : bool := ign_from gf false [] p.
(* the same question for a directory (`git check-ignore dir/`) *)
Definition ignored_dir (gf : gfiles) (p : gpath) : bool := ign_from gf true [] p.

(* every line of every file is inside the grammar *)
Definition line_supported (l : bytes) : bool := match parse_line l with LUnsup => false | _ => true end.
Definition supported (gf : gfiles) : bool := forallb (fun kv => forallb line_supported (glines (snd kv))) gf.

(* ================================================================================================
   (2) xvc's editing of .gitignore files
   ================================================================================================ *)

Definition ends_nl (s : bytes) : bool := match last_byte s with Some b => N.eqb b c_nl | None => true end.
Definition has_nl (s : bytes) : bool := existsb (N.eqb c_nl) s.

Fixpoint uint_bytes (u : Decimal.uint) : bytes :=
  match u with
  | Decimal.Nil => []
  | Decimal.D0 r => 48 :: uint_bytes r | Decimal.D1 r => 49 :: uint_bytes r
  | Decimal.D2 r => 50 :: uint_bytes r | Decimal.D3 r => 51 :: uint_bytes r
  | Decimal.D4 r => 52 :: uint_bytes r | Decimal.D5 r => 53 :: uint_bytes r
  | Decimal.D6 r => 54 :: uint_bytes r | Decimal.D7 r => 55 :: uint_bytes r
  | Decimal.D8 r => 56 :: uint_bytes r | Decimal.D9 r => 57 :: uint_bytes r
  end.
Definition dec_bytes (n : N) : bytes := uint_bytes (N.to_uint n).

(* "### Following " / " lines are added by xvc on " *)
Definition hdr_a : bytes := [35;35;35;32;70;111;108;108;111;119;105;110;103;32].
Definition hdr_b : bytes := [32;108;105;110;101;115;32;97;114;101;32;97;100;100;101;100;32;98;121;32;120;118;99;32;111;110;32].
Definition header (n : nat) (date : bytes) : bytes := hdr_a ++ dec_bytes (N.of_nat n) ++ hdr_b ++ date.

(* values.join("\n") *)
Fixpoint join_nl (ls : list bytes) : bytes :=
  match ls with
  | [] => []
  | [a] => a
  | a :: r => a ++ [c_nl] ++ join_nl r
  end.

(* writeln!(file, "{}", format!("### Following {} lines are added by xvc on {}\n{}", n, date, lines.join("\n"))) *)
Definition block (ls : list bytes) (date : bytes) : bytes :=
  header (length ls) date ++ [c_nl] ++ join_nl ls ++ [c_nl].

(* "## Path Contains final .." *)
Definition weird_line : bytes := [35;35;32;80;97;116;104;32;67;111;110;116;97;105;110;115;32;102;105;110;97;108;32;46;46].

(* escape_gitignore_name (repo-patches/75): a backslash before \ * ? [ ] and before a final blank;
   `?` for a line break and for a final carriage return, which no pattern line can contain *)
Definition needs_bs (b : byte) : bool :=
  N.eqb b c_bs || N.eqb b c_star || N.eqb b c_q || N.eqb b c_lb || N.eqb b c_rb.
Definition esc1 (b : byte) : bytes := if needs_bs b then [c_bs; b] else if N.eqb b c_nl then [c_q] else [b].
Fixpoint escape_name (n : gname) : bytes :=
  match n with
  | [] => []
  | [b] => if N.eqb b c_space then [c_bs; c_space] else if N.eqb b c_cr then [c_q] else esc1 b
  | b :: r => esc1 b ++ escape_name r
  end.
(* the name as it is written into the line *)
Definition wname (fixed_sn : bool) (n : gname) : bytes := if fixed_sn then escape_name n else n.

Definition dir_item (fixed_sn : bool) (d : gpath) : gpath * bytes :=
  match split_last d with
  | Some (par, n) => (par, [c_slash] ++ wname fixed_sn n ++ [c_slash])
  | None => ([], weird_line)
  end.
Definition file_item (fixed_sn : bool) (f : gpath) : gpath * bytes :=
  match split_last f with
  | Some (par, n) => (par, c_slash :: wname fixed_sn n)
  | None => ([], weird_line)
  end.

(* HashMap<RelativePathBuf, Vec<String>>: one vector of lines per .gitignore, in arrival order *)
Fixpoint group_add (g : list (gpath * list bytes)) (d : gpath) (l : bytes) : list (gpath * list bytes) :=
  match g with
  | [] => [(d, [l])]
  | (k, ls) :: r => if path_eqb k d then (k, ls ++ [l]) :: r else (k, ls) :: group_add r d l
  end.
Definition group (items : list (gpath * bytes)) : list (gpath * list bytes) :=
  fold_left (fun g it => group_add g (fst it) (snd it)) items [].

(* path string handed to IgnoreRules::check for a directory.  update_dir_gitignores means to add a
   final slash (`if dir.ends_with("/") { join(dir) } else { join(dir + "/") }`), but
   RelativePath::ends_with compares COMPONENTS and "/" has none, so the test is always true and the
   directory is checked without the final slash (observed: `xvc file track d/e` twice writes `/e/`
   twice, and a `!d/` line does not stop `/d/` from being written) *)
Definition dir_str (d : gpath) : bytes := render d.

Record env := { e_dirs : list gpath;     (* the directories of the work tree, in read_dir order *)
                e_date : bytes }.        (* Utc::now().to_rfc2822() *)

Inductive iop := IgnDir (d : gpath) | IgnFile (f : gpath).
Inductive cmd :=
| CTrack (e : env) (dirs files : list gpath)      (* directory targets, file targets *)
| CHandler (e : env) (ops : list iop)             (* recheck / copy / move / bring / carry-in *)
| CMoveRename (e : env) (dests : list gpath).     (* move, Copy -> Copy: fs::rename *)

Definition is_nomatch (v : verdict) : bool := match v with NoMatch => true | _ => false end.
Definition is_whitelist (v : verdict) : bool := match v with Whitelist => true | _ => false end.

Fixpoint mem_path (p : gpath) (l : list gpath) : bool :=
  match l with [] => false | x :: r => path_eqb x p || mem_path p r end.

Section Edit.
(* xvc's own matcher, abstract: [build] is build_gitignore (None = out of fuel), [chk] is
   IgnoreRules::check on the path string.  The theorems hold for every matcher; [xvc_build] /
   [xvc_chk] below are the real ones. *)
Variable RT : Type.
Variable build : env -> gfiles -> option RT.
Variable chk : RT -> bytes -> verdict.
Variable fixed_nl : bool.
Variable fixed_P5 : bool.
Variable fixed_sn : bool.
Variable fixed_em : bool.

Definition sep_for (old : bytes) : bytes := if fixed_nl && negb (ends_nl old) then [c_nl] else [].

Definition write_blocks (gf : gfiles) (groups : list (gpath * list bytes)) (date : bytes) : gfiles :=
  fold_left (fun gf g => append_to gf (fst g) (sep_for (content gf (fst g)) ++ block (snd g) date)) groups gf.

(* does the path get a rule?  Without repo-patches/76: only when xvc's matcher says NoMatch.  With it
   (paths_ignored_by_git: `git check-ignore --no-index` in the state [gf] -- the reference semantics):
   when Git does not ignore the path yet, unless xvc's matcher says Whitelist (error, P26) *)
Definition keep_dir (R : RT) (gf : gfiles) (d : gpath) : bool :=
  if fixed_em then negb (ignored_dir gf d) && negb (is_whitelist (chk R (dir_str d)))
  else is_nomatch (chk R (dir_str d)).
Definition keep_file (R : RT) (gf : gfiles) (f : gpath) : bool :=
  if fixed_em then negb (ignored gf f) && negb (is_whitelist (chk R (render f)))
  else is_nomatch (chk R (render f)).
Definition keep_dirs (R : RT) (gf : gfiles) (dirs : list gpath) : list gpath := filter (keep_dir R gf) dirs.
Definition keep_files (R : RT) (gf : gfiles) (files : list gpath) : list gpath := filter (keep_file R gf) files.

Definition update_dirs (R : RT) (gf : gfiles) (dirs : list gpath) (date : bytes) : gfiles :=
  write_blocks gf (group (map (dir_item fixed_sn) (keep_dirs R gf dirs))) date.
Definition update_files (R : RT) (gf : gfiles) (files : list gpath) (date : bytes) : gfiles :=
  write_blocks gf (group (map (file_item fixed_sn) (keep_files R gf files))) date.

(* the receive loop of the handler thread: first arrival wins; under the rules as they were when the
   thread started only NoMatch passes -- with repo-patches/76 everything but Whitelist, the decision
   is taken when the rules are written (directories are checked WITHOUT the final slash here) *)
Definition passes (v : verdict) : bool := if fixed_em then negb (is_whitelist v) else is_nomatch v.
Fixpoint collect (R0 : RT) (ops : list iop) (ds fs : list gpath) : list gpath * list gpath :=
  match ops with
  | [] => (ds, fs)
  | IgnDir d :: r =>
    if negb (mem_path d ds) && passes (chk R0 (render d)) then collect R0 r (ds ++ [d]) fs
    else collect R0 r ds fs
  | IgnFile f :: r =>
    if negb (mem_path f fs) && passes (chk R0 (render f)) then collect R0 r ds (fs ++ [f])
    else collect R0 r ds fs
  end.

(* (state after, false = the model ran out of fuel in build_gitignore and stopped there) *)
Definition run_cmd (gf : gfiles) (c : cmd) : gfiles * bool :=
  match c with
  | CTrack e dirs files =>
    match build e gf with
    | None => (gf, false)
    | Some R1 =>
      let gf1 := update_dirs R1 gf dirs (e_date e) in
      match build e gf1 with
      | None => (gf1, false)
      | Some R2 => (update_files R2 gf1 files (e_date e), true)
      end
    end
  | CHandler e ops =>
    match build e gf with
    | None => (gf, false)
    | Some R0 =>
      let '(ds, fs) := collect R0 ops [] [] in
      let gf1 := update_dirs R0 gf ds (e_date e) in
      match build e gf1 with
      | None => (gf1, false)
      | Some R1 => (update_files R1 gf1 fs (e_date e), true)
      end
    end
  | CMoveRename e dests =>
    if fixed_P5 then
      match build e gf with
      | None => (gf, false)
      | Some R => (update_files R gf dests (e_date e), true)
      end
    else (gf, true)
  end.

Fixpoint run_cmds (gf : gfiles) (cs : list cmd) : gfiles :=
  match cs with
  | [] => gf
  | c :: r => run_cmds (fst (run_cmd gf c)) r
  end.

(* ---- the decision xvc takes for one file path, and the two known classes ------------------------ *)
(* the state in which the file decisions of a command are taken, and the rules used *)
Definition file_stage (gf : gfiles) (c : cmd) : option (gfiles * RT * option RT) :=
  match c with
  | CTrack e dirs _ =>
    match build e gf with
    | None => None
    | Some R1 => let gf1 := update_dirs R1 gf dirs (e_date e) in
                 match build e gf1 with Some R2 => Some (gf1, R2, None) | None => None end
    end
  | CHandler e ops =>
    match build e gf with
    | None => None
    | Some R0 => let gf1 := update_dirs R0 gf (fst (collect R0 ops [] [])) (e_date e) in
                 match build e gf1 with Some R1 => Some (gf1, R1, Some R0) | None => None end
    end
  | CMoveRename e _ =>
    match build e gf with Some R => Some (gf, R, None) | None => None end
  end.

Definition file_targets (c : cmd) : list gpath :=
  match c with
  | CTrack _ _ files => files
  | CHandler _ ops => flat_map (fun o => match o with IgnFile f => [f] | IgnDir _ => [] end) ops
  | CMoveRename _ dests => dests
  end.

(* K_user_whitelist: xvc's matcher answers Whitelist for the path (a user `!` line): error / dropped *)
Definition K_user_whitelist (gf : gfiles) (c : cmd) (f : gpath) : bool :=
  match file_stage gf c with
  | None => false
  | Some (gf1, R, R0) =>
    match R0 with Some R0 => is_whitelist (chk R0 (render f)) | None => false end
    || is_whitelist (chk R (render f))
  end.

(* K_engine_mismatch: xvc's matcher answers Ignore ("already ignored") where Git does not ignore;
   empty with repo-patches/76, where that answer is no longer used *)
Definition K_engine_mismatch (gf : gfiles) (c : cmd) (f : gpath) : bool :=
  negb fixed_em &&
  match file_stage gf c with
  | None => false
  | Some (gf1, R, R0) =>
    match R0 with Some R0 => is_ignore (chk R0 (render f)) && negb (ignored gf f) | None => false end
    || (is_ignore (chk R (render f)) && negb (ignored gf1 f))
  end.
End Edit.

(* ---- names and commands the theorems speak about ------------------------------------------------ *)
(* a component that xvc can write UNESCAPED as `/name` and Git reads back as a pattern matching the name:
   no control character, blank, '[' ']' '\', no `**` *)
Definition ok_byte (b : byte) : bool :=
  (32 <? b) && negb (N.eqb b c_lb) && negb (N.eqb b c_rb) && negb (N.eqb b c_bs) && negb (N.eqb b 127).
Fixpoint has_star2b (s : bytes) : bool :=
  match s with
  | a :: r => match r with
              | b :: _ => (N.eqb a c_star && N.eqb b c_star) || has_star2b r
              | [] => false
              end
  | [] => false
  end.
Definition plain_name (n : gname) : bool :=
  negb (is_empty n) && forallb ok_byte n && negb (existsb (N.eqb c_slash) n) && negb (has_star2b n).
Definition plain_path (p : gpath) : bool := negb (match p with [] => true | _ => false end) && forallb plain_name p.
(* every name a file system can hold (a component of an XvcPath): not empty, no '/', no NUL *)
Definition valid_name (n : gname) : bool :=
  negb (is_empty n) && negb (existsb (N.eqb c_slash) n) && negb (existsb (N.eqb 0) n).
Definition valid_path (p : gpath) : bool := negb (match p with [] => true | _ => false end) && forallb valid_name p.
(* ... of which the escaped line matches nothing else: no line break, no final carriage return *)
Definition strict_name (n : gname) : bool :=
  valid_name n && negb (existsb (N.eqb c_nl) n) && negb (match last_byte n with Some b => N.eqb b c_cr | None => false end).
(* the names the written line is right for: all of them with repo-patches/75, the plain ones without *)
Definition name_ok (fixed_sn : bool) (n : gname) : bool := if fixed_sn then valid_name n else plain_name n.
Definition path_ok (fixed_sn : bool) (p : gpath) : bool := if fixed_sn then valid_path p else plain_path p.
(* the class `special-name`: a path outside; empty over valid paths with the repair *)
Definition K_special_name (fixed_sn : bool) (p : gpath) : bool := negb (path_ok fixed_sn p).

Definition op_path (o : iop) : gpath := match o with IgnDir d => d | IgnFile f => f end.
Definition cmd_env (c : cmd) : env := match c with CTrack e _ _ => e | CHandler e _ => e | CMoveRename e _ => e end.
Definition cmd_paths (c : cmd) : list gpath :=
  match c with
  | CTrack _ dirs files => dirs ++ files
  | CHandler _ ops => map op_path ops
  | CMoveRename _ dests => dests
  end.
(* all written names are right for the writer, the date has no line break *)
Definition wf_cmd (fixed_sn : bool) (c : cmd) : bool :=
  forallb (path_ok fixed_sn) (cmd_paths c) && negb (has_nl (e_date (cmd_env c))).
(* every .gitignore is empty or ends with a line break *)
Definition all_end_nl (gf : gfiles) : bool := forallb (fun kv => ends_nl (snd kv)) gf.

(* ---- the real matcher: build_gitignore + IgnoreRules::check ------------------------------------- *)
Definition children (dirs : list gpath) (p : gpath) : list gpath :=
  filter (fun d => match split_last d with Some (par, _) => path_eqb par p | None => false end) dirs.

Section Real.
Variable fixed_P17 : bool.
(* 9cb79112 (P35, C09): IgnoreRules::check consults the Source::Global ignore patterns (`.xvc`, `.git`) first *)
Variable fixed_P35 : bool.

Definition xvc_chk (R : rules) (s : bytes) : verdict := check_str35 glob_matches fixed_P17 fixed_P35 R s.

(* build_ignore_patterns: dir_stack is a Vec used as a stack (head = top); the .gitignore of the
   popped directory is merged into the ONE shared rule set, then its sub-directories that the rules
   merged so far do not ignore are pushed *)
Fixpoint build_loop (fuel : nat) (dirs : list gpath) (gf : gfiles) (stack : list gpath) (R : rules)
  : option rules :=
  match stack with
  | [] => Some R
  | p :: rest =>
    match fuel with
    | O => None
    | S f =>
      let R' := add_patterns R (dir_patterns p (Some (content gf p))) in
      let kept := filter (fun d => negb (is_ignore (xvc_chk R' (render d)))) (children dirs p) in
      build_loop f dirs gf (rev kept ++ rest) R'
    end
  end.

Definition xvc_build (e : env) (gf : gfiles) : option rules :=
  build_loop (S (length (e_dirs e))) (e_dirs e) gf [[]]
             (global_rules Gen.CommonIgnore.common_ignore_patterns).
End Real.

Definition xvc_run (fixed_P17 fixed_P35 fixed_nl fixed_P5 fixed_sn fixed_em : bool) : gfiles -> list cmd -> gfiles :=
  run_cmds rules (xvc_build fixed_P17 fixed_P35) (xvc_chk fixed_P17 fixed_P35) fixed_nl fixed_P5 fixed_sn fixed_em.

(* ---- the initial root .gitignore ---------------------------------------------------------------- *)
Definition render_iseg (s : Gen.GitignoreInitial.seg) : bytes :=
  match s with Gen.GitignoreInitial.SLit l => l | Gen.GitignoreInitial.SStar => [c_star] end.
Fixpoint join_slash (ls : list bytes) : bytes :=
  match ls with [] => [] | [a] => a | a :: r => a ++ [c_slash] ++ join_slash r end.
Definition render_ipat (p : Gen.GitignoreInitial.ipat) : bytes :=
  (if Gen.GitignoreInitial.ip_neg p then [c_bang] else []) ++
  join_slash (map render_iseg (Gen.GitignoreInitial.ip_segs p)) ++
  (if Gen.GitignoreInitial.ip_dir p then [c_slash] else []).
(* the pattern lines of GITIGNORE_INITIAL_CONTENT (its blank and comment lines carry no meaning) *)
Definition init_content : bytes :=
  flat_map (fun p => render_ipat p ++ [c_nl]) Gen.GitignoreInitial.gitignore_initial.
Definition init_gf : gfiles := [([], init_content)].
