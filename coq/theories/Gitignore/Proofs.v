(* Proofs about M-GITIGNORE (Gitignore/Model.v).  The editing theorems are proved for EVERY matcher
   (the Section variables [build] / [chk] of the model stay abstract). *)
From Coq Require Import List NArith Bool Lia.
From XV Require Import Glob.Match Glob.Pattern Walker.Model Gitignore.Model.
From XV Require Gen.GitignoreInitial.
Import ListNotations.
Open Scope N_scope.

(* ---- equality tests --------------------------------------------------------------------------- *)
Lemma beq_spec a : forall b, bytes_eqb a b = true <-> a = b.
Proof.
  induction a as [|x a IH]; intros [|y b]; cbn [bytes_eqb]; split; intros H; try discriminate; try reflexivity.
  - apply andb_true_iff in H as [H1 H2]. apply N.eqb_eq in H1. apply IH in H2. now subst.
  - injection H as -> ->. rewrite N.eqb_refl. cbn [andb]. now apply IH.
Qed.

Lemma path_eqb_spec a : forall b, path_eqb a b = true <-> a = b.
Proof.
  induction a as [|x a IH]; intros [|y b]; cbn [path_eqb]; split; intros H; try discriminate; try reflexivity.
  - apply andb_true_iff in H as [H1 H2]. apply beq_spec in H1. apply IH in H2. now subst.
  - injection H as -> ->. apply andb_true_iff. split; [now apply beq_spec | now apply IH].
Qed.

Lemma path_eqb_refl a : path_eqb a a = true.
Proof. now apply path_eqb_spec. Qed.

Lemma path_eqb_false a b : a <> b -> path_eqb a b = false.
Proof. intros H. destruct (path_eqb a b) eqn:E; [apply path_eqb_spec in E; contradiction | reflexivity]. Qed.

(* ---- the only write: append ------------------------------------------------------------------- *)
Lemma content_append_to gf d s d' :
  content (append_to gf d s) d' = if path_eqb d d' then content gf d' ++ s else content gf d'.
Proof.
  induction gf as [|[k v] r IH]; cbn [append_to content].
  - destruct (path_eqb d d'); reflexivity.
  - destruct (path_eqb k d) eqn:Ekd; cbn [content].
    + apply path_eqb_spec in Ekd. subst k.
      destruct (path_eqb d d'); reflexivity.
    + rewrite IH. destruct (path_eqb d d') eqn:Edd'; [|reflexivity].
      apply path_eqb_spec in Edd'. subst d'. rewrite Ekd. reflexivity.
Qed.

Definition is_prefix (a b : bytes) : Prop := exists s, b = a ++ s.

Lemma is_prefix_refl a : is_prefix a a.
Proof. exists []. now rewrite app_nil_r. Qed.

Lemma is_prefix_trans a b c : is_prefix a b -> is_prefix b c -> is_prefix a c.
Proof. intros [s ->] [t ->]. exists (s ++ t). now rewrite app_assoc. Qed.

(* gf' extends gf: every file keeps its old content as a prefix *)
Definition extends (gf gf' : gfiles) : Prop := forall d, is_prefix (content gf d) (content gf' d).

Lemma extends_refl gf : extends gf gf.
Proof. intros d. apply is_prefix_refl. Qed.

Lemma extends_trans a b c : extends a b -> extends b c -> extends a c.
Proof. intros H1 H2 d. eapply is_prefix_trans; [apply H1 | apply H2]. Qed.

Lemma extends_append_to gf d s : extends gf (append_to gf d s).
Proof.
  intros d'. rewrite content_append_to. destruct (path_eqb d d'); [now exists s | apply is_prefix_refl].
Qed.

Section EditProofs.
Variable RT : Type.
Variable build : env -> gfiles -> option RT.
Variable chk : RT -> bytes -> verdict.
Variable fixed_nl fixed_P5 : bool.

Notation write_blocks := (write_blocks fixed_nl).
Notation update_dirs := (update_dirs RT chk fixed_nl).
Notation update_files := (update_files RT chk fixed_nl).
Notation run_cmd := (run_cmd RT build chk fixed_nl fixed_P5).
Notation run_cmds := (run_cmds RT build chk fixed_nl fixed_P5).

Lemma extends_write_blocks groups date : forall gf, extends gf (write_blocks gf groups date).
Proof.
  induction groups as [|g r IH]; intros gf; cbn [Model.write_blocks fold_left].
  - apply extends_refl.
  - eapply extends_trans; [apply extends_append_to | apply IH].
Qed.

Lemma extends_update_dirs R gf dirs date : extends gf (update_dirs R gf dirs date).
Proof. apply extends_write_blocks. Qed.

Lemma extends_update_files R gf files date : extends gf (update_files R gf files date).
Proof. apply extends_write_blocks. Qed.

Lemma extends_run_cmd gf c : extends gf (fst (run_cmd gf c)).
Proof.
  destruct c as [e dirs files | e ops | e dests]; cbn [Model.run_cmd].
  - destruct (build e gf) as [R1|]; cbn [fst]; [|apply extends_refl].
    destruct (build e (update_dirs R1 gf dirs (e_date e))) as [R2|]; cbn [fst].
    + eapply extends_trans; [apply extends_update_dirs | apply extends_update_files].
    + apply extends_update_dirs.
  - destruct (build e gf) as [R0|]; cbn [fst]; [|apply extends_refl].
    destruct (collect RT chk R0 ops [] []) as [ds fs].
    destruct (build e (update_dirs R0 gf ds (e_date e))) as [R1|]; cbn [fst].
    + eapply extends_trans; [apply extends_update_dirs | apply extends_update_files].
    + apply extends_update_dirs.
  - destruct fixed_P5; cbn [fst]; [|apply extends_refl].
    destruct (build e gf) as [R|]; cbn [fst]; [apply extends_update_files | apply extends_refl].
Qed.

(* gitignore_append_only: for every sequence of commands, every matcher, every .gitignore file *)
Lemma append_only cs : forall gf, extends gf (run_cmds gf cs).
Proof.
  induction cs as [|c r IH]; intros gf; cbn [Model.run_cmds].
  - apply extends_refl.
  - eapply extends_trans; [apply extends_run_cmd | apply IH].
Qed.
End EditProofs.

(* ---- lines ------------------------------------------------------------------------------------ *)
Lemma glines_nonempty s : s <> [] -> glines s <> [].
Proof.
  destruct s as [|x r]; [congruence|]. intros _. cbn [glines].
  destruct (N.eqb x c_nl); [discriminate|]. destruct (glines r); discriminate.
Qed.

Lemma glines_cons x r :
  glines (x :: r) = if N.eqb x c_nl then [] :: glines r
                    else match glines r with [] => [[x]] | l :: ls => (x :: l) :: ls end.
Proof. reflexivity. Qed.

Lemma ends_nl_cons x y r : ends_nl (x :: y :: r) = ends_nl (y :: r).
Proof. reflexivity. Qed.

Lemma glines_app_nl s t : ends_nl s = true -> glines (s ++ t) = glines s ++ glines t.
Proof.
  induction s as [|x r IH]; intros H; [reflexivity|].
  destruct r as [|y r'].
  - change (N.eqb x c_nl = true) in H. cbn [app].
    rewrite (glines_cons x t), (glines_cons x []), H. reflexivity.
  - rewrite ends_nl_cons in H. specialize (IH H).
    change ((x :: y :: r') ++ t) with (x :: ((y :: r') ++ t)).
    rewrite (glines_cons x ((y :: r') ++ t)), (glines_cons x (y :: r')).
    rewrite IH. destruct (N.eqb x c_nl); [reflexivity|].
    destruct (glines (y :: r')) as [|l ls] eqn:E; [exfalso; revert E; apply glines_nonempty; discriminate|].
    reflexivity.
Qed.

Lemma glines_add_nl s : s <> [] -> ends_nl s = false -> glines (s ++ [c_nl]) = glines s.
Proof.
  induction s as [|x r IH]; intros Hne H; [congruence|].
  destruct r as [|y r'].
  - change (N.eqb x c_nl = false) in H. cbn [app].
    rewrite (glines_cons x [c_nl]), (glines_cons x []), H. reflexivity.
  - rewrite ends_nl_cons in H. assert (IH' := IH ltac:(discriminate) H).
    change ((x :: y :: r') ++ [c_nl]) with (x :: ((y :: r') ++ [c_nl])).
    rewrite (glines_cons x ((y :: r') ++ [c_nl])), (glines_cons x (y :: r')).
    rewrite IH'. reflexivity.
Qed.

Lemma last_byte_snoc s b : last_byte (s ++ [b]) = Some b.
Proof.
  induction s as [|x r IH]; [reflexivity|].
  destruct r as [|y r']; [reflexivity|].
  change ((x :: y :: r') ++ [b]) with (x :: y :: (r' ++ [b])).
  cbn [last_byte]. exact IH.
Qed.

Lemma ends_nl_snoc s : ends_nl (s ++ [c_nl]) = true.
Proof. unfold ends_nl. rewrite last_byte_snoc. reflexivity. Qed.

Lemma glines_line l t : has_nl l = false -> glines (l ++ c_nl :: t) = l :: glines t.
Proof.
  induction l as [|x l' IH]; intros H.
  - reflexivity.
  - cbn [has_nl existsb] in H. apply orb_false_iff in H as [Hx Hl].
    cbn [app]. rewrite glines_cons.
    rewrite N.eqb_sym, Hx. rewrite (IH Hl). reflexivity.
Qed.

Lemma glines_join ls : ls <> [] -> Forall (fun l => has_nl l = false) ls ->
  glines (join_nl ls ++ [c_nl]) = ls.
Proof.
  induction ls as [|a r IH]; intros Hne Hall; [congruence|].
  inversion Hall as [|? ? Ha Hr]; subst.
  destruct r as [|b r'].
  - cbn [join_nl]. rewrite (glines_line a [] Ha). reflexivity.
  - change (join_nl (a :: b :: r')) with (a ++ [c_nl] ++ join_nl (b :: r')).
    rewrite <- !app_assoc. cbn [app].
    rewrite (glines_line a _ Ha). f_equal. apply IH; [discriminate | assumption].
Qed.

(* ---- the block xvc writes --------------------------------------------------------------------- *)
Lemma has_nl_app a b : has_nl (a ++ b) = has_nl a || has_nl b.
Proof. unfold has_nl. apply existsb_app. Qed.

Lemma uint_bytes_no_nl u : has_nl (uint_bytes u) = false.
Proof. induction u; cbn [uint_bytes has_nl existsb]; try reflexivity; exact IHu. Qed.

Lemma header_no_nl n date : has_nl date = false -> has_nl (header n date) = false.
Proof.
  intros H. unfold header. rewrite !has_nl_app, H. unfold dec_bytes. rewrite uint_bytes_no_nl. reflexivity.
Qed.

Lemma glines_block ls date :
  ls <> [] -> has_nl date = false -> Forall (fun l => has_nl l = false) ls ->
  glines (block ls date) = header (length ls) date :: ls.
Proof.
  intros Hne Hd Hall. unfold block.
  change (header (length ls) date ++ [c_nl] ++ join_nl ls ++ [c_nl])
    with (header (length ls) date ++ c_nl :: (join_nl ls ++ [c_nl])).
  rewrite glines_line by (apply header_no_nl; exact Hd).
  f_equal. apply glines_join; assumption.
Qed.

Lemma block_ends_nl ls date : ends_nl (block ls date) = true.
Proof.
  unfold block. rewrite !app_assoc. apply ends_nl_snoc.
Qed.

(* ---- positive lines --------------------------------------------------------------------------- *)
Definition pos_line (l : pline) : Prop := match l with LPat p => g_neg p = false | _ => True end.
(* what xvc writes: one line, not a negation *)
Definition good_line (l : bytes) : Prop := has_nl l = false /\ pos_line (parse_line l).

Lemma parse_header n date : parse_line (header n date) = LNone.
Proof. reflexivity. Qed.

Lemma parse_slash_pos x : pos_line (parse_line (c_slash :: x)).
Proof.
  unfold parse_line.
  change (N.eqb c_slash c_hash) with false. cbv iota.
  destruct (negb (forallb ok_byte (c_slash :: x))); [exact I|].
  change (N.eqb c_slash c_bang) with false. cbv iota.
  destruct (strip_trailing_slash (c_slash :: x)) as [dir l2].
  destruct (is_empty l2); [exact I|].
  destruct (existsb (N.eqb c_slash) l2).
  - match goal with |- pos_line (if ?b then _ else _) => destruct b end; [exact I | reflexivity].
  - match goal with |- pos_line (if ?b then _ else _) => destruct b end; [exact I | reflexivity].
Qed.

Lemma weird_good : good_line weird_line.
Proof. split; reflexivity. Qed.

Lemma plines_block ls date :
  ls <> [] -> has_nl date = false -> Forall good_line ls ->
  plines (block ls date) = LNone :: map parse_line ls /\ Forall pos_line (plines (block ls date)).
Proof.
  intros Hne Hd Hall.
  assert (Hnl : Forall (fun l => has_nl l = false) ls) by (eapply Forall_impl; [|exact Hall]; intros a [H _]; exact H).
  unfold plines. rewrite (glines_block ls date Hne Hd Hnl). cbn [map]. rewrite parse_header.
  split; [reflexivity|]. constructor; [exact I|].
  apply Forall_map. eapply Forall_impl; [|exact Hall]. intros a [_ H]. exact H.
Qed.

(* ---- names ------------------------------------------------------------------------------------ *)
Lemma split_slash_noslash s : existsb (N.eqb c_slash) s = false -> split_slash s = [s].
Proof.
  induction s as [|x r IH]; intros H; [reflexivity|].
  cbn [existsb] in H. apply orb_false_iff in H as [Hx Hr].
  cbn [split_slash]. rewrite N.eqb_sym, Hx, (IH Hr). reflexivity.
Qed.

Lemma sts_noslash s : existsb (N.eqb c_slash) s = false -> strip_trailing_slash s = (false, s).
Proof.
  induction s as [|x r IH]; intros H; [reflexivity|].
  cbn [existsb] in H. apply orb_false_iff in H as [Hx Hr].
  destruct r as [|y r'].
  - cbn [strip_trailing_slash]. rewrite N.eqb_sym, Hx. reflexivity.
  - change (strip_trailing_slash (x :: y :: r')) with (let '(d, r'') := strip_trailing_slash (y :: r') in (d, x :: r'')).
    rewrite (IH Hr). reflexivity.
Qed.

Lemma sts_cons_noslash x s : s <> [] -> existsb (N.eqb c_slash) s = false ->
  strip_trailing_slash (x :: s) = (false, x :: s).
Proof.
  intros Hne H. destruct s as [|y r]; [congruence|].
  change (strip_trailing_slash (x :: y :: r)) with (let '(d, r'') := strip_trailing_slash (y :: r) in (d, x :: r'')).
  rewrite (sts_noslash _ H). reflexivity.
Qed.

Lemma sts_snoc s : strip_trailing_slash (s ++ [c_slash]) = (true, s).
Proof.
  induction s as [|x r IH]; [reflexivity|].
  destruct r as [|y r'].
  - reflexivity.
  - change ((x :: y :: r') ++ [c_slash]) with (x :: y :: (r' ++ [c_slash])).
    change (strip_trailing_slash (x :: y :: (r' ++ [c_slash])))
      with (let '(d, r'') := strip_trailing_slash (y :: (r' ++ [c_slash])) in (d, x :: r'')).
    change (y :: (r' ++ [c_slash])) with ((y :: r') ++ [c_slash]). rewrite IH. reflexivity.
Qed.

Lemma plain_name_parts n : plain_name n = true ->
  n <> [] /\ forallb ok_byte n = true /\ existsb (N.eqb c_slash) n = false /\ bytes_eqb n star2 = false /\
  bad_piece n = false.
Proof.
  unfold plain_name. intros H.
  apply andb_true_iff in H as [H H4]. apply andb_true_iff in H as [H H3]. apply andb_true_iff in H as [H1 H2].
  apply negb_true_iff in H4.
  repeat split.
  - destruct n; [discriminate | discriminate].
  - exact H2.
  - now apply negb_true_iff in H3.
  - destruct (bytes_eqb n star2) eqn:E; [|reflexivity]. apply beq_spec in E. subst n. discriminate.
  - unfold bad_piece. rewrite H4. reflexivity.
Qed.

Definition name_pat (dir : bool) (n : gname) : gpat :=
  {| g_neg := false; g_dir := dir; g_anch := true; g_segs := [GSG n] |}.

Lemma parse_file_line n : plain_name n = true -> parse_line (c_slash :: n) = LPat (name_pat false n).
Proof.
  intros Hp. destruct (plain_name_parts n Hp) as (Hne & Hok & Hns & Hss & Hbad).
  unfold parse_line.
  change (N.eqb c_slash c_hash) with false. cbv iota.
  change (forallb ok_byte (c_slash :: n)) with (ok_byte c_slash && forallb ok_byte n).
  rewrite Hok. change (negb (ok_byte c_slash && true)) with false. cbv iota.
  change (N.eqb c_slash c_bang) with false. cbv iota.
  rewrite (sts_cons_noslash c_slash n Hne Hns).
  change (is_empty (c_slash :: n)) with false. cbv iota.
  change (existsb (N.eqb c_slash) (c_slash :: n)) with true. cbv iota.
  change (starts_with c_slash (c_slash :: n)) with true. cbv iota. cbn [tl].
  rewrite (split_slash_noslash n Hns). cbn [existsb map].
  rewrite Hbad. destruct n as [|b n']; [congruence|]. cbn [is_empty orb]. cbv iota.
  rewrite Hss. reflexivity.
Qed.

Lemma parse_dir_line n : plain_name n = true -> parse_line ([c_slash] ++ n ++ [c_slash]) = LPat (name_pat true n).
Proof.
  intros Hp. destruct (plain_name_parts n Hp) as (Hne & Hok & Hns & Hss & Hbad).
  unfold parse_line. cbn [app].
  change (N.eqb c_slash c_hash) with false. cbv iota.
  change (forallb ok_byte (c_slash :: n ++ [c_slash])) with (ok_byte c_slash && forallb ok_byte (n ++ [c_slash])).
  rewrite forallb_app, Hok. change (negb (ok_byte c_slash && (true && forallb ok_byte [c_slash]))) with false. cbv iota.
  change (N.eqb c_slash c_bang) with false. cbv iota.
  change (c_slash :: n ++ [c_slash]) with ((c_slash :: n) ++ [c_slash]). rewrite sts_snoc.
  change (is_empty (c_slash :: n)) with false. cbv iota.
  change (existsb (N.eqb c_slash) (c_slash :: n)) with true. cbv iota.
  change (starts_with c_slash (c_slash :: n)) with true. cbv iota. cbn [tl].
  rewrite (split_slash_noslash n Hns). cbn [existsb map].
  rewrite Hbad. destruct n as [|b n']; [congruence|]. cbn [is_empty orb]. cbv iota.
  rewrite Hss. reflexivity.
Qed.

Lemma plain_name_no_nl n : plain_name n = true -> has_nl n = false.
Proof.
  intros Hp. destruct (plain_name_parts n Hp) as (_ & Hok & _ & _ & _).
  unfold has_nl. clear Hp. induction n as [|b r IH]; [reflexivity|].
  cbn [forallb] in Hok. apply andb_true_iff in Hok as [Hb Hr].
  cbn [existsb]. rewrite (IH Hr), orb_false_r.
  unfold ok_byte in Hb. apply andb_true_iff in Hb as [Hb _]. apply andb_true_iff in Hb as [Hb _].
  apply andb_true_iff in Hb as [Hb _]. apply andb_true_iff in Hb as [Hb _].
  apply N.ltb_lt in Hb. apply N.eqb_neq. unfold c_nl. lia.
Qed.

Lemma split_last_spec p : p <> [] -> exists par n, split_last p = Some (par, n) /\ p = par ++ [n].
Proof.
  induction p as [|x r IH]; intros H; [congruence|].
  destruct r as [|y r'].
  - exists [], x. split; reflexivity.
  - destruct (IH ltac:(discriminate)) as (par & n & E & Ep).
    exists (x :: par), n. split.
    + change (split_last (x :: y :: r')) with (match split_last (y :: r') with Some (d, n) => Some (x :: d, n) | None => None end).
      rewrite E. reflexivity.
    + rewrite Ep. reflexivity.
Qed.

Lemma plain_path_last p : plain_path p = true ->
  exists par n, split_last p = Some (par, n) /\ p = par ++ [n] /\ plain_name n = true.
Proof.
  unfold plain_path. intros H. apply andb_true_iff in H as [H1 H2].
  assert (Hne : p <> []) by (destruct p; [discriminate | discriminate]).
  destruct (split_last_spec p Hne) as (par & n & E & Ep).
  exists par, n. split; [exact E|]. split; [exact Ep|].
  rewrite Ep, forallb_app in H2. apply andb_true_iff in H2 as [_ H2]. cbn in H2. now rewrite andb_true_r in H2.
Qed.

Lemma file_item_good f : plain_path f = true -> good_line (snd (file_item f)).
Proof.
  intros H. destruct (plain_path_last f H) as (par & n & E & _ & Hn).
  unfold file_item. rewrite E. cbn [snd]. split.
  - change (has_nl (c_slash :: n)) with (N.eqb c_nl c_slash || has_nl n). rewrite (plain_name_no_nl n Hn). reflexivity.
  - apply parse_slash_pos.
Qed.

Lemma dir_item_good d : plain_path d = true -> good_line (snd (dir_item d)).
Proof.
  intros H. destruct (plain_path_last d H) as (par & n & E & _ & Hn).
  unfold dir_item. rewrite E. cbn [snd]. split.
  - rewrite !has_nl_app, (plain_name_no_nl n Hn). reflexivity.
  - apply (parse_slash_pos (n ++ [c_slash])).
Qed.

(* ---- the reference semantics under appended positive lines ------------------------------------- *)
Lemma lm_app a b rel isdir acc :
  last_match (a ++ b) rel isdir acc = last_match b rel isdir (last_match a rel isdir acc).
Proof.
  revert acc. induction a as [|l r IH]; intros acc; [reflexivity|].
  destruct l as [| |p]; cbn [app last_match]; apply IH.
Qed.

Lemma lm_mono ls rel isdir : forall acc acc',
  (acc = Some true -> acc' = Some true) ->
  last_match ls rel isdir acc = Some true -> last_match ls rel isdir acc' = Some true.
Proof.
  induction ls as [|l r IH]; intros acc acc' Himp; cbn [last_match]; [exact Himp|].
  destruct l as [| |p]; try (apply IH; exact Himp).
  destruct (pat_match p rel isdir); apply IH; [tauto | exact Himp].
Qed.

Lemma lm_pos extra rel isdir : Forall pos_line extra -> last_match extra rel isdir (Some true) = Some true.
Proof.
  induction extra as [|l r IH]; intros H; [reflexivity|].
  inversion H as [|? ? Hl Hr]; subst.
  destruct l as [| |p]; cbn [last_match]; try (apply IH; exact Hr).
  destruct (pat_match p rel isdir); [|apply IH; exact Hr].
  cbn in Hl. rewrite Hl. apply IH; exact Hr.
Qed.

Lemma lm_pos_hit extra rel isdir p : Forall pos_line extra -> In (LPat p) extra -> g_neg p = false ->
  pat_match p rel isdir = true -> forall acc, last_match extra rel isdir acc = Some true.
Proof.
  induction extra as [|l r IH]; intros Hall Hin Hneg Hm acc; [contradiction|].
  inversion Hall as [|? ? Hl Hr]; subst.
  destruct Hin as [E|Hin].
  - subst l. cbn [last_match]. rewrite Hm, Hneg. apply lm_pos; exact Hr.
  - destruct l as [| |q]; cbn [last_match]; apply IH; assumption.
Qed.

(* gf' has, in every file, the lines of gf followed by lines that are not negations *)
Definition ext_pos (gf gf' : gfiles) : Prop :=
  forall d, exists extra, plines (content gf' d) = plines (content gf d) ++ extra /\ Forall pos_line extra.

Lemma ext_pos_refl gf : ext_pos gf gf.
Proof. intros d. exists []. now rewrite app_nil_r. Qed.

Lemma ext_pos_trans a b c : ext_pos a b -> ext_pos b c -> ext_pos a c.
Proof.
  intros H1 H2 d. destruct (H1 d) as (e1 & E1 & F1). destruct (H2 d) as (e2 & E2 & F2).
  exists (e1 ++ e2). rewrite E2, E1, app_assoc. split; [reflexivity | now apply Forall_app].
Qed.

Lemma excl_from_mono gf gf' : ext_pos gf gf' -> forall rest pre isdir acc acc',
  (acc = Some true -> acc' = Some true) ->
  excl_from gf pre rest isdir acc = Some true -> excl_from gf' pre rest isdir acc' = Some true.
Proof.
  intros Hext. induction rest as [|n r IH]; intros pre isdir acc acc' Himp; cbn [excl_from]; [exact Himp|].
  apply IH. destruct (Hext pre) as (extra & E & F). rewrite E, lm_app.
  intros H. eapply lm_mono in H; [|exact Himp].
  rewrite H. apply lm_pos; exact F.
Qed.

Lemma excluded_mono gf gf' q isdir : ext_pos gf gf' -> excluded gf q isdir = true -> excluded gf' q isdir = true.
Proof.
  intros Hext. unfold excluded.
  destruct (excl_from gf [] q isdir None) as [[|]|] eqn:E; try discriminate. intros _.
  rewrite (excl_from_mono gf gf' Hext q [] isdir None None (fun x => x) E). reflexivity.
Qed.

Lemma ign_from_mono gf gf' isdir : ext_pos gf gf' -> forall rest pre,
  ign_from gf isdir pre rest = true -> ign_from gf' isdir pre rest = true.
Proof.
  intros Hext. induction rest as [|n r IH]; intros pre; [discriminate|].
  destruct r as [|m r'].
  - cbn [ign_from]. apply excluded_mono; exact Hext.
  - change (ign_from gf isdir pre (n :: m :: r')) with (excluded gf (pre ++ [n]) true || ign_from gf isdir (pre ++ [n]) (m :: r')).
    change (ign_from gf' isdir pre (n :: m :: r')) with (excluded gf' (pre ++ [n]) true || ign_from gf' isdir (pre ++ [n]) (m :: r')).
    intros H. apply orb_true_iff in H as [H|H]; apply orb_true_iff.
    + left. eapply excluded_mono; eassumption.
    + right. apply IH. exact H.
Qed.

(* an ignored path stays ignored when positive lines are appended *)
Lemma ignored_mono gf gf' p : ext_pos gf gf' -> ignored gf p = true -> ignored gf' p = true.
Proof. intros H. apply ign_from_mono; exact H. Qed.

(* ---- matching a written name ------------------------------------------------------------------- *)
Lemma wm_star_step p' s :
  wm (c_star :: p') s = wm p' s || match s with [] => false | _ :: s' => wm (c_star :: p') s' end.
Proof. destruct s; reflexivity. Qed.

Lemma wm_refl n : wm n n = true.
Proof.
  induction n as [|c r IH]; [reflexivity|].
  destruct (N.eqb c c_star) eqn:E.
  - apply N.eqb_eq in E. subst c. rewrite wm_star_step.
    rewrite wm_star_step. rewrite IH. apply orb_true_iff. right. reflexivity.
  - cbn [wm]. rewrite E, N.eqb_refl, orb_true_r, IH. reflexivity.
Qed.

Lemma name_pat_match dir n isdir : (dir = false \/ isdir = true) -> pat_match (name_pat dir n) [n] isdir = true.
Proof.
  intros H. unfold pat_match, name_pat. cbn [g_dir g_anch g_segs pm]. rewrite wm_refl.
  destruct H as [-> | ->]; [reflexivity | now rewrite orb_true_r].
Qed.

Lemma excl_from_snoc gf n isdir : forall d pre acc,
  exists acc0, excl_from gf pre (d ++ [n]) isdir acc = last_match (plines (content gf (pre ++ d))) [n] isdir acc0.
Proof.
  induction d as [|x d' IH]; intros pre acc.
  - cbn [app excl_from]. rewrite app_nil_r. eexists. reflexivity.
  - cbn [app excl_from]. destruct (IH (pre ++ [x]) (last_match (plines (content gf pre)) (x :: d' ++ [n]) isdir acc)) as (acc0 & E).
    exists acc0. rewrite E, <- app_assoc. reflexivity.
Qed.

(* the file of directory [par] ends (after what it had in gf0) with positive lines one of which is [l] *)
Definition has_rule (gf0 gf : gfiles) (par : gpath) (l : pline) : Prop :=
  exists extra, plines (content gf par) = plines (content gf0 par) ++ extra /\ Forall pos_line extra /\ In l extra.

Lemma has_rule_then gf0 gf gf' par l : has_rule gf0 gf par l -> ext_pos gf gf' -> has_rule gf0 gf' par l.
Proof.
  intros (e1 & E1 & F1 & I1) H. destruct (H par) as (e2 & E2 & F2).
  exists (e1 ++ e2). rewrite E2, E1, app_assoc. repeat split; [now apply Forall_app | apply in_or_app; now left].
Qed.

Lemma has_rule_after gf0 gf gf' par l : ext_pos gf0 gf -> has_rule gf gf' par l -> has_rule gf0 gf' par l.
Proof.
  intros H (e2 & E2 & F2 & I2). destruct (H par) as (e1 & E1 & F1).
  exists (e1 ++ e2). rewrite E2, E1, app_assoc. repeat split; [now apply Forall_app | apply in_or_app; now right].
Qed.

Lemma rule_excludes gf0 gf par n dir isdir :
  has_rule gf0 gf par (LPat (name_pat dir n)) -> (dir = false \/ isdir = true) ->
  excluded gf (par ++ [n]) isdir = true.
Proof.
  intros (extra & E & F & I) Hd. unfold excluded.
  destruct (excl_from_snoc gf n isdir par [] None) as (acc0 & Es). rewrite Es. cbn [app].
  rewrite E, lm_app.
  rewrite (lm_pos_hit extra [n] isdir (name_pat dir n) F I eq_refl (name_pat_match dir n isdir Hd)). reflexivity.
Qed.

Lemma ign_from_last gf isdir : forall rest pre, rest <> [] ->
  excluded gf (pre ++ rest) isdir = true -> ign_from gf isdir pre rest = true.
Proof.
  induction rest as [|n r IH]; intros pre Hne H; [congruence|].
  destruct r as [|m r'].
  - exact H.
  - change (ign_from gf isdir pre (n :: m :: r')) with (excluded gf (pre ++ [n]) true || ign_from gf isdir (pre ++ [n]) (m :: r')).
    apply orb_true_iff. right. apply IH; [discriminate|]. rewrite <- app_assoc. exact H.
Qed.

Lemma ign_from_ancestor gf isdir : forall d pre rest, d <> [] -> rest <> [] ->
  excluded gf (pre ++ d) true = true -> ign_from gf isdir pre (d ++ rest) = true.
Proof.
  induction d as [|n d' IH]; intros pre rest Hd Hr H; [congruence|].
  destruct d' as [|m d''].
  - destruct rest as [|r0 rest']; [congruence|].
    change (ign_from gf isdir pre ([n] ++ r0 :: rest')) with (excluded gf (pre ++ [n]) true || ign_from gf isdir (pre ++ [n]) (r0 :: rest')).
    rewrite H. reflexivity.
  - change (ign_from gf isdir pre ((n :: m :: d'') ++ rest))
      with (excluded gf (pre ++ [n]) true || ign_from gf isdir (pre ++ [n]) ((m :: d'') ++ rest)).
    apply orb_true_iff. right. apply IH; [discriminate | exact Hr |]. rewrite <- app_assoc. exact H.
Qed.

(* ---- writes keep the old lines and add positive ones ------------------------------------------- *)
Lemma ends_nl_app_block x ls date : ends_nl (x ++ block ls date) = true.
Proof. unfold block. rewrite !app_assoc. apply ends_nl_snoc. Qed.

Section Edit2.
Variable RT : Type.
Variable build : env -> gfiles -> option RT.
Variable chk : RT -> bytes -> verdict.
Variable fixed_nl fixed_P5 : bool.

(* every .gitignore ends with a line break, or the writer repairs an unterminated last line *)
Definition nl_ok (gf : gfiles) : Prop := fixed_nl = true \/ forall d, ends_nl (content gf d) = true.

Lemma all_end_nl_content gf : all_end_nl gf = true -> forall d, ends_nl (content gf d) = true.
Proof.
  induction gf as [|[k v] r IH]; intros H d; [reflexivity|].
  cbn [all_end_nl forallb snd] in H. apply andb_true_iff in H as [Hv Hr].
  cbn [content]. destruct (path_eqb k d); [exact Hv | apply IH; exact Hr].
Qed.

Lemma plines_write old ls date :
  (fixed_nl = true \/ ends_nl old = true) ->
  plines (old ++ sep_for fixed_nl old ++ block ls date) = plines old ++ plines (block ls date).
Proof.
  intros H. unfold plines, sep_for.
  destruct (ends_nl old) eqn:E.
  - rewrite andb_false_r. cbn [app]. rewrite glines_app_nl by exact E. apply map_app.
  - destruct H as [-> | H]; [|discriminate]. cbn [andb negb].
    destruct old as [|x r]; [discriminate|].
    change ((x :: r) ++ [c_nl] ++ block ls date) with ((x :: r) ++ c_nl :: block ls date).
    replace ((x :: r) ++ c_nl :: block ls date) with (((x :: r) ++ [c_nl]) ++ block ls date) by (rewrite <- app_assoc; reflexivity).
    rewrite glines_app_nl by apply ends_nl_snoc.
    rewrite glines_add_nl by (try discriminate; exact E). apply map_app.
Qed.

Definition good_group (g : gpath * list bytes) : Prop := snd g <> [] /\ Forall good_line (snd g).

Lemma write_one gf d ls date :
  nl_ok gf -> has_nl date = false -> good_group (d, ls) ->
  let gf' := append_to gf d (sep_for fixed_nl (content gf d) ++ block ls date) in
  ext_pos gf gf' /\ nl_ok gf' /\ forall l, In l ls -> has_rule gf gf' d (parse_line l).
Proof.
  intros Hnl Hd [Hne Hg] gf'. cbn [snd] in Hne, Hg.
  assert (Hcond : fixed_nl = true \/ ends_nl (content gf d) = true) by (destruct Hnl as [H|H]; [now left | right; apply H]).
  destruct (plines_block ls date Hne Hd Hg) as [Epl Fpl].
  assert (Econt : content gf' d = content gf d ++ sep_for fixed_nl (content gf d) ++ block ls date).
  { unfold gf'. rewrite content_append_to, path_eqb_refl. reflexivity. }
  split; [|split].
  - intros d'. destruct (path_eqb d d') eqn:E.
    + apply path_eqb_spec in E. subst d'. exists (plines (block ls date)).
      rewrite Econt, plines_write by exact Hcond. split; [reflexivity | exact Fpl].
    + exists []. unfold gf'. rewrite content_append_to, E, app_nil_r. split; [reflexivity | constructor].
  - destruct Hnl as [H|H]; [now left | right]. intros d'. unfold gf'. rewrite content_append_to.
    destruct (path_eqb d d'); [|apply H]. rewrite app_assoc. apply ends_nl_app_block.
  - intros l Hl. exists (plines (block ls date)). rewrite Econt, plines_write by exact Hcond.
    split; [reflexivity|]. split; [exact Fpl|]. rewrite Epl. right. apply in_map. exact Hl.
Qed.

Lemma write_blocks_ok groups date : has_nl date = false -> forall gf,
  nl_ok gf -> Forall good_group groups ->
  let gf' := write_blocks fixed_nl gf groups date in
  ext_pos gf gf' /\ nl_ok gf' /\
  forall d ls l, In (d, ls) groups -> In l ls -> has_rule gf gf' d (parse_line l).
Proof.
  intros Hd. induction groups as [|[d0 ls0] r IH]; intros gf Hnl Hg; cbn [write_blocks fold_left].
  - split; [apply ext_pos_refl|]. split; [exact Hnl|]. intros ? ? ? [].
  - inversion Hg as [|? ? Hg0 Hgr]; subst. cbn [fst snd].
    destruct (write_one gf d0 ls0 date Hnl Hd Hg0) as (E1 & N1 & R1).
    set (gf1 := append_to gf d0 (sep_for fixed_nl (content gf d0) ++ block ls0 date)) in *.
    destruct (IH gf1 N1 Hgr) as (E2 & N2 & R2).
    split; [eapply ext_pos_trans; eassumption|]. split; [exact N2|].
    intros d ls l [Eg|Hin] Hl.
    + injection Eg as -> ->. eapply has_rule_then; [apply R1; exact Hl | exact E2].
    + eapply has_rule_after; [exact E1 | eapply R2; eassumption].
Qed.

(* ---- grouping ---------------------------------------------------------------------------------- *)
Lemma group_add_new g d l : exists ls, In (d, ls) (group_add g d l) /\ In l ls.
Proof.
  induction g as [|[k ks] r IH]; cbn [group_add].
  - exists [l]. split; now left.
  - destruct (path_eqb k d) eqn:E.
    + apply path_eqb_spec in E. subst k. exists (ks ++ [l]). split; [now left | apply in_or_app; right; now left].
    + destruct IH as (ls & H1 & H2). exists ls. split; [now right | exact H2].
Qed.

Lemma group_add_keeps g d l d0 ls0 l0 : In (d0, ls0) g -> In l0 ls0 ->
  exists ls', In (d0, ls') (group_add g d l) /\ In l0 ls'.
Proof.
  induction g as [|[k ks] r IH]; intros Hin Hl; [contradiction|]. cbn [group_add].
  destruct Hin as [E|Hin].
  - injection E as -> ->. destruct (path_eqb d0 d).
    + exists (ls0 ++ [l]). split; [now left | apply in_or_app; now left].
    + exists ls0. split; [now left | exact Hl].
  - destruct (IH Hin Hl) as (ls' & H1 & H2). destruct (path_eqb k d).
    + exists ls0. split; [now right | exact Hl].
    + exists ls'. split; [now right | exact H2].
Qed.

Lemma group_fold_In items : forall g0 d l,
  (In (d, l) items \/ exists ls, In (d, ls) g0 /\ In l ls) ->
  exists ls, In (d, ls) (fold_left (fun g it => group_add g (fst it) (snd it)) items g0) /\ In l ls.
Proof.
  induction items as [|[d1 l1] r IH]; intros g0 d l H; cbn [fold_left fst snd].
  - destruct H as [[]|H]; exact H.
  - apply IH. destruct H as [[E|Hin]|(ls & H1 & H2)].
    + injection E as -> ->. right. apply group_add_new.
    + now left.
    + right. eapply group_add_keeps; eassumption.
Qed.

Lemma group_In items d l : In (d, l) items -> exists ls, In (d, ls) (group items) /\ In l ls.
Proof. intros H. apply group_fold_In. now left. Qed.

Lemma group_add_good g d l : Forall good_group g -> good_line l -> Forall good_group (group_add g d l).
Proof.
  induction g as [|[k ks] r IH]; intros Hg Hl; cbn [group_add].
  - constructor; [|constructor]. split; cbn [snd]; [discriminate | constructor; [exact Hl | constructor]].
  - inversion Hg as [|? ? [Hk1 Hk2] Hr]; subst. cbn [snd] in Hk1, Hk2. destruct (path_eqb k d).
    + constructor; [|exact Hr]. split; cbn [snd].
      * destruct ks; discriminate.
      * apply Forall_app. split; [exact Hk2 | constructor; [exact Hl | constructor]].
    + constructor; [split; assumption | apply IH; assumption].
Qed.

Lemma group_good items : Forall (fun it => good_line (snd it)) items -> Forall good_group (group items).
Proof.
  unfold group. assert (H0 : Forall good_group []) by constructor. revert H0. generalize (@nil (gpath * list bytes)).
  induction items as [|it r IH]; intros g0 H0 H; cbn [fold_left]; [exact H0|].
  inversion H as [|? ? Hi Hr]; subst. apply IH; [apply group_add_good; assumption | exact Hr].
Qed.

(* ---- one update stage -------------------------------------------------------------------------- *)
Lemma update_files_ok R gf files date :
  nl_ok gf -> has_nl date = false -> forallb plain_path files = true ->
  let gf' := update_files RT chk fixed_nl R gf files date in
  ext_pos gf gf' /\ nl_ok gf' /\
  forall par n, In (par ++ [n]) files -> plain_name n = true -> chk R (render (par ++ [n])) = NoMatch ->
    has_rule gf gf' par (LPat (name_pat false n)).
Proof.
  intros Hnl Hd Hp gf'. unfold gf', update_files.
  assert (Hgood : Forall good_group (group (map file_item (keep_files RT chk R files)))).
  { apply group_good. apply Forall_map. apply Forall_forall. intros f Hf.
    apply filter_In in Hf as [Hf _]. apply file_item_good. eapply forallb_forall in Hp; eassumption. }
  destruct (write_blocks_ok _ date Hd gf Hnl Hgood) as (E & N & Rr).
  split; [exact E|]. split; [exact N|].
  intros par n Hin Hn Hc.
  assert (Hk : In (par ++ [n]) (keep_files RT chk R files)) by (apply filter_In; split; [exact Hin | rewrite Hc; reflexivity]).
  assert (Hit : file_item (par ++ [n]) = (par, c_slash :: n)).
  { unfold file_item. destruct (split_last_spec (par ++ [n])) as (par' & n' & Es & Ep); [destruct par; discriminate|].
    apply app_inj_tail in Ep as [-> ->]. rewrite Es. reflexivity. }
  assert (Hmem : In (par, c_slash :: n) (map file_item (keep_files RT chk R files))) by (rewrite <- Hit; apply in_map; exact Hk).
  destruct (group_In _ par (c_slash :: n) Hmem) as (ls & Hg & Hl).
  rewrite <- (parse_file_line n Hn). eapply Rr; eassumption.
Qed.

Lemma update_dirs_ok R gf dirs date :
  nl_ok gf -> has_nl date = false -> forallb plain_path dirs = true ->
  let gf' := update_dirs RT chk fixed_nl R gf dirs date in
  ext_pos gf gf' /\ nl_ok gf' /\
  forall par n, In (par ++ [n]) dirs -> plain_name n = true -> chk R (dir_str (par ++ [n])) = NoMatch ->
    has_rule gf gf' par (LPat (name_pat true n)).
Proof.
  intros Hnl Hd Hp gf'. unfold gf', update_dirs.
  assert (Hgood : Forall good_group (group (map dir_item (keep_dirs RT chk R dirs)))).
  { apply group_good. apply Forall_map. apply Forall_forall. intros f Hf.
    apply filter_In in Hf as [Hf _]. apply dir_item_good. eapply forallb_forall in Hp; eassumption. }
  destruct (write_blocks_ok _ date Hd gf Hnl Hgood) as (E & N & Rr).
  split; [exact E|]. split; [exact N|].
  intros par n Hin Hn Hc.
  assert (Hk : In (par ++ [n]) (keep_dirs RT chk R dirs)) by (apply filter_In; split; [exact Hin | rewrite Hc; reflexivity]).
  assert (Hit : dir_item (par ++ [n]) = (par, [c_slash] ++ n ++ [c_slash])).
  { unfold dir_item. destruct (split_last_spec (par ++ [n])) as (par' & n' & Es & Ep); [destruct par; discriminate|].
    apply app_inj_tail in Ep as [-> ->]. rewrite Es. reflexivity. }
  assert (Hmem : In (par, [c_slash] ++ n ++ [c_slash]) (map dir_item (keep_dirs RT chk R dirs))) by (rewrite <- Hit; apply in_map; exact Hk).
  destruct (group_In _ par ([c_slash] ++ n ++ [c_slash]) Hmem) as (ls & Hg & Hl).
  rewrite <- (parse_dir_line n Hn). eapply Rr; eassumption.
Qed.

(* ---- commands ---------------------------------------------------------------------------------- *)
Notation run_cmd := (Model.run_cmd RT build chk fixed_nl fixed_P5).
Notation run_cmds := (Model.run_cmds RT build chk fixed_nl fixed_P5).
Notation K_white := (K_user_whitelist RT build chk fixed_nl).
Notation K_mism := (K_engine_mismatch RT build chk fixed_nl).

Lemma mem_path_In p l : mem_path p l = true <-> In p l.
Proof.
  induction l as [|x r IH]; cbn [mem_path]; [split; [discriminate | contradiction]|].
  rewrite orb_true_iff, IH, path_eqb_spec. reflexivity.
Qed.

Lemma collect_plain R0 ops : forall ds fs,
  forallb plain_path (map op_path ops) = true -> forallb plain_path ds = true -> forallb plain_path fs = true ->
  forallb plain_path (fst (collect RT chk R0 ops ds fs)) = true /\ forallb plain_path (snd (collect RT chk R0 ops ds fs)) = true.
Proof.
  induction ops as [|o r IH]; intros ds fs Ho Hd Hf; cbn [collect]; [split; assumption|].
  cbn [map forallb] in Ho. apply andb_true_iff in Ho as [Ho Hr].
  destruct o as [d|f]; cbn [op_path] in Ho.
  - destruct (negb (mem_path d ds) && is_nomatch (chk R0 (render d))); apply IH; try assumption.
    rewrite forallb_app, Hd. cbn. now rewrite Ho.
  - destruct (negb (mem_path f fs) && is_nomatch (chk R0 (render f))); apply IH; try assumption.
    rewrite forallb_app, Hf. cbn. now rewrite Ho.
Qed.

Lemma collect_file R0 f ops : forall ds fs,
  (In f fs \/ In (IgnFile f) ops) -> chk R0 (render f) = NoMatch -> In f (snd (collect RT chk R0 ops ds fs)).
Proof.
  induction ops as [|o r IH]; intros ds fs H Hc; cbn [collect].
  - destruct H as [H|[]]. exact H.
  - destruct o as [d|g].
    + destruct (negb (mem_path d ds) && is_nomatch (chk R0 (render d))); apply IH; try exact Hc;
        (destruct H as [H|[E|H]]; [now left | discriminate | now right]).
    + destruct (negb (mem_path g fs) && is_nomatch (chk R0 (render g))) eqn:Eg; apply IH; try exact Hc.
      * destruct H as [H|[E|H]]; [left; apply in_or_app; now left | | now right].
        injection E as ->. left. apply in_or_app. right. now left.
      * destruct H as [H|[E|H]]; [now left | | now right].
        injection E as ->. rewrite Hc in Eg. cbn [is_nomatch] in Eg. rewrite andb_true_r in Eg.
        apply negb_false_iff in Eg. left. now apply mem_path_In.
Qed.

Lemma wf_cmd_parts c : wf_cmd c = true -> forallb plain_path (cmd_paths c) = true /\ has_nl (e_date (cmd_env c)) = false.
Proof. unfold wf_cmd. intros H. apply andb_true_iff in H as [H1 H2]. split; [exact H1 | now apply negb_true_iff in H2]. Qed.

(* one command keeps every old line and adds only positive ones *)
Lemma run_cmd_stable gf c : nl_ok gf -> wf_cmd c = true ->
  ext_pos gf (fst (run_cmd gf c)) /\ nl_ok (fst (run_cmd gf c)).
Proof.
  intros Hnl Hwf. destruct (wf_cmd_parts c Hwf) as [Hp Hd].
  destruct c as [e dirs files | e ops | e dests]; cbn [cmd_paths cmd_env] in Hp, Hd; cbn [Model.run_cmd].
  - rewrite forallb_app in Hp. apply andb_true_iff in Hp as [Hpd Hpf].
    destruct (build e gf) as [R1|]; cbn [fst]; [|split; [apply ext_pos_refl | exact Hnl]].
    destruct (update_dirs_ok R1 gf dirs (e_date e) Hnl Hd Hpd) as (E1 & N1 & _).
    destruct (build e (update_dirs RT chk fixed_nl R1 gf dirs (e_date e))) as [R2|]; cbn [fst]; [|split; assumption].
    destruct (update_files_ok R2 _ files (e_date e) N1 Hd Hpf) as (E2 & N2 & _).
    split; [eapply ext_pos_trans; eassumption | exact N2].
  - destruct (build e gf) as [R0|]; cbn [fst]; [|split; [apply ext_pos_refl | exact Hnl]].
    destruct (collect_plain R0 ops [] [] Hp eq_refl eq_refl) as [Hpd Hpf].
    destruct (collect RT chk R0 ops [] []) as [ds fs]. cbn [fst snd] in Hpd, Hpf.
    destruct (update_dirs_ok R0 gf ds (e_date e) Hnl Hd Hpd) as (E1 & N1 & _).
    destruct (build e (update_dirs RT chk fixed_nl R0 gf ds (e_date e))) as [R1|]; cbn [fst]; [|split; assumption].
    destruct (update_files_ok R1 _ fs (e_date e) N1 Hd Hpf) as (E2 & N2 & _).
    split; [eapply ext_pos_trans; eassumption | exact N2].
  - destruct fixed_P5; cbn [fst]; [|split; [apply ext_pos_refl | exact Hnl]].
    destruct (build e gf) as [R|]; cbn [fst]; [|split; [apply ext_pos_refl | exact Hnl]].
    destruct (update_files_ok R gf dests (e_date e) Hnl Hd Hp) as (E2 & N2 & _). split; assumption.
Qed.

Lemma run_cmds_stable cs : forall gf, nl_ok gf -> forallb wf_cmd cs = true ->
  ext_pos gf (run_cmds gf cs) /\ nl_ok (run_cmds gf cs).
Proof.
  induction cs as [|c r IH]; intros gf Hnl Hwf; cbn [Model.run_cmds]; [split; [apply ext_pos_refl | exact Hnl]|].
  cbn [forallb] in Hwf. apply andb_true_iff in Hwf as [Hc Hr].
  destruct (run_cmd_stable gf c Hnl Hc) as [E1 N1]. destruct (IH _ N1 Hr) as [E2 N2].
  split; [eapply ext_pos_trans; eassumption | exact N2].
Qed.

(* ignored_stable: what Git ignores stays ignored through every sequence of xvc commands *)
Lemma ignored_stable cs gf p : nl_ok gf -> forallb wf_cmd cs = true ->
  ignored gf p = true -> ignored (run_cmds gf cs) p = true.
Proof. intros Hnl Hwf. apply ignored_mono. apply run_cmds_stable; assumption. Qed.

Lemma stage_ok R gf1 files date f :
  nl_ok gf1 -> has_nl date = false -> forallb plain_path files = true -> In f files ->
  is_whitelist (chk R (render f)) = false ->
  is_ignore (chk R (render f)) && negb (ignored gf1 f) = false ->
  ignored (update_files RT chk fixed_nl R gf1 files date) f = true.
Proof.
  intros Hnl Hd Hp Hin Hw Hm.
  destruct (update_files_ok R gf1 files date Hnl Hd Hp) as (E & N & Rr).
  assert (Hpf : plain_path f = true) by (eapply forallb_forall in Hp; eassumption).
  destruct (plain_path_last f Hpf) as (par & n & _ & Ef & Hn). subst f.
  destruct (chk R (render (par ++ [n]))) eqn:Ev.
  - unfold ignored. apply ign_from_last; [destruct par; discriminate|]. cbn [app].
    eapply rule_excludes; [apply Rr; assumption | now left].
  - cbn [is_ignore andb] in Hm. apply negb_false_iff in Hm. eapply ignored_mono; eassumption.
  - discriminate.
Qed.

Definition is_move (c : cmd) : bool := match c with CMoveRename _ _ => true | _ => false end.

(* tracked_paths_git_ignored, one command: a file target outside the two classes is ignored by Git
   after the command *)
Lemma cmd_targets_ignored gf c f :
  nl_ok gf -> wf_cmd c = true -> snd (run_cmd gf c) = true -> (is_move c = true -> fixed_P5 = true) ->
  In f (file_targets c) -> K_white gf c f = false -> K_mism gf c f = false ->
  ignored (fst (run_cmd gf c)) f = true.
Proof.
  intros Hnl Hwf Hok Hmv Hin Hkw Hkm. destruct (wf_cmd_parts c Hwf) as [Hp Hd].
  destruct c as [e dirs files | e ops | e dests]; cbn [cmd_paths cmd_env file_targets is_move] in *;
    unfold K_user_whitelist, K_engine_mismatch in Hkw, Hkm; cbn [Model.run_cmd Model.file_stage] in *.
  - rewrite forallb_app in Hp. apply andb_true_iff in Hp as [Hpd Hpf].
    destruct (build e gf) as [R1|]; [|discriminate].
    destruct (update_dirs_ok R1 gf dirs (e_date e) Hnl Hd Hpd) as (E1 & N1 & _).
    destruct (build e (update_dirs RT chk fixed_nl R1 gf dirs (e_date e))) as [R2|]; [|discriminate].
    cbn [fst orb] in *. apply stage_ok; assumption.
  - destruct (build e gf) as [R0|]; [|discriminate].
    destruct (collect_plain R0 ops [] [] Hp eq_refl eq_refl) as [Hpd Hpf].
    assert (Hcf := collect_file R0 f ops [] []).
    destruct (collect RT chk R0 ops [] []) as [ds fs]. cbn [fst snd] in *.
    destruct (update_dirs_ok R0 gf ds (e_date e) Hnl Hd Hpd) as (E1 & N1 & _).
    destruct (build e (update_dirs RT chk fixed_nl R0 gf ds (e_date e))) as [R1|]; [|discriminate].
    cbn [fst] in *. apply orb_false_iff in Hkw as [Hw0 Hw1]. apply orb_false_iff in Hkm as [Hm0 Hm1].
    assert (Hf : In (IgnFile f) ops).
    { clear - Hin. induction ops as [|o r IH]; [contradiction|]. cbn [flat_map] in Hin. apply in_app_or in Hin as [H|H].
      - destruct o; [contradiction|]. destruct H as [->|[]]. now left.
      - right. now apply IH. }
    destruct (chk R0 (render f)) eqn:Ev0.
    + apply stage_ok; try assumption. apply Hcf; [now right | reflexivity].
    + cbn [is_ignore andb] in Hm0. apply negb_false_iff in Hm0.
      destruct (update_files_ok R1 _ fs (e_date e) N1 Hd Hpf) as (E2 & _ & _).
      exact (ignored_mono gf _ f (ext_pos_trans _ _ _ E1 E2) Hm0).
    + discriminate.
  - rewrite (Hmv eq_refl) in *. destruct (build e gf) as [R|]; [|discriminate].
    cbn [fst orb] in *. apply stage_ok; assumption.
Qed.

(* the files below a directory target whose rule was written *)
Lemma track_dir_contents_ignored gf e dirs files par n rest R1 :
  nl_ok gf -> wf_cmd (CTrack e dirs files) = true -> build e gf = Some R1 ->
  In (par ++ [n]) dirs -> chk R1 (dir_str (par ++ [n])) = NoMatch -> rest <> [] ->
  ignored (fst (run_cmd gf (CTrack e dirs files))) (par ++ [n] ++ rest) = true.
Proof.
  intros Hnl Hwf Hb Hin Hc Hr. destruct (wf_cmd_parts _ Hwf) as [Hp Hd]. cbn [cmd_paths cmd_env] in Hp, Hd.
  rewrite forallb_app in Hp. apply andb_true_iff in Hp as [Hpd Hpf].
  assert (Hpn : plain_name n = true).
  { eapply forallb_forall in Hpd; [|exact Hin]. unfold plain_path in Hpd. apply andb_true_iff in Hpd as [_ H].
    rewrite forallb_app in H. apply andb_true_iff in H as [_ H]. cbn in H. now rewrite andb_true_r in H. }
  cbn [Model.run_cmd]. rewrite Hb.
  destruct (update_dirs_ok R1 gf dirs (e_date e) Hnl Hd Hpd) as (E1 & N1 & Rr).
  assert (Hx : excluded (update_dirs RT chk fixed_nl R1 gf dirs (e_date e)) (par ++ [n]) true = true)
    by (eapply rule_excludes; [apply Rr; assumption | now right]).
  assert (Hi : forall gf', ext_pos (update_dirs RT chk fixed_nl R1 gf dirs (e_date e)) gf' -> ignored gf' (par ++ [n] ++ rest) = true).
  { intros gf' He. unfold ignored. rewrite app_assoc. apply ign_from_ancestor; [destruct par; discriminate | exact Hr |].
    cbn [app]. eapply excluded_mono; eassumption. }
  destruct (build e (update_dirs RT chk fixed_nl R1 gf dirs (e_date e))) as [R2|]; cbn [fst].
  - apply Hi. apply (update_files_ok R2 _ files (e_date e) N1 Hd Hpf).
  - apply Hi. apply ext_pos_refl.
Qed.

Lemma run_cmds_app cs1 cs2 : forall gf, run_cmds gf (cs1 ++ cs2) = run_cmds (run_cmds gf cs1) cs2.
Proof. induction cs1 as [|c r IH]; intros gf; [reflexivity|]. cbn [app Model.run_cmds]. apply IH. Qed.

(* tracked_paths_git_ignored over histories: a file target of ANY command of a history, outside the
   two classes when that command ran, is ignored by Git at the end of the history *)
Lemma history_targets_ignored cs1 c cs2 gf f :
  nl_ok gf -> forallb wf_cmd (cs1 ++ c :: cs2) = true ->
  let gfk := run_cmds gf cs1 in
  snd (run_cmd gfk c) = true -> (is_move c = true -> fixed_P5 = true) ->
  In f (file_targets c) -> K_white gfk c f = false -> K_mism gfk c f = false ->
  ignored (run_cmds gf (cs1 ++ c :: cs2)) f = true.
Proof.
  intros Hnl Hwf gfk Hok Hmv Hin Hkw Hkm.
  rewrite forallb_app in Hwf. apply andb_true_iff in Hwf as [Hw1 Hw2].
  cbn [forallb] in Hw2. apply andb_true_iff in Hw2 as [Hwc Hw2].
  destruct (run_cmds_stable cs1 gf Hnl Hw1) as [_ Nk]. fold gfk in Nk.
  rewrite run_cmds_app. cbn [Model.run_cmds]. fold gfk.
  destruct (run_cmd_stable gfk c Nk Hwc) as [_ Nc].
  apply ignored_stable; [exact Nc | exact Hw2|].
  apply cmd_targets_ignored; assumption.
Qed.
End Edit2.

(* ---- the initial root .gitignore --------------------------------------------------------------- *)
Definition xvc_name : gname := Gen.GitignoreInitial.xvc_dir_name.
Definition cache_dirs : list gname := [[98;51]; [98;50]; [115;50]; [115;51]].     (* b3 b2 s2 s3 *)

Lemma init_all_end_nl : all_end_nl init_gf = true.
Proof. vm_compute. reflexivity. Qed.

Lemma init_supported : supported init_gf = true.
Proof. vm_compute. reflexivity. Qed.

Lemma cache_dir_excluded c : In c cache_dirs -> excluded init_gf [xvc_name; c] true = true.
Proof.
  intros H. cbn [cache_dirs In] in H.
  destruct H as [<-|[<-|[<-|[<-|[]]]]]; vm_compute; reflexivity.
Qed.

Section InitProofs.
Variable RT : Type.
Variable build : env -> gfiles -> option RT.
Variable chk : RT -> bytes -> verdict.
Variable fixed_nl fixed_P5 : bool.

(* cache_never_staged: from the initial .gitignore, after any sequence of xvc commands, every path
   below .xvc/{b3,b2,s2,s3} is ignored *)
Lemma cache_ignored cs c rest :
  In c cache_dirs -> rest <> [] -> forallb wf_cmd cs = true ->
  ignored (run_cmds RT build chk fixed_nl fixed_P5 init_gf cs) (xvc_name :: c :: rest) = true.
Proof.
  intros Hc Hr Hwf. apply ignored_stable; [right; apply all_end_nl_content; exact init_all_end_nl | exact Hwf |].
  unfold ignored. change (xvc_name :: c :: rest) with ([xvc_name; c] ++ rest).
  apply ign_from_ancestor; [discriminate | exact Hr | apply cache_dir_excluded; exact Hc].
Qed.
End InitProofs.
